// C33 — Headers from an unproven peer are stored only after their work is proven.
// VX-CHOICE on the real HeadersSyncState: every peer behaviour (batch length, full/partial flag, per-header
// deviation = chain switch / difficulty change, non-connecting batch) up to a message depth, for tiny
// HeadersSyncParams, every commit offset and a tight/loose commitment-memory bound.
// Oracles: (a) trace-level monitors written from the property text, (b) a small reference state machine written
// from the class comment of headerssync.h, (c) an independent __int128 reference of the permitted nBits change.
#include <vx/vx.h>

#include <arith_uint256.h>
#include <chain.h>
#include <consensus/params.h>
#include <crypto/sha256.h>
#include <headerssync.h>
#include <kernel/chainparams.h>
#include <pow.h>
#include <primitives/block.h>
#include <uint256.h>
#include <util/time.h>

#include <deque>
#include <optional>

extern void MakeRandDeterministicDANGEROUS(const uint256& seed) noexcept;

using State = HeadersSyncState::State;
typedef unsigned __int128 u128;

namespace {

constexpr uint32_t START_TIME = 1700000000;
constexpr uint32_t NBITS0 = 0x1c0ffff0; // main powLimit / 16, exactly representable, *4 and /4 stay exact
constexpr int RETARGET = 4;             // DifficultyAdjustmentInterval of the synthetic consensus params
constexpr int MIN_WORK_HEADERS = 8;

struct Cfg {
    size_t period, buf, offset;
    bool tight;
    int depth, max_dev;
    std::string str() const
    {
        return "period=" + std::to_string(period) + " buf=" + std::to_string(buf) + " offset=" + std::to_string(offset) + " tight=" + std::to_string(tight) + " depth=" + std::to_string(depth) + " max_dev=" + std::to_string(max_dev);
    }
};

// ---- independent reference of "permitted difficulty transition" (BIP/pow rule: at most a factor 4 either way at
// a retarget height, no change elsewhere), over unsigned __int128 with nBits decoded by hand.
u128 ref_decode(uint32_t nbits) // value in units of 256^0x14 (all nBits used here have exponent 0x17..0x1d)
{
    uint32_t exp = nbits >> 24, mant = nbits & 0x007fffff;
    if (exp < 0x17 || exp > 0x1d) { printf("HARNESS-ERROR nBits exponent outside reference range %08x\n", nbits); exit(2); }
    return (u128)mant << (8 * (exp - 0x14));
}
u128 ref_round_compact(u128 v) // keep the 3 most significant bytes (compact form, sign bit kept clear)
{
    int bytes = 0;
    for (u128 t = v; t; t >>= 8) bytes++;
    if (bytes <= 3) return v;
    int sh = 8 * (bytes - 3);
    u128 m = v >> sh;
    if (m & 0x800000) { m >>= 8; sh += 8; }
    return m << sh;
}
bool ref_permitted(int64_t height, uint32_t old_nbits, uint32_t new_nbits)
{
    if (height % RETARGET != 0) return old_nbits == new_nbits;
    const u128 limit = ref_decode(0x1d00ffff);
    u128 o = ref_decode(old_nbits), n = ref_decode(new_nbits);
    u128 hi = o * 4; if (hi > limit) hi = limit;
    u128 lo = o / 4; if (lo > limit) lo = limit;
    return n <= ref_round_compact(hi) && n >= ref_round_compact(lo);
}

uint32_t scale_nbits(uint32_t nbits, int mul, int div, int ulp)
{
    arith_uint256 t; t.SetCompact(nbits);
    t *= (uint32_t)mul; t /= (uint32_t)div;
    uint32_t c = t.GetCompact();
    return c + ulp; // mantissas used stay far from 0 / 0x7fffff, so +-1 is one unit in the last place
}

// GetBlockProof is a pure function of nBits (256-bit long division, slow): memoise per thread for the reference side.
arith_uint256 proof_of(const CBlockHeader& h)
{
    thread_local std::map<uint32_t, arith_uint256> cache;
    auto it = cache.find(h.nBits);
    if (it == cache.end()) it = cache.emplace(h.nBits, GetBlockProof(h)).first;
    return it->second;
}

CBlockHeader make_header(const uint256& prev, int64_t height, int merkle_variant, uint32_t nbits)
{
    CBlockHeader h;
    h.nVersion = 1;
    h.hashPrevBlock = prev;
    h.hashMerkleRoot = uint256{(uint8_t)merkle_variant};
    h.nTime = START_TIME + (uint32_t)height;
    h.nBits = nbits;
    h.nNonce = 0;
    return h;
}

enum Why { OK = 0, PRESYNC_NONCONNECT, PRESYNC_BADBITS, PRESYNC_TOOLONG, PRESYNC_LOWWORK_END, REDL_NONCONNECT, REDL_BADBITS,
           REDL_OVERRUN, REDL_MISMATCH, REDL_PARTIAL_END, COMPLETE, NWHY };
const char* WHY[] = {"ok", "presync-nonconnect", "presync-badbits", "presync-too-many-commitments", "presync-lowwork-end", "redl-nonconnect",
                     "redl-badbits", "redl-commitment-overrun", "redl-commitment-mismatch", "redl-partial-end", "complete"};

// ---- reference state machine, written from the class comment / ProcessNextHeaders documentation
struct Model {
    const Cfg& cfg;
    const HeadersSyncState& impl; // only for the salted 1-bit commitment function
    State phase{State::PRESYNC};
    uint256 start_hash; uint32_t start_bits; arith_uint256 start_work, min_work; uint64_t max_commitments;
    // presync
    uint256 p_last; int64_t p_height{0}; uint32_t p_bits; arith_uint256 p_work; std::deque<bool> commits;
    // redownload
    std::deque<CBlockHeader> buf; uint256 r_last; int64_t r_height{0}; uint32_t r_bits; arith_uint256 r_work; bool release_all{false};
    Why why{OK};

    bool bit(const CBlockHeader& h) const { return impl.m_hasher(h.GetHash()) & 1; }
    bool commit_height(int64_t h) const { return (size_t)(h % (int64_t)cfg.period) == cfg.offset; }

    struct Res { bool success{false}, request_more{false}; std::vector<CBlockHeader> released; };
    Res step(const std::vector<CBlockHeader>& batch, bool full)
    {
        Res r;
        why = OK;
        if (phase == State::PRESYNC) {
            bool ok = true;
            if (batch[0].hashPrevBlock != p_last) { ok = false; why = PRESYNC_NONCONNECT; }
            for (size_t i = 0; ok && i < batch.size(); i++) {
                const CBlockHeader& h = batch[i];
                if (!ref_permitted(p_height + 1, p_bits, h.nBits)) { ok = false; why = PRESYNC_BADBITS; break; }
                if (commit_height(p_height + 1)) {
                    commits.push_back(bit(h));
                    if (commits.size() > max_commitments) { ok = false; why = PRESYNC_TOOLONG; break; }
                }
                p_work += proof_of(h); p_last = h.GetHash(); p_bits = h.nBits; p_height++;
            }
            if (ok) {
                r.success = true;
                if (p_work >= min_work) {
                    phase = State::REDOWNLOAD;
                    r_last = start_hash; r_height = 0; r_bits = start_bits; r_work = start_work; buf.clear();
                    r.request_more = true;
                } else if (full) r.request_more = true;
                else why = PRESYNC_LOWWORK_END;
            }
        } else if (phase == State::REDOWNLOAD) {
            bool ok = true;
            for (const CBlockHeader& h : batch) {
                if (h.hashPrevBlock != r_last) { ok = false; why = REDL_NONCONNECT; break; }
                if (!ref_permitted(r_height + 1, r_bits, h.nBits)) { ok = false; why = REDL_BADBITS; break; }
                r_work += proof_of(h);
                if (r_work >= min_work) release_all = true;
                if (!release_all && commit_height(r_height + 1)) {
                    if (commits.empty()) { ok = false; why = REDL_OVERRUN; break; }
                    bool want = commits.front(); commits.pop_front();
                    if (bit(h) != want) { ok = false; why = REDL_MISMATCH; break; }
                }
                buf.push_back(h); r_last = h.GetHash(); r_bits = h.nBits; r_height++;
            }
            if (ok) {
                r.success = true;
                while (buf.size() > cfg.buf || (release_all && !buf.empty())) { r.released.push_back(buf.front()); buf.pop_front(); }
                if (buf.empty() && release_all) why = COMPLETE;
                else if (full) r.request_more = true;
                else why = REDL_PARTIAL_END;
            }
        }
        if (!(r.success && r.request_more)) phase = State::FINAL;
        return r;
    }
};

struct Stats {
    uint64_t why[NWHY] = {0};
    uint64_t rel_by_buffer = 0, rel_by_work = 0, switched_commit_passed = 0, reached_redl = 0, new_transitions = 0, executions = 0, pruned = 0;
};

std::mutex g_ctor_mu;
Consensus::Params g_cons;
vx::Distinct g_states;

std::string hdr_str(const CBlockHeader& h)
{
    char b[128];
    snprintf(b, sizeof b, "[%s<-%s m=%d bits=%08x]", h.GetHash().ToString().substr(56).c_str(), h.hashPrevBlock.ToString().substr(56).c_str(), (int)*h.hashMerkleRoot.begin(), h.nBits);
    return b;
}

void run_cfg(int cfg_index, int len0, const Cfg& cfg, Stats& st, const std::vector<int>* replay, bool verbose)
{
    // chain start: a block index at height 0 of the synthetic chain
    CBlockHeader start_hdr = make_header(uint256::ZERO, 0, 0, NBITS0);
    const uint256 start_hash = start_hdr.GetHash();
    CBlockIndex start_index(start_hdr);
    start_index.phashBlock = &start_hash;
    start_index.nHeight = 0;
    start_index.nChainWork = GetBlockProof(start_hdr);
    const arith_uint256 w0 = GetBlockProof(start_hdr);
    const arith_uint256 min_work = start_index.nChainWork + w0 * MIN_WORK_HEADERS;
    const HeadersSyncParams sp{.commitment_period = cfg.period, .redownload_buffer_size = cfg.buf};
    // memory bound: 6 blocks per second since the start block's MTP until now + 2h, one commitment per period
    const int64_t secs = cfg.tight ? 1 : 100000;
    const int64_t now = (int64_t)START_TIME - MAX_FUTURE_BLOCK_TIME + secs;
    const uint64_t max_commitments = (uint64_t)(6 * secs) / cfg.period;
    const std::string cfgs = cfg.str();

    vx::Explorer ex;
    ex.max_dev = cfg.max_dev;
    std::string first_key_check;

    auto body = [&](vx::Explorer& x) {
        std::optional<HeadersSyncState> hss_store;
        {
            std::lock_guard<std::mutex> l(g_ctor_mu);
            MakeRandDeterministicDANGEROUS(uint256::ZERO);
            SetMockTime(now);
            hss_store.emplace(0, g_cons, sp, start_index, min_work);
        }
        HeadersSyncState& hss = *hss_store;
        const_cast<size_t&>(hss.m_commit_offset) = cfg.offset;

        Model m{cfg, hss};
        m.start_hash = start_hash; m.start_bits = NBITS0; m.start_work = start_index.nChainWork; m.min_work = min_work;
        m.max_commitments = max_commitments;
        m.p_last = start_hash; m.p_bits = NBITS0; m.p_work = start_index.nChainWork;

        std::vector<CBlockHeader> P, R, released; // presync-accepted, redownload-accepted, released so far
        std::vector<uint256> PH, RH;              // their hashes
        bool r_prefix_of_p = true;                // the second pass has so far re-served the first-pass chain
        std::string kb;
        struct MsgRec { bool redl, full; int len, conn; std::string vs; std::vector<CBlockHeader> batch; Why why; size_t released; };
        std::vector<MsgRec> recs;
        auto render = [&]() {
            std::string hist;
            for (auto& r : recs) {
                hist += std::string(r.redl ? "R" : "P") + "(len=" + std::to_string(r.len) + (r.full ? ",full" : ",part") + ",conn=" + std::to_string(r.conn) + ",var=" + r.vs + ":";
                for (auto& h : r.batch) hist += hdr_str(h);
                hist += ") => " + std::string(WHY[r.why]) + " released=" + std::to_string(r.released) + "; ";
            }
            return hist;
        };
        auto fail = [&](const std::string& key, const std::string& what) {
            const std::string hist = render();
            vx::violation(key + " cfg{" + cfgs + "}", what + " | history: " + hist,
                          "# replay: first int = config index, second = length of the first batch, then the choice vector\n" + std::to_string(cfg_index) + " " + std::to_string(len0) + " " + x.trace_str() + "\n# " + cfgs + "\n# " + hist);
        };
        if (hss.m_max_commitments != max_commitments)
            fail("max-commitments-bound", "m_max_commitments=" + std::to_string(hss.m_max_commitments) + " expected 6*secs/period=" + std::to_string(max_commitments));

        for (int msg = 0; msg < cfg.depth; msg++) {
            // canonical state: model state + everything the implementation lets us observe
            kb.clear();
            auto put = [&](const void* p, size_t n) { kb.append((const char*)p, n); };
            auto put64 = [&](uint64_t v) { put(&v, 8); };
            put64(cfg_index); put64((uint64_t)m.phase); put64(P.size()); put64(R.size()); put64(released.size()); put64(m.release_all);
            if (!P.empty()) put(PH.back().begin(), 32);
            if (!R.empty()) put(RH.back().begin(), 32);
            put64((uint64_t)hss.GetState()); put64((uint64_t)hss.GetPresyncHeight());
            { uint256 w = ArithToUint256(hss.GetPresyncWork()); put(w.begin(), 32); }
            put64(hss.m_header_commitments.size()); put64(hss.m_redownloaded_headers.size());
            if (hss.GetState() != State::FINAL) { uint256 l = hss.NextHeadersRequestLocator().vHave.at(0); put(l.begin(), 32); }
            const uint64_t key = vx::fnv1a(kb);
            g_states.add(key);
            if (m.phase == State::FINAL) break;
            if (!x.visit(key, cfg.depth - msg)) { st.pruned++; return; }

            // ---- the peer decides
            const int len = (msg == 0 && len0) ? len0 : 1 + x.choose(3, false, "len"); // len0 != 0: first batch length fixed per work unit
            const bool full = x.choose(2, false, "full") == 0;
            const int conn = x.choose(3, true, "conn"); // 0 connects to what we asked for, 1 re-sends from one earlier, 2 unknown parent
            const bool redl = m.phase == State::REDOWNLOAD;
            std::vector<CBlockHeader>& C = redl ? R : P;
            std::vector<uint256>& CH = redl ? RH : PH;
            uint256 parent = C.empty() ? start_hash : CH.back();
            uint32_t parent_bits = C.empty() ? NBITS0 : C.back().nBits;
            int64_t height = (int64_t)C.size(); // height of parent
            if (conn == 1) {
                if (C.size() >= 2) { parent = CH[C.size() - 2]; parent_bits = C[C.size() - 2].nBits; height--; }
                else if (C.size() == 1) { parent = start_hash; parent_bits = NBITS0; height--; }
                else parent = uint256::ONE;
            } else if (conn == 2) {
                parent = uint256{0x77};
            }
            bool on_track = redl && conn == 0 && r_prefix_of_p;
            std::vector<CBlockHeader> batch;
            std::vector<uint256> batch_hash;
            std::string vs;
            for (int i = 0; i < len; i++) {
                height++;
                const int v = x.choose(7, true, "var");
                CBlockHeader h;
                if (v == 0 && on_track && (size_t)height <= P.size()) {
                    h = P[height - 1]; // honest: serve again what was served in the first pass
                } else {
                    uint32_t bits = parent_bits;
                    int mv = 0;
                    switch (v) {
                    case 1: mv = 1; break;                                   // other chain
                    case 2: mv = 2; break;                                   // yet another chain (other commitment bit candidates)
                    case 3: bits = scale_nbits(parent_bits, 1, 4, 0); break;  // 4x harder: allowed only at a retarget height
                    case 4: bits = scale_nbits(parent_bits, 1, 4, -1); break; // just beyond 4x harder: never allowed
                    case 5: bits = scale_nbits(parent_bits, 4, 1, 0); break;  // 4x easier
                    case 6: bits = scale_nbits(parent_bits, 4, 1, +1); break; // just beyond 4x easier
                    }
                    h = make_header(parent, height, mv, bits);
                }
                const uint256 hh = h.GetHash();
                if (on_track && ((size_t)height > P.size() || hh != PH[height - 1])) on_track = false;
                batch.push_back(h); batch_hash.push_back(hh);
                parent = hh; parent_bits = h.nBits;
                vs += std::to_string(v);
            }
            // ---- real step and model step
            const size_t commits_before = hss.m_header_commitments.size();
            const State state_before = hss.GetState();
            auto res = hss.ProcessNextHeaders(batch, full);
            auto exp = m.step(batch, full);
            const bool is_new = x.trace.size() >= x.prefix.size() || replay; // not a re-execution of an already explored prefix
            if (is_new) { st.new_transitions++; st.why[m.why]++; }
            recs.push_back(MsgRec{redl, full, len, conn, vs, batch, m.why, res.pow_validated_headers.size()});
            if (verbose) printf("  after msg %d: %s\n", msg, render().c_str());

            // how far did each phase get (trace bookkeeping, independent of the model's buffer)
            if (!redl) {
                if (exp.success) { P.insert(P.end(), batch.begin(), batch.end()); PH.insert(PH.end(), batch_hash.begin(), batch_hash.end()); }
            } else if (exp.success) {
                R.insert(R.end(), batch.begin(), batch.end()); RH.insert(RH.end(), batch_hash.begin(), batch_hash.end());
                r_prefix_of_p = on_track;
            }

            // (1) nothing is handed out for storage during / at the end of the first pass
            if (state_before == State::PRESYNC && !res.pow_validated_headers.empty())
                fail("released-in-presync", "headers returned by a call that started in PRESYNC");
            // (2) the second pass starts only once the claimed work is sufficient
            if (hss.GetState() == State::REDOWNLOAD || !res.pow_validated_headers.empty()) {
                arith_uint256 claimed = start_index.nChainWork;
                for (auto& h : P) claimed += proof_of(h);
                if (claimed < min_work) fail("redownload-before-min-work", "REDOWNLOAD/release although presync work is below the minimum");
            }
            if (state_before == State::PRESYNC && hss.GetState() == State::REDOWNLOAD) st.reached_redl++;
            // (3) memory bounds
            if (hss.m_header_commitments.size() > max_commitments)
                fail("commitments-exceed-bound", "m_header_commitments.size()=" + std::to_string(hss.m_header_commitments.size()) + " > " + std::to_string(max_commitments));
            if (hss.GetState() == State::REDOWNLOAD && hss.m_redownloaded_headers.size() > cfg.buf)
                fail("buffer-exceeds-size", "redownload buffer holds " + std::to_string(hss.m_redownloaded_headers.size()) + " > " + std::to_string(cfg.buf) + " after the call");
            if (hss.GetState() == State::FINAL && (hss.m_header_commitments.size() || hss.m_redownloaded_headers.size()))
                fail("final-keeps-memory", "FINAL state still holds commitments or buffered headers");
            if (redl && hss.m_header_commitments.size() > commits_before)
                fail("commitments-grow-in-redownload", "commitment queue grew in the second pass");
            // (4) released headers: one continuous chain from the sync start == the redownloaded chain, in order
            for (auto& h : res.pow_validated_headers) {
                const size_t i = released.size();
                const uint256 want_prev = i ? released.back().GetHash() : start_hash;
                const uint32_t prev_bits = i ? released.back().nBits : NBITS0;
                if (h.hashPrevBlock != want_prev) fail("released-not-continuous", "released header " + hdr_str(h) + " does not build on the previously released one");
                if (i >= R.size() || RH[i] != h.GetHash()) fail("released-not-redownloaded", "released header " + hdr_str(h) + " is not the redownloaded header at that height");
                // (5) permitted difficulty transition from its parent
                if (!ref_permitted((int64_t)i + 1, prev_bits, h.nBits))
                    fail("released-bad-difficulty-transition", "released header at height " + std::to_string(i + 1) + " " + hdr_str(h) + " has a forbidden nBits change from " + std::to_string(prev_bits));
                released.push_back(h);
            }
            // (6) each released header is either covered by redownloaded work >= minimum, or buried under a full
            //     buffer of redownloaded headers all of whose commitment heights matched the first pass
            if (!res.pow_validated_headers.empty()) {
                arith_uint256 rw = start_index.nChainWork;
                for (auto& h : R) rw += proof_of(h);
                if (rw >= min_work) {
                    st.rel_by_work++;
                } else {
                    st.rel_by_buffer++;
                    const size_t last_released_height = released.size();
                    if (R.size() - last_released_height < cfg.buf)
                        fail("released-without-full-buffer", "header at height " + std::to_string(last_released_height) + " released with only " + std::to_string(R.size() - last_released_height) + " redownloaded headers after it (buffer " + std::to_string(cfg.buf) + "), redownloaded work below minimum");
                    for (size_t h = 1; h <= R.size(); h++) {
                        if (h % cfg.period != cfg.offset) continue;
                        if (h > P.size()) { fail("released-past-commitments", "release although redownloaded chain ran past the first-pass commitments at height " + std::to_string(h)); break; }
                        if ((hss.m_hasher(RH[h - 1]) & 1) != (hss.m_hasher(PH[h - 1]) & 1)) { fail("released-despite-commitment-mismatch", "release although commitment at height " + std::to_string(h) + " differs from the first pass"); break; }
                    }
                }
            }
            if (redl && exp.success) {
                // a switched chain whose commitment bit happens to agree is legitimately accepted (1-bit commitments)
                for (size_t h = R.size() - batch.size() + 1; h <= R.size(); h++)
                    if (h % cfg.period == cfg.offset && h <= P.size() && RH[h - 1] != PH[h - 1] && !m.release_all) st.switched_commit_passed++;
            }
            // (7) agreement with the reference state machine on every API-visible result
            bool same = res.success == exp.success && res.request_more == exp.request_more && hss.GetState() == m.phase && res.pow_validated_headers.size() == exp.released.size();
            for (size_t i = 0; same && i < exp.released.size(); i++) same = exp.released[i].GetHash() == res.pow_validated_headers[i].GetHash() && exp.released[i].hashPrevBlock == res.pow_validated_headers[i].hashPrevBlock;
            if (!same)
                fail(std::string("model-mismatch-") + WHY[m.why], "impl success=" + std::to_string(res.success) + " more=" + std::to_string(res.request_more) + " state=" + std::to_string((int)hss.GetState()) + " released=" + std::to_string(res.pow_validated_headers.size()) +
                     " ; reference success=" + std::to_string(exp.success) + " more=" + std::to_string(exp.request_more) + " state=" + std::to_string((int)m.phase) + " released=" + std::to_string(exp.released.size()));
            if (m.phase == State::PRESYNC && (hss.GetPresyncHeight() != m.p_height || hss.GetPresyncWork() != m.p_work || hss.m_header_commitments.size() != m.commits.size()))
                fail("presync-progress-mismatch", "presync height/work/commitment count differ from reference: height " + std::to_string(hss.GetPresyncHeight()) + " vs " + std::to_string(m.p_height) + " commitments " + std::to_string(hss.m_header_commitments.size()) + " vs " + std::to_string(m.commits.size()));
            if (m.phase != State::FINAL && hss.GetState() != State::FINAL) {
                const uint256 want = m.phase == State::PRESYNC ? m.p_last : m.r_last;
                auto loc = hss.NextHeadersRequestLocator();
                if (loc.vHave.empty() || loc.vHave[0] != want || loc.vHave.back() != start_hash)
                    fail("locator-mismatch", "next getheaders locator does not continue from the last accepted header / end at the sync start");
            }
            if (!same) return; // model and implementation diverged: later comparisons are meaningless
        }
    };

    if (replay) {
        ex.run_one(*replay, body);
    } else {
        ex.explore(body);
    }
    st.executions += ex.executions;
}

} // namespace

int C33NetPart(bool big, double budget_s); // netpart.cpp: the net_processing half, on the real PeerManager

int main(int argc, char** argv)
{
    vx::init(argc, argv, "C33", "model_checking");
    auto& E = vx::ev();
    const bool big = vx::thorough();
    int net_rc = 0;
    // part (n) first: it forks a single-threaded node process, which must happen before any worker thread exists
    if (vx::ctx().replay.empty() || getenv("C33_NET_ONLY")) {
        net_rc = C33NetPart(big, getenv("C33_NET_BUDGET") ? atof(getenv("C33_NET_BUDGET")) : big ? 500 : 60);
        if (net_rc == 2) { vx::write_evidence(); return 2; }
        if (getenv("C33_NET_ONLY")) return vx::finish();
    }

    SHA256AutoDetect();
    g_cons = CChainParams::Main()->GetConsensus();
    g_cons.fPowAllowMinDifficultyBlocks = false;
    g_cons.fPowNoRetargeting = false;
    g_cons.nPowTargetSpacing = 600;
    g_cons.nPowTargetTimespan = RETARGET * 600;
    if (g_cons.DifficultyAdjustmentInterval() != RETARGET) { printf("HARNESS-ERROR retarget interval\n"); return 2; }

    std::vector<Cfg> cfgs;
    // the most expensive work units first (par_for hands them out in order)
    if (big) { // three deviations per session
        for (size_t off = 0; off < 2; off++) cfgs.push_back(Cfg{2, 2, off, false, 7, 3});
        for (size_t off = 0; off < 3; off++) cfgs.push_back(Cfg{3, 3, off, false, 7, 3});
    }
    for (size_t period : {2, 3}) {
        for (size_t buf : {2, 3, 4}) {
            if (!big && !((period == 2 && buf == 2) || (period == 3 && buf == 3))) continue;
            for (size_t off = 0; off < period; off++) cfgs.push_back(Cfg{period, buf, off, false, big ? 8 : 7, 2});
        }
    }
    for (size_t period : {2, 3}) {
        for (size_t buf : {2, 3, 4}) {
            if (!big && !((period == 2 && buf == 2) || (period == 3 && buf == 3))) continue;
            for (size_t off = 0; off < period; off++) cfgs.push_back(Cfg{period, buf, off, true, big ? 8 : 7, big ? 2 : 1});
        }
    }

    if (!vx::ctx().replay.empty()) {
        auto v = vx::parse_choices(vx::ctx().replay);
        if (v.size() < 2 || v[0] < 0 || (size_t)v[0] >= cfgs.size() || v[1] < 0 || v[1] > 3) { printf("HARNESS-ERROR bad replay file\n"); return 2; }
        std::vector<int> ch(v.begin() + 2, v.end());
        Stats st;
        printf("replaying cfg %d {%s}\n", v[0], cfgs[v[0]].str().c_str());
        run_cfg(v[0], v[1], cfgs[v[0]], st, &ch, true);
        return vx::finish();
    }

    // work units: one per config (shared pruning set), the expensive configs first
    const int SPLIT = 1;
    std::vector<Stats> unit_stats(cfgs.size() * SPLIT), stats(cfgs.size());
    std::vector<double> cpu(cfgs.size() * SPLIT);
    std::atomic<bool> cut{false};
    vx::par_for(cfgs.size() * SPLIT, 1, [&](uint64_t lo, uint64_t hi, unsigned) {
        for (uint64_t i = lo; i < hi; i++) {
            if (vx::deadline_reached()) { cut = true; continue; }
            timespec t0, t1; clock_gettime(CLOCK_THREAD_CPUTIME_ID, &t0);
            run_cfg((int)(i / SPLIT), SPLIT == 1 ? 0 : 1 + (int)(i % SPLIT), cfgs[i / SPLIT], unit_stats[i], nullptr, false);
            clock_gettime(CLOCK_THREAD_CPUTIME_ID, &t1);
            cpu[i] = (t1.tv_sec - t0.tv_sec) + 1e-9 * (t1.tv_nsec - t0.tv_nsec);
        }
    });
    for (size_t i = 0; i < cpu.size(); i++) printf("unit %zu {%s} cpu=%.1fs executions=%llu\n", i, cfgs[i / SPLIT].str().c_str(), cpu[i], (unsigned long long)unit_stats[i].executions);
    for (size_t i = 0; i < unit_stats.size(); i++) {
        auto& s = stats[i / SPLIT]; auto& u = unit_stats[i];
        for (int k = 0; k < NWHY; k++) s.why[k] += u.why[k];
        s.rel_by_buffer += u.rel_by_buffer; s.rel_by_work += u.rel_by_work; s.switched_commit_passed += u.switched_commit_passed;
        s.reached_redl += u.reached_redl; s.new_transitions += u.new_transitions; s.executions += u.executions; s.pruned += u.pruned;
    }
    Stats tot;
    for (size_t i = 0; i < cfgs.size(); i++) {
        auto& s = stats[i];
        for (int k = 0; k < NWHY; k++) tot.why[k] += s.why[k];
        tot.rel_by_buffer += s.rel_by_buffer; tot.rel_by_work += s.rel_by_work; tot.switched_commit_passed += s.switched_commit_passed;
        tot.reached_redl += s.reached_redl; tot.new_transitions += s.new_transitions; tot.executions += s.executions; tot.pruned += s.pruned;
        if (i < 12) E.sample("cfg{" + cfgs[i].str() + "} executions=" + std::to_string(s.executions) + " transitions=" + std::to_string(s.new_transitions) + " released_by_buffer=" + std::to_string(s.rel_by_buffer) + " released_by_work=" + std::to_string(s.rel_by_work) + " commitment_mismatch_aborts=" + std::to_string(s.why[REDL_MISMATCH]));
    }
    if (cut) E.exhaustive = false;
    E.states = g_states.size();
    E.transitions = tot.new_transitions;
    E.traces_validated = tot.new_transitions;
    std::string outcomes;
    for (int k = 0; k < NWHY; k++) outcomes += std::string(WHY[k]) + "=" + std::to_string(tot.why[k]) + " ";
    E.set_str("outcome_counts", outcomes);
    E.set("configs", (uint64_t)cfgs.size());
    E.set("executions", tot.executions);
    E.set("pruned_executions", tot.pruned);
    E.set("released_by_buffer_rule", tot.rel_by_buffer);
    E.set("released_by_work_rule", tot.rel_by_work);
    E.set("switched_header_passing_1bit_commitment", tot.switched_commit_passed);
    E.set("max_messages", (uint64_t)(big ? 8 : 7));
    E.rule = "stateless DFS over peer sessions against a fresh HeadersSyncState per execution: per message batch length 1..3 x full/partial flag x "
             "{connecting, re-send from one earlier, unknown parent} x per header one of 7 variants {as first pass / plain, other chain A, other chain B, "
             "4x harder, 4x harder+1ulp, 4x easier, 4x easier+1ulp}; non-default picks bounded by max_dev; retarget interval 4, minimum work = 8 base headers; "
             "configs = commitment_period {2,3} x redownload_buffer_size (quick {2|3}, thorough {2,3,4}) x every commit offset x {loose, tight} commitment bound; "
             "state = canonical (reference state + all observable answers), pruned on (state, remaining depth, deviations used); transitions = ProcessNextHeaders calls beyond the replayed prefix";
    E.assume("callers pass non-empty, internally continuous batches and never call after FINAL (preconditions documented in headerssync.h)");
    E.assume("the 1-bit commitment of a header is read through the object's own salted hasher (private access); its salt is fixed by a deterministic RNG seed");
    E.assume("proof-of-work of the headers themselves is checked by the caller (net_processing CheckHeadersPoW) and is not part of this harness");

    // sanity gate: every outcome class the property talks about must have occurred (skipped when a violation cut executions short)
    if (vx::rep().violations || cut) return vx::finish(); // a deadline-cut search may legitimately lack a class
    for (int k = 1; k < NWHY; k++)
        if (!tot.why[k]) { printf("HARNESS-ERROR outcome class never reached: %s\n", WHY[k]); vx::write_evidence(); return 2; }
    if (!tot.rel_by_buffer || !tot.rel_by_work || !tot.switched_commit_passed || !tot.reached_redl) {
        printf("HARNESS-ERROR vacuous: by_buffer=%llu by_work=%llu lucky_commit=%llu redl=%llu\n", (unsigned long long)tot.rel_by_buffer, (unsigned long long)tot.rel_by_work, (unsigned long long)tot.switched_commit_passed, (unsigned long long)tot.reached_redl);
        vx::write_evidence();
        return 2;
    }
    printf("outcomes: %s\nexecutions=%llu pruned=%llu by_buffer=%llu by_work=%llu lucky_commit=%llu\n", outcomes.c_str(), (unsigned long long)tot.executions, (unsigned long long)tot.pruned,
           (unsigned long long)tot.rel_by_buffer, (unsigned long long)tot.rel_by_work, (unsigned long long)tot.switched_commit_passed);
    return vx::finish();
}
