LINK := full
KITS := chainkit p2pkit
INCLUDED_SRCS := net_processing.cpp
