// C33, part (n) — the net_processing half of the property: "the node stores no header from that peer until the peer has
// served a chain reaching the minimum chain work ... every released header ... is checked for proof of work before it
// is stored", driven through the real PeerManager (kits/p2pkit) on the in-process regtest node.
//
// Engine: VX-STATE, fork per transition (vx/forksim.h). The node has 5 base blocks and minimum chain work = work of
// height 13, so a peer needs 8 headers to prove its chain; -maxheadersresult is 4 (PeerManager::Options), the regtest
// HeadersSyncParams are overwritten in memory with commitment_period 2 / redownload_buffer_size 3, so presync,
// redownload, buffer releases and the final release all happen within 4-5 messages. One inbound peer without
// permissions; every event is one HEADERS message followed by the message-handler rounds:
//   A4 A2 B4 B2   the next 4 (full) / 2 (partial) headers of chain A / B after the node's last getheaders locator
//                 (B shares A's first FORK headers; a B batch after an unshared A header does not connect)
//   E             empty headers message
//   A4r           the first four headers of A again (restart), whatever was asked
//   A4s           A, skipping one header (does not connect to what was asked)
//   A4p           as A4, the last header with a nonce that fails proof of work
//   A4g           as A4 with a gap inside the batch (non-continuous)
// Oracles after every message:
//   S2 (property)  a header of the peer is in the block index  =>  the peer has delivered every header of one of its chains
//                  from the base up to the minimum-work height at least once (no storage before the work is shown)
//   S4 (property)  a batch with a bad-PoW header or a gap stores nothing, leaves the per-peer sync state untouched
//                  (no header of it reached the headers-sync state) and gets the peer disconnected
//   S5 (property)  per-peer memory: commitments <= the object's bound, redownload buffer <= buffer size + batch size
//   G  (glue)      the set of newly stored headers and the resulting sync phase equal what an independent re-statement of
//                  ProcessHeadersMessage's anti-DoS glue computes from a *copy* of the peer's HeadersSyncState taken before
//                  the message (so HeadersSyncState itself — decided by part (a) — is the oracle for its own output, and
//                  what is checked here is that net_processing stores exactly what it released and nothing else)
#include <kits/chainkit.h>
#include <kits/p2pkit.h>
#include <vx/vx.h>
#include <vx/forksim.h>

#include <net_processing.cpp> // the real translation unit: PeerManagerImpl and Peer become visible (private access via -fno-access-control)

#include <chainparams.h>
#include <headerssync.h>
#include <pow.h>
#include <streams.h>

namespace c33net {

constexpr int BASE = 5, NEED = 8, LEN = 16, MAXH = 4;
constexpr size_t PERIOD = 2, BUF = 3;

enum { O_PRESYNC_STARTED, O_REDL_REACHED, O_RELEASED_BY_BUFFER, O_RELEASED_ALL, O_DIRECT_STORE, O_BAD_REJECTED, O_SWITCH_ABORT, O_LOWWORK_IGNORED, O_UNCONNECTING, O_EMPTY_RESET, O_N };
static const char* ONAMES[] = {"presync_started", "redownload_reached", "released_by_buffer_rule", "released_all_at_min_work", "stored_directly_after_proof",
                               "bad_batch_rejected", "chain_switch_aborted_sync", "low_work_partial_ignored", "unconnecting_batch", "empty_message_reset_sync"};

struct SyncSummary {
    bool exists{false};
    int state{0};
    int64_t cur_h{0}, buf_last_h{0};
    size_t buf{0}, commits{0};
    bool all{false};
    std::string str() const
    {
        if (!exists) return "none";
        return "st" + std::to_string(state) + ":h" + std::to_string(cur_h) + ":b" + std::to_string(buf) + "@" + std::to_string(buf_last_h) + ":c" + std::to_string(commits) + (all ? ":all" : "");
    }
    bool same_phase(const SyncSummary& o) const { return exists == o.exists && (!exists || (state == o.state && cur_h == o.cur_h && buf == o.buf && buf_last_h == o.buf_last_h && all == o.all && commits == o.commits)); }
};

static SyncSummary Summ(const HeadersSyncState* s)
{
    SyncSummary r;
    if (!s || s->GetState() == HeadersSyncState::State::FINAL) return r;
    r.exists = true;
    r.state = (int)s->m_download_state;
    r.cur_h = s->m_current_height;
    r.buf = s->m_redownloaded_headers.size();
    r.buf_last_h = s->m_redownload_buffer_last_height;
    r.commits = s->m_header_commitments.size();
    r.all = s->m_process_all_remaining_headers;
    return r;
}

struct World {
    ck::Node& n;
    int fork_at;
    std::unique_ptr<pk::Net> net;
    pk::Peer* peer{nullptr};
    std::vector<CBlockHeader> A, B;
    std::map<uint256, int> idxA, idxB;
    std::set<uint256> base;
    uint256 base_tip;
    arith_uint256 threshold;
    std::vector<uint256> locator;
    uint64_t delivered{0}; // bit i: A[i]; bit 32+i: B[i]
    vx::ForkSim fs;
    std::vector<std::string> alpha;

    World(ck::Node& node, int f) : n(node), fork_at(f) {}

    static CBlockHeader Mk(const uint256& prev, uint32_t time, uint32_t nbits, uint32_t salt)
    {
        CBlockHeader h;
        h.nVersion = 0x20000000;
        h.hashPrevBlock = prev;
        uint256 m;
        memcpy(m.data(), &salt, 4);
        m.data()[31] = 0x33;
        h.hashMerkleRoot = m;
        h.nTime = time;
        h.nBits = nbits;
        h.nNonce = 0;
        ck::Grind(h, Params().GetConsensus());
        return h;
    }

    void Init()
    {
        ck::RefLedger L;
        L.AddGenesis(Params().GenesisBlock());
        SetMockTime(Params().GenesisBlock().nTime + 600 * (BASE + 1));
        ck::MineEmpty(n, L, BASE);
        const CBlockIndex* tip = n.tip();
        base_tip = tip->GetBlockHash();
        for (const CBlockIndex* p = tip; p; p = p->pprev) base.insert(p->GetBlockHash());
        SetMockTime(tip->GetBlockTime() + 2000);
        uint256 prev = base_tip;
        for (int i = 0; i < LEN; i++) { A.push_back(Mk(prev, tip->GetBlockTime() + 60 * (i + 1), tip->nBits, 1000 + i)); prev = A.back().GetHash(); idxA[prev] = i; }
        prev = fork_at ? A[fork_at - 1].GetHash() : base_tip;
        for (int i = 0; i < LEN; i++) {
            if (i < fork_at) { B.push_back(A[i]); idxB[A[i].GetHash()] = i; continue; }
            B.push_back(Mk(prev, tip->GetBlockTime() + 60 * (i + 1), tip->nBits, 2000 + i));
            prev = B.back().GetHash();
            idxB[prev] = i;
        }
        pk::NetOpts no;
        no.peerman_tweak = [](PeerManager::Options& o) { o.max_headers_result = MAXH; };
        net = std::make_unique<pk::Net>(n, no);
        pk::PeerSpec s;
        s.type = ConnectionType::INBOUND;
        s.ip = "8.7.6.5";
        peer = &net->AddPeer(s);
        (void)peer->TakeSent();
        threshold = arith_uint256((uint64_t)(2 * (BASE + NEED + 1))); // the harness's own reading: max(tip work - 144 blocks, minimum chain work) = minimum chain work here
    }

    PeerManagerImpl* Impl() { return static_cast<PeerManagerImpl*>(net->peerman.get()); }
    HeadersSyncState* Sync() { PeerRef pr = Impl()->GetPeerRef(peer->id()); return pr ? pr->m_headers_sync.get() : nullptr; }

    std::vector<uint256> Stored()
    {
        std::vector<uint256> v;
        LOCK(cs_main);
        for (auto& [h, bi] : n.chainman().m_blockman.m_block_index) if (!base.count(h)) v.push_back(h);
        std::sort(v.begin(), v.end());
        return v;
    }

    // where an honest peer serving chain X would continue, given the node's last locator
    int NextPos(const std::map<uint256, int>& idx, const std::map<uint256, int>& other)
    {
        for (auto& h : locator) {
            auto it = idx.find(h);
            if (it != idx.end()) return it->second + 1;
            auto jt = other.find(h);
            if (jt != other.end()) return jt->second + 1; // unshared header of the other chain: same height, will not connect
            if (base.count(h)) return 0;
        }
        return 0;
    }

    std::vector<CBlockHeader> Build(const std::string& e, bool& bad)
    {
        bad = false;
        std::vector<CBlockHeader> v;
        if (e == "E") return v;
        const bool onB = e[0] == 'B';
        const auto& X = onB ? B : A;
        int k = e[1] - '0';
        int pos = onB ? NextPos(idxB, idxA) : NextPos(idxA, idxB);
        char mod = e.size() > 2 ? e[2] : 0;
        if (mod == 'r') pos = 0;
        if (mod == 's') pos += 1;
        if (mod == 'g') {
            for (int i : {pos, pos + 2, pos + 3, pos + 4}) if (i < LEN) v.push_back(X[i]);
            bad = v.size() >= 2;
            return v;
        }
        for (int i = pos; i < pos + k && i < LEN; i++) v.push_back(X[i]);
        if (mod == 'p' && !v.empty()) {
            CBlockHeader& h = v.back();
            while (CheckProofOfWork(h.GetHash(), h.nBits, Params().GetConsensus())) ++h.nNonce;
            bad = true;
        }
        return v;
    }

    void Mark(const std::vector<CBlockHeader>& v)
    {
        for (auto& h : v) {
            auto it = idxA.find(h.GetHash());
            if (it != idxA.end()) delivered |= uint64_t{1} << it->second;
            auto jt = idxB.find(h.GetHash());
            if (jt != idxB.end()) delivered |= uint64_t{1} << (32 + jt->second);
        }
    }

    std::vector<std::string> Events()
    {
        if (peer->disconnect_flag()) return {};
        return alpha;
    }

    void Apply(const std::string& e)
    {
        auto& oc = fs.sh->outcome_classes;
        bool bad = false;
        std::vector<CBlockHeader> H = Build(e, bad);
        if (H.empty() && e != "E") return; // chain exhausted: nothing to send
        const std::vector<uint256> before = Stored();
        HeadersSyncState* live = Sync();
        const SyncSummary pre = Summ(live);
        // ---------------- reference of the glue, computed before the message from a copy of the sync object
        std::set<uint256> exp_delta;
        SyncSummary exp_sync = pre;
        bool exp_known = true;      // false: the expected sync summary is only partly predicted (fresh object with an own salt)
        bool exp_new_sync = false;
        std::string path;
        if (H.empty()) { exp_sync = SyncSummary{}; path = "empty"; }
        else if (bad) { path = "bad"; }
        else {
            std::vector<CBlockHeader> cur = H;
            bool validated = false;
            if (live) {
                HeadersSyncState clone(*live);
                auto r = clone.ProcessNextHeaders(H, H.size() == (size_t)MAXH);
                exp_sync = Summ(&clone);
                if (r.success) { cur = r.pow_validated_headers; validated = true; path = "sync-ok"; } else path = "sync-fail";
            } else path = "nosync";
            if (!cur.empty()) {
                LOCK(cs_main);
                auto& bm = n.chainman().m_blockman;
                const CBlockIndex* start = bm.LookupBlockIndex(cur[0].hashPrevBlock);
                if (!start) path += "/unconnecting";
                else {
                    const CBlockIndex* last = bm.LookupBlockIndex(cur.back().GetHash());
                    const CBlockIndex* best = n.chainman().m_best_header;
                    if (last && ((best && best->GetAncestor(last->nHeight) == last) || n.chainman().ActiveChain().Contains(*last))) validated = true;
                    bool store = validated;
                    if (!validated) {
                        arith_uint256 total = start->nChainWork;
                        for (auto& h : cur) total += GetBlockProof(CBlockIndex(h));
                        if (total < threshold) {
                            if (cur.size() == (size_t)MAXH) {
                                exp_new_sync = true;
                                exp_known = false;
                                HeadersSyncState fresh(peer->id(), Params().GetConsensus(), Params().HeadersSync(), *start, threshold);
                                (void)fresh.ProcessNextHeaders(cur, true);
                                exp_sync = Summ(&fresh);
                                path += "/new-sync";
                            } else path += "/low-work-ignored";
                        } else store = true;
                    }
                    if (store) { for (auto& h : cur) if (!bm.LookupBlockIndex(h.GetHash())) exp_delta.insert(h.GetHash()); path += "/store"; }
                }
            } else path += "/consumed";
        }
        // ---------------- the real thing
        Mark(H);
        net->DeliverAndRun(*peer, pk::MsgHeaders(H));
        for (auto& m : peer->TakeSent()) {
            if (m.type != "getheaders") continue;
            try { DataStream s{m.payload}; CBlockLocator loc; uint256 stop; s >> loc >> stop; locator = loc.vHave; } catch (const std::exception&) {}
        }
        const std::vector<uint256> after = Stored();
        const SyncSummary post = Summ(Sync());
        std::set<uint256> delta;
        for (auto& h : after) if (!std::binary_search(before.begin(), before.end(), h)) delta.insert(h);
        const std::string where = "after '" + e + "' (" + std::to_string(H.size()) + " headers, path " + path + ", sync " + pre.str() + " -> " + post.str() + ")";
        // ---------------- S2
        for (auto& h : delta) {
            bool onA = idxA.count(h), onB = idxB.count(h);
            bool provenA = true, provenB = true;
            for (int i = 0; i < NEED; i++) { if (!(delivered >> i & 1)) provenA = false; if (!(delivered >> (32 + i) & 1)) provenB = false; }
            // "until the peer has served a chain reaching the minimum chain work": some chain, not necessarily the header's own —
            // in the second pass a different chain whose 1-bit commitments happen to match is released by design (probabilistic
            // protection; which headers the sync object may release is part (a)'s subject and oracle G's reference here)
            (void)onA; (void)onB;
            if (!(provenA || provenB)) {
                fs.report("C33-net-stored-before-work-proven", where + ": header " + h.ToString().substr(0, 12) + " entered the block index although the peer never served its chain up to the minimum-work height");
                break;
            }
        }
        // ---------------- S4
        if (bad) {
            if (!delta.empty()) fs.report("C33-net-bad-batch-stored:" + e, where + ": a batch with a bad-PoW header / a gap stored " + std::to_string(delta.size()) + " headers");
            if (!post.same_phase(pre)) fs.report("C33-net-bad-batch-reached-sync:" + e, where + ": the headers-sync state changed on a batch that fails the proof-of-work / continuity check");
            if (!peer->disconnect_flag()) fs.report("C33-net-bad-batch-not-punished:" + e, where + ": peer not marked for disconnection");
            else oc[O_BAD_REJECTED]++;
        }
        // ---------------- S5
        if (HeadersSyncState* s = Sync()) {
            if (s->m_header_commitments.size() > s->m_max_commitments) fs.report("C33-net-commitment-memory", where + ": more commitments than the bound");
            if (s->m_redownloaded_headers.size() > BUF + MAXH) fs.report("C33-net-buffer-memory", where + ": redownload buffer " + std::to_string(s->m_redownloaded_headers.size()) + " > " + std::to_string(BUF + MAXH));
        }
        // ---------------- G
        if (!bad) {
            if (delta != exp_delta) {
                std::string d;
                for (auto& h : delta) if (!exp_delta.count(h)) d += " +" + Name(h);
                for (auto& h : exp_delta) if (!delta.count(h)) d += " -" + Name(h);
                fs.report("C33-net-stored-set-differs:" + path, where + ": stored headers differ from what the headers-sync object released / the anti-DoS rule allows:" + d);
            }
            bool phase_ok = exp_known ? post.same_phase(exp_sync) : (post.exists == exp_sync.exists && (!post.exists || (post.state == exp_sync.state && post.cur_h == exp_sync.cur_h && post.buf == exp_sync.buf)));
            if (!phase_ok) fs.report("C33-net-sync-phase-differs:" + path, where + ": expected sync " + exp_sync.str());
        }
        // ---------------- outcome classes (sanity gates)
        if (exp_new_sync && post.exists) oc[O_PRESYNC_STARTED]++;
        if (pre.exists && pre.state == (int)HeadersSyncState::State::PRESYNC && post.exists && post.state == (int)HeadersSyncState::State::REDOWNLOAD) oc[O_REDL_REACHED]++;
        if (!delta.empty() && post.exists && pre.exists) oc[O_RELEASED_BY_BUFFER]++;
        if (!delta.empty() && !post.exists && pre.exists) oc[O_RELEASED_ALL]++;
        if (!delta.empty() && !pre.exists) oc[O_DIRECT_STORE]++;
        if (pre.exists && pre.state == (int)HeadersSyncState::State::REDOWNLOAD && !post.exists && delta.empty() && !H.empty() && !bad) oc[O_SWITCH_ABORT]++;
        if (path.find("low-work-ignored") != std::string::npos) oc[O_LOWWORK_IGNORED]++;
        if (path.find("unconnecting") != std::string::npos) oc[O_UNCONNECTING]++;
        if (H.empty() && pre.exists && !post.exists) oc[O_EMPTY_RESET]++;
    }

    std::string Name(const uint256& h)
    {
        auto it = idxA.find(h);
        if (it != idxA.end()) return "A" + std::to_string(it->second);
        auto jt = idxB.find(h);
        if (jt != idxB.end()) return "B" + std::to_string(jt->second);
        return h.ToString().substr(0, 8);
    }

    uint64_t Key()
    {
        std::string k;
        for (auto& h : Stored()) k += Name(h) + ",";
        HeadersSyncState* s = Sync();
        k += "|" + Summ(s).str();
        if (s) {
            k += "|";
            for (size_t i = 0; i < s->m_header_commitments.size(); i++) k += s->m_header_commitments[i] ? '1' : '0';
            k += "|" + s->m_last_header_received.GetHash().ToString().substr(0, 10) + "|" + s->m_redownload_buffer_last_hash.ToString().substr(0, 10);
        }
        k += "|loc:" + (locator.empty() ? std::string("-") : Name(locator[0]));
        k += "|d" + std::to_string(peer->disconnect_flag()) + "|m" + std::to_string(delivered);
        PeerRef pr = Impl()->GetPeerRef(peer->id());
        k += "|g" + std::to_string(pr && pr->m_last_getheaders_timestamp != NodeClock::time_point{} ? 1 : 0);
        return vx::fnv1a(k);
    }
};

} // namespace c33net

// Runs the net part; returns 0 (ok), 2 (harness error). Violations are reported through vx.
int C33NetPart(bool big, double budget_s)
{
    using namespace c33net;
    auto& E = vx::ev();
    vx::scratch_dir();
    setenv("RANDOM_CTX_SEED", "c33c33c33c33", 1);
    uint64_t outcome[O_N] = {0};
    uint64_t states = 0, transitions = 0;
    std::vector<int> forks = big ? std::vector<int>{3, 1, 5, 6} : std::vector<int>{3};
    const int depth = big ? 7 : 5;
    bool cut = false;
    int done = 0;
    for (int f : forks) {
        if (vx::deadline_reached() || vx::elapsed() > budget_s) { cut = true; break; }
        ck::NodeOpts o;
        o.min_validation_cache = true;
        o.minimum_chain_work = arith_uint256((uint64_t)(2 * (BASE + NEED + 1)));
        ck::Node node(o);
        auto& cp = const_cast<CChainParams&>(node.chainman().GetParams());
        cp.m_headers_sync_params = HeadersSyncParams{.commitment_period = PERIOD, .redownload_buffer_size = BUF};
        const_cast<CChainParams&>(Params()).m_headers_sync_params = cp.m_headers_sync_params;
        World w(node, f);
        w.Init();
        {
            LOCK(cs_main);
            if (node.chainman().ActiveChain().Tip()->nChainWork != arith_uint256((uint64_t)(2 * (BASE + 1)))) {
                printf("HARNESS-ERROR C33 net part: work model does not match the node\n");
                return 2;
            }
        }
        if (ck::ThreadCount() != 1) { printf("HARNESS-ERROR C33 net part: process is not single-threaded (%d)\n", ck::ThreadCount()); return 2; }
        w.alpha = {"A4", "B4", "A2", "E", "A4r", "A4p", "A4s", "A4g", "B2"};
        auto& fs = w.fs;
        fs.max_depth = depth;
        fs.split_depth = 1;
        fs.table_bits = 20;
        fs.budget_s = budget_s;
        fs.events = [&] { return w.Events(); };
        fs.apply = [&](const std::string& e) { w.Apply(e); };
        fs.key = [&] { return w.Key(); };
        fs.on_worker_start = [&](unsigned wk) { node.RepointBlocksDir(node.BlocksDir().parent_path() / ("w" + std::to_string(wk))); };
        uint64_t s0 = E.states, t0 = E.transitions;
        fs.run();
        states += E.states - s0;
        transitions += E.transitions - t0;
        for (int i = 0; i < O_N; i++) outcome[i] += fs.sh->outcome_classes[i].load();
        if (fs.sh->deadline_hit.load()) { cut = true; break; }
        done++;
    }
    E.set("net_part_states", states);
    E.set("net_part_transitions", transitions);
    E.set("net_part_fork_points_completed", (uint64_t)done);
    E.set("net_part_depth", (uint64_t)depth);
    std::string oc;
    for (int i = 0; i < O_N; i++) oc += std::string(ONAMES[i]) + "=" + std::to_string(outcome[i]) + " ";
    E.set_str("net_part_outcomes", oc);
    printf("net part: states=%llu transitions=%llu outcomes: %s\n", (unsigned long long)states, (unsigned long long)transitions, oc.c_str());
    if (cut) { E.exhaustive = false; return 0; }
    if (vx::rep().violations) return 0;
    for (int i = 0; i < O_N; i++)
        if (!outcome[i]) { printf("HARNESS-ERROR C33 net part: outcome class '%s' never occurred (vacuous)\n", ONAMES[i]); return 2; }
    return 0;
}
