// C01 — No coins are created beyond the block subsidy schedule.
// (1) chainsim over the value menu: exact / over / under-claiming coinbases, in==out, out>in (single and split),
//     negative / over-range outputs, output-sum overflow, fees claimed from an invalid tx, same-block fee chains.
//     Oracle: blocks the reference ledger rejects never enter the active chain; active chain is most-work valid;
//     UTXO == reference; sum(UTXO) <= sum of subsidies.
// (2) Input-side value rules, which regtest subsidies cannot reach through blocks: Consensus::CheckTxInputs over a
//     hand-seeded coins view with coins at the MoneyRange boundaries (complete cross product, __int128 reference).
#include <kits/chainsim_main.h>
#include <consensus/tx_verify.h>
#include <consensus/tx_check.h>

static void InputValueEnumeration()
{
    auto& E = vx::ev();
    const CAmount M = MAX_MONEY;
    const std::vector<CAmount> coin_vals{0, 1, M / 2, M / 2 + 1, M - 1, M, M + 1, -2, std::numeric_limits<CAmount>::max(), std::numeric_limits<CAmount>::min()};
    const std::vector<CAmount> out_vals{0, 1, M / 2, M / 2 + 1, M - 1, M};
    uint64_t n = 0, accepted = 0, rejected = 0;
    vx::Distinct classes;
    for (int nin = 1; nin <= 3; nin++) {
        std::vector<size_t> idx(nin, 0);
        for (;;) {
            // coins view with these inputs (mature, non-coinbase and one coinbase variant)
            for (int cbdepth : {-1, 99, 100}) { // -1: not a coinbase; else coinbase at that depth
                CCoinsView* base = &CoinsViewEmpty::Get();
                CCoinsViewCache view(base, /*deterministic=*/true);
                CMutableTransaction tx;
                __int128 in_sum = 0;
                bool any_bad_coin = false, partial_bad = false;
                for (int i = 0; i < nin; i++) {
                    COutPoint op(Txid::FromUint256(uint256{(uint8_t)(i + 1)}), 0);
                    CAmount v = coin_vals[idx[i]];
                    bool is_cb = cbdepth >= 0 && i == 0;
                    view.AddCoin(op, Coin(CTxOut(v, CScript() << OP_TRUE), is_cb ? 1000 - cbdepth : 10, is_cb), false);
                    tx.vin.emplace_back(op);
                    in_sum += v;
                    if (v < 0 || v > M) any_bad_coin = true;
                    if (in_sum < 0 || in_sum > M) partial_bad = true;
                }
                for (size_t o1 = 0; o1 < out_vals.size(); o1++)
                    for (size_t o2 = 0; o2 <= out_vals.size(); o2++) {
                        tx.vout.clear();
                        tx.vout.emplace_back(out_vals[o1], CScript() << OP_TRUE);
                        if (o2 < out_vals.size()) tx.vout.emplace_back(out_vals[o2], CScript() << OP_TRUE);
                        __int128 out_sum = 0;
                        for (auto& o : tx.vout) out_sum += o.nValue;
                        // precondition of CheckTxInputs (as in every caller): CheckTransaction passed
                        CTransaction ctx(tx);
                        TxValidationState pre;
                        if (!CheckTransaction(ctx, pre)) continue;
                        TxValidationState st;
                        CAmount fee = -12345;
                        bool ok = Consensus::CheckTxInputs(ctx, st, view, /*nSpendHeight=*/1000, fee);
                        n++;
                        // reference: premature coinbase spend, every input and every partial sum in range, in >= out
                        bool premature = cbdepth >= 0 && cbdepth < 100;
                        bool want = !premature && !any_bad_coin && !partial_bad && in_sum >= out_sum;
                        (ok ? accepted : rejected)++;
                        classes.add(std::string(ok ? "ok" : st.GetRejectReason()));
                        std::string desc = "inputs=";
                        for (int i = 0; i < nin; i++) desc += std::to_string(coin_vals[idx[i]]) + ",";
                        desc += " outputs=";
                        for (auto& o : tx.vout) desc += std::to_string(o.nValue) + ",";
                        desc += " coinbase_depth=" + std::to_string(cbdepth);
                        if (ok != want) vx::violation("C01-checktxinputs-verdict:" + std::string(want ? "valid-rejected" : "invalid-accepted"), "Consensus::CheckTxInputs " + std::string(ok ? "accepted" : "rejected (" + st.GetRejectReason() + ")") + " a transaction the value rules " + (want ? "allow" : "forbid") + ": " + desc, desc);
                        else if (ok && (__int128)fee != in_sum - out_sum) vx::violation("C01-checktxinputs-fee", "fee reported " + std::to_string(fee) + " != sum(in) - sum(out): " + desc, desc);
                        if (n == 1 || n == 5000) E.sample("CheckTxInputs case: " + desc + " -> " + (ok ? "ok fee=" + std::to_string(fee) : st.GetRejectReason()));
                    }
            }
            int k = 0;
            for (; k < nin; k++) { if (++idx[k] < coin_vals.size()) break; idx[k] = 0; }
            if (k == nin) break;
        }
    }
    E.evaluations += n;
    E.distinct_nontrivial += classes.size();
    E.set("checktxinputs_cases", n);
    E.set("checktxinputs_accepted", accepted);
    E.set("checktxinputs_rejected", rejected);
    if (accepted == 0 || rejected == 0) { printf("HARNESS-ERROR property=C01 input-value enumeration is vacuous\n"); exit(2); }
}

int main(int argc, char** argv)
{
    vx::init(argc, argv, "C01", "model_checking", 170, 1500);
    if (vx::ctx().replay.empty()) {
        ECC_Context ecc;
        InputValueEnumeration();
    }
    int rc = cs::Explore("C01", {}, [](cs::Sim& s) {
        cs::Plan p;
        s.kinds = {"spend1", "cb_plus1", "cb_plus1_empty", "cb_minus1", "cb_two_outs_plus1", "out_gt_in", "out_gt_in_split", "out_eq_in",
                   "out_negative", "out_maxplus1", "outs_sum_overflow", "fee_from_later_invalid", "chain2",
                   "dup_input", "dup_input3", "dup_same_tx3"}; // duplicated inputs count a coin's value twice (inflation through CheckTxInputs)
        s.parents = {"t0", "t1"};
        s.ev_flush = false; s.ev_invalidate = true; s.ev_reconsider = true;
        p.depth = vx::thorough() ? 4 : 2;
        s.max_new_blocks = p.depth;
        p.split = 1;
        // base chain ends two blocks before regtest's first halving (height 150), so that the explored blocks straddle
        // the boundary: the subsidy must halve exactly AT height 150
        p.base_blocks = 148;
        p.what = "base chain of 148 blocks (explored blocks are at heights 148..152, across the first regtest halving at 150); oracle: a block the reference ledger rejects (value rules) is never in the active chain; tip is a most-work valid delivered chain; UTXO == reference; sum(UTXO) <= subsidy schedule; plus the complete cross product of boundary coin values x 1-3 inputs x 1-2 outputs x coinbase depth through Consensus::CheckTxInputs vs an __int128 reference";
        return p;
    });
    if (rc >= 0) return rc;
    return vx::finish();
}
