// C01 — No coins are created beyond the block subsidy schedule.
// chainsim over the value menu: exact / over / under-claiming coinbases, in==out, out>in (single and split),
// negative / over-range outputs, output-sum overflow, fees claimed from an invalid tx, same-block fee chains.
// Oracle: blocks the reference ledger rejects never enter the active chain; active chain is most-work valid;
// UTXO == reference; sum(UTXO) <= sum of subsidies.
#include <kits/chainsim_main.h>
int main(int argc, char** argv)
{
    return cs::Main(argc, argv, "C01", {}, [](cs::Sim& s) {
        cs::Plan p;
        s.kinds = {"spend1", "cb_plus1", "cb_plus1_empty", "cb_minus1", "cb_two_outs_plus1", "out_gt_in", "out_gt_in_split", "out_eq_in",
                   "out_negative", "out_maxplus1", "outs_sum_overflow", "fee_from_later_invalid", "chain2"};
        s.parents = {"t0", "t1"};
        s.ev_flush = false; s.ev_invalidate = true; s.ev_reconsider = true;
        p.depth = vx::thorough() ? 4 : 2;
        s.max_new_blocks = p.depth;
        p.split = 1;
        p.what = "oracle: a block the reference ledger rejects (value rules) is never in the active chain; tip is a most-work valid delivered chain; UTXO == reference; sum(UTXO) <= subsidy schedule";
        return p;
    });
}
