LINK := full
KITS := chainkit
