// C56 — Fee bumping replaces the original safely.
//
// Originals are wallet transactions made by wallet::CreateTransaction as in C41 (1-2 recipients, with / without change,
// RBF signalling on / off, confirmed or unconfirmed own ancestor), committed and accepted by the node's mempool. Every
// (coin set, original, bump option) triple runs in its own fork of the prepared regtest node + wallet:
//   bumpable original:   feebumper::CreateRateBumpTransaction -> SignTransaction -> CommitTransaction -> mempool submit
//   unbumpable original: confirmed / already bumped / wallet descendant / mempool descendant / foreign input / unknown id /
//                        contradictory options: must be refused with the wallet's observable state unchanged.
#include <kits/forkpool.h>
#include <kits/walletnode.h>

#include <consensus/validation.h>
#include <core_io.h>
#include <policy/feerate.h>
#include <policy/policy.h>
#include <script/sign.h>
#include <script/signingprovider.h>
#include <test/util/random.h>
#include <wallet/coincontrol.h>
#include <wallet/feebumper.h>
#include <wallet/receive.h>
#include <wallet/spend.h>

using namespace wn;
using wallet::CCoinControl;
using wallet::CRecipient;
namespace fb = wallet::feebumper;

namespace {

struct Orig {
    int nrec;               // 1 or 2 recipients
    int shape;              // 0: mid payment, change expected; 1: whole spendable balance with subtract-fee (no change); 2: preselected P2WPKH coin only, mid payment (the bump shrinks the change);
                            // 3: preselected P2WPKH coin only, paying all but 2000 sat of it (tiny change: the bump must add inputs or drop the change)
    bool rbf;
    CAmount feerate;        // sat/kvB
    bool foreign{false};    // funded by the wallet but also spending a stranger's coin (only for the bump option u:foreign)
    std::string Str() const { return strprintf("orig{recipients=%d shape=%d rbf=%d feerate=%d%s}", nrec, shape, (int)rbf, feerate, foreign ? " foreign-input" : ""); }
};
// bump options
//  "auto" no feerate | "rate:+<d>" original feerate + d sat/kvB | "rate:x10" | "rate:x20" | "rate:max" (above the maximum fee) | "outputs" new
//  outputs | "shrink:<d>" / "grow:<d>" outputs that change the size + threshold feerate for the new size + d | "chgidx" original_change_index = the real change | "reduce" original_change_index = recipient 0 |
//  unbumpable: "u:confirmed" "u:replaced" "u:walletchild" "u:poolchild" "u:foreign" "u:unknown" "u:both" "u:range"
struct Spec { unsigned mask; Orig o; std::string bump; std::vector<std::string> bumps; std::string Str() const { return strprintf("coin mask %u | %s | bump=%s", mask, o.Str(), bump); } };

std::string Snapshot(wallet::CWallet& w)
{
    LOCK(w.cs_wallet);
    std::string s;
    std::vector<std::string> rows;
    for (auto& [id, wtx] : w.mapWallet)
        rows.push_back(id.ToString() + "|" + wallet::TxStateString(wtx.m_state) + "|" + (wtx.m_replaces_txid ? wtx.m_replaces_txid->ToString() : "-") + "|" + (wtx.m_replaced_by_txid ? wtx.m_replaced_by_txid->ToString() : "-") + "|" + std::to_string(wtx.mempool_conflicts.size()));
    std::sort(rows.begin(), rows.end());
    for (auto& r : rows) s += r + "\n";
    std::vector<COutPoint> lk;
    w.ListLockedCoins(lk);
    std::sort(lk.begin(), lk.end());
    for (auto& l : lk) s += "L" + l.ToString() + "\n";
    wallet::Balance b = wallet::GetBalance(w);
    s += strprintf("B%d,%d,%d\n", b.m_mine_trusted, b.m_mine_untrusted_pending, b.m_mine_immature);
    return s;
}

struct Job {
    World& w;
    fp::Out& out;
    Spec sp;
    World::Prepared P;
    std::vector<CTxDestination> dests;
    CKey rk[3];
    const std::map<CScript, OutputType>& internal;
    // the original
    CTransactionRef orig;
    CAmount orig_fee{0};
    std::optional<unsigned> orig_change_pos;
    Txid oid;
    int64_t orig_vsize{0};
    RefView v;

    Job(World& world, fp::Out& o, const Spec& s, const std::map<CScript, OutputType>& internal_scripts) : w(world), out(o), sp(s), internal(internal_scripts) {}

    // every bump option runs in its own fork of the process that holds the accepted original
    void Run()
    {
        if (!Setup()) return;
        for (auto& b : sp.bumps) {
            // the size-changing output replacements need something to drop (a second recipient) / something to take from (change)
            if (b.rfind("shrink:", 0) == 0 && sp.o.nrec != 2) continue;
            if (b.rfind("grow:", 0) == 0 && !(sp.o.nrec == 1 && orig_change_pos)) continue;
            out.send_counts();
            out.flush();
            fflush(stdout);
            pid_t p = fork();
            if (p < 0) throw std::runtime_error("fork failed");
            if (p == 0) {
                sp.bump = b;
                out.count("cases");
                try { RunOption(); }
                catch (const std::exception& e) { out.count("harness_error"); out.sample("HARNESS-ERROR " + sp.Str() + ": " + e.what()); }
                out.send_counts();
                out.flush();
                fflush(stdout);
                _exit(0);
            }
            int st = 0;
            while (waitpid(p, &st, 0) < 0 && errno == EINTR) {}
            if (!WIFEXITED(st) || WEXITSTATUS(st) != 0) {
                sp.bump = b;
                Viol("process-died:" + b, "the process running this bump died abnormally (assert / abort / crash in the code under test)");
            }
        }
    }

    void Viol(const std::string& key, const std::string& what, const std::string& extra = "")
    {
        out.violation("C56-" + key, what + " | " + sp.Str() + (extra.empty() ? "" : " | " + extra), sp.Str() + "\n" + extra);
    }
    bool IsInternal(const CScript& s) const { return internal.count(s) > 0; }

    CTransactionRef MakeOriginal(RefView& v, CAmount& fee, std::optional<unsigned>& change_pos)
    {
        CCoinControl cc;
        cc.m_feerate = CFeeRate(sp.o.feerate);
        cc.m_signal_bip125_rbf = sp.o.rbf;
        CAmount T = 0;
        for (auto& c : v.coins_safe) T += c.value;
        std::vector<CRecipient> vec;
        const CAmount MID = 5000000;
        if (sp.o.shape == 1) {
            if (sp.o.nrec == 1) vec.push_back({dests[0], T, true});
            else { vec.push_back({dests[0], T / 2, true}); vec.push_back({dests[1], T - T / 2, true}); }
        } else {
            CAmount first = MID;
            if (sp.o.shape == 3) {
                if (!P.op.count(World::K_P2WPKH)) return nullptr;
                first = P.prevouts.at(P.op.at(World::K_P2WPKH)).nValue - 2000 - (sp.o.nrec == 2 ? MID / 2 : 0);
            }
            vec.push_back({dests[0], first, false});
            if (sp.o.nrec == 2) vec.push_back({dests[1], MID / 2, false});
            if (sp.o.shape >= 2) {
                if (!P.op.count(World::K_P2WPKH)) return nullptr;
                cc.Select(P.op.at(World::K_P2WPKH));
                cc.m_allow_other_inputs = false;
            }
        }
        auto res = wallet::CreateTransaction(w.W(), vec, std::nullopt, cc, /*sign=*/true);
        if (!res) return nullptr;
        fee = res->fee;
        change_pos = res->change_pos;
        return res->tx;
    }

    bool Setup()
    {
        SeedRandomStateForTest(SeedRand::ZEROS);
        P = w.PrepareCoins(sp.mask);
        v = w.View();
        for (int i = 0; i < 3; i++) { std::vector<unsigned char> r(32, 0x31 + i); rk[i].Set(r.begin(), r.end(), true); }
        dests = {WitnessV0KeyHash(rk[0].GetPubKey()), PKHash(rk[1].GetPubKey()), WitnessV1Taproot(XOnlyPubKey(rk[2].GetPubKey()))};
        // ---- the original
        if (sp.o.foreign) {
            // the wallet funds a transaction that also spends a stranger's coin; both sign
            CCoinControl cc;
            cc.m_feerate = CFeeRate(sp.o.feerate);
            cc.Select(P.ext_op).SetTxOut(P.ext_out);
            cc.m_external_provider.pubkeys.emplace(P.ext_key.GetPubKey().GetID(), P.ext_key.GetPubKey());
            auto res = wallet::CreateTransaction(w.W(), {{dests[0], 45000000, false}}, std::nullopt, cc, /*sign=*/false);
            if (!res) { out.count("original_not_creatable"); return false; }
            CMutableTransaction m(*res->tx);
            std::map<COutPoint, Coin> coins;
            for (auto& in : m.vin) coins[in.prevout] = Coin(P.prevouts.at(in.prevout), 1, false);
            std::map<int, bilingual_str> errs;
            w.W().SignTransaction(m, coins, SIGHASH_DEFAULT, errs);
            FillableSigningProvider ks;
            ks.AddKey(P.ext_key);
            errs.clear();
            if (!SignTransaction(m, &ks, coins, {.sighash_type = SIGHASH_ALL}, errs)) { out.count("original_not_creatable"); return false; }
            bool wallet_input = false;
            for (auto& in : m.vin) if (in.prevout != P.ext_op) wallet_input = true;
            if (!wallet_input) { out.count("original_not_creatable"); return false; }
            orig = MakeTransactionRef(m);
            orig_fee = res->fee;
            orig_change_pos = res->change_pos;
        } else {
            orig = MakeOriginal(v, orig_fee, orig_change_pos);
        }
        if (!orig) { out.count("original_not_creatable"); return false; }
        // (CWallet::CommitTransaction looks every input up in the wallet: a transaction with a stranger's input reaches
        // the wallet through the mempool notification instead)
        if (!sp.o.foreign) w.wn->Commit(orig);
        w.Note(orig);
        {
            auto r = w.Submit(orig);
            if (r.m_result_type != MempoolAcceptResult::ResultType::VALID) { out.count("original_not_accepted"); return false; } // C41's subject
        }
        out.count("originals");
        oid = orig->GetHash();
        orig_vsize = (GetTransactionWeight(*orig) + 3) / 4;
        // the original's change output by the independent rule: the output paying an internal-descriptor script
        std::optional<unsigned> ref_change;
        for (unsigned i = 0; i < orig->vout.size(); i++) if (IsInternal(orig->vout[i].scriptPubKey)) ref_change = i;
        if (ref_change != orig_change_pos) { out.count("harness_error"); out.sample("HARNESS-ERROR change position disagrees with the internal-script rule"); return false; }
        // refresh prevouts / view (the original's outputs exist now)
        v = w.View();
        for (uint32_t i = 0; i < orig->vout.size(); i++) P.prevouts[COutPoint(oid, i)] = orig->vout[i];
        return true;
    }

    void RunOption()
    {
        const bool unbumpable = sp.bump.rfind("u:", 0) == 0;
        // ---- make it unbumpable if the option says so
        Txid target = oid;
        std::vector<CTxOut> new_outputs;
        std::optional<uint32_t> change_index;
        CCoinControl bcc;
        bool require_mine = true;
        if (sp.bump == "u:confirmed") w.MineTip(MempoolTxs(w.n));
        else if (sp.bump == "u:replaced") {
            if (!BumpOnce(oid, CCoinControl(), {}, std::nullopt, /*check=*/false)) { out.count("unbumpable_setup_failed"); return; }
        } else if (sp.bump == "u:walletchild") {
            if (!orig_change_pos) { out.count("unbumpable_setup_failed"); return; }
            CMutableTransaction m;
            m.version = 2;
            m.vin.emplace_back(COutPoint(oid, *orig_change_pos), CScript(), 0xfffffffd);
            m.vout.emplace_back(orig->vout[*orig_change_pos].nValue - 3000, GetScriptForDestination(dests[2]));
            if (!w.wn->Sign(m)) { out.count("unbumpable_setup_failed"); return; }
            w.wn->Commit(MakeTransactionRef(m)); // known to the wallet only
        } else if (sp.bump == "u:poolchild") {
            // the recipient spends its unconfirmed payment
            unsigned ri = 0;
            while (ri < orig->vout.size() && orig->vout[ri].scriptPubKey != GetScriptForDestination(dests[0])) ri++;
            if (ri == orig->vout.size()) { out.count("unbumpable_setup_failed"); return; }
            CMutableTransaction m;
            m.version = 2;
            m.vin.emplace_back(COutPoint(oid, ri), CScript(), 0xfffffffd);
            m.vout.emplace_back(orig->vout[ri].nValue - 3000, ck::OpTrueSpk());
            FillableSigningProvider ks;
            ks.AddKey(rk[0]);
            std::map<COutPoint, Coin> coins{{COutPoint(oid, ri), Coin(orig->vout[ri], 1, false)}};
            std::map<int, bilingual_str> errs;
            if (!SignTransaction(m, &ks, coins, {.sighash_type = SIGHASH_ALL}, errs)) { out.count("unbumpable_setup_failed"); return; }
            auto r = w.Submit(MakeTransactionRef(m));
            if (r.m_result_type != MempoolAcceptResult::ResultType::VALID) { out.count("unbumpable_setup_failed"); return; }
        } else if (sp.bump == "u:unknown") target = Txid::FromUint256(uint256{0x77});
        else if (sp.bump == "u:both") { new_outputs = {orig->vout[0]}; change_index = 0; }
        else if (sp.bump == "u:range") change_index = (uint32_t)orig->vout.size();

        if (unbumpable) {
            out.count("unbumpable_cases");
            const bool must_say_no = sp.bump != "u:both" && sp.bump != "u:range"; // those two are about the options, not the transaction
            if (must_say_no && fb::TransactionCanBeBumped(w.W(), target)) Viol("can-be-bumped:" + sp.bump, "TransactionCanBeBumped says yes for an unbumpable transaction");
            std::string before = Snapshot(w.W());
            std::vector<bilingual_str> errors;
            CAmount old_fee = 0, new_fee = 0;
            CMutableTransaction mtx;
            fb::Result res = fb::CreateRateBumpTransaction(w.W(), target, bcc, errors, old_fee, new_fee, mtx, require_mine, new_outputs, change_index);
            if (res == fb::Result::OK) Viol("unbumpable-accepted:" + sp.bump, "CreateRateBumpTransaction returned OK for an unbumpable case", EncodeHexTx(CTransaction(mtx)));
            else {
                if (errors.empty()) Viol("refused-without-error:" + sp.bump, "refusal without an error message");
                out.count("refused_" + sp.bump);
            }
            std::string after = Snapshot(w.W());
            if (before != after) Viol("refusal-changed-wallet:" + sp.bump, "the wallet changed although the bump was refused", "before:\n" + before + "after:\n" + after);
            if (res != fb::Result::OK && sp.bump != "u:unknown") {
                // the committing step must refuse as well (it re-checks the preconditions) when handed some transaction
                std::vector<bilingual_str> e2;
                Txid bumped;
                CMutableTransaction junk(*orig);
                if (sp.bump == "u:confirmed" || sp.bump == "u:replaced" || sp.bump == "u:walletchild" || sp.bump == "u:poolchild") {
                    fb::Result r2 = fb::CommitTransaction(w.W(), target, std::move(junk), e2, bumped);
                    if (r2 == fb::Result::OK) Viol("commit-unbumpable:" + sp.bump, "feebumper::CommitTransaction committed a replacement of an unbumpable transaction");
                    if (Snapshot(w.W()) != before) Viol("refused-commit-changed-wallet:" + sp.bump, "the wallet changed although the commit was refused");
                }
            }
            return;
        }

        // ---- bumpable: options
        if (!fb::TransactionCanBeBumped(w.W(), oid)) Viol("cannot-be-bumped", "TransactionCanBeBumped says no for a wallet transaction that is unconfirmed, unreplaced, all-ours and childless");
        CAmount requested = -1;
        if (sp.bump.rfind("rate:+", 0) == 0) requested = CFeeRate(orig_fee, orig_vsize).GetFeePerK() + atoll(sp.bump.c_str() + 6);
        else if (sp.bump == "rate:x10") requested = sp.o.feerate * 10;
        else if (sp.bump == "rate:x20") requested = sp.o.feerate * 20;
        else if (sp.bump == "rate:max") requested = 500000000;
        if (requested >= 0) bcc.m_feerate = CFeeRate(requested);
        if (sp.bump == "outputs") {
            // new recipient set: the first recipient is replaced by another script with a smaller amount; the rest is kept
            new_outputs.assign(orig->vout.begin(), orig->vout.end());
            unsigned ri = 0;
            while (orig_change_pos && ri == *orig_change_pos) ri++;
            new_outputs[ri] = CTxOut(orig->vout[ri].nValue - 20000, GetScriptForDestination(dests[2]));
        } else if (sp.bump.rfind("shrink:", 0) == 0 || sp.bump.rfind("grow:", 0) == 0) {
            // caller-supplied outputs that make the replacement smaller (second recipient dropped) or larger (a recipient
            // added) than the original, with an explicit feerate at the threshold "old fee + incremental relay fee" computed
            // for the NEW size, one below and one above it
            const bool shrink = sp.bump[0] == 's';
            new_outputs.assign(orig->vout.begin(), orig->vout.end());
            if (shrink) {
                const CScript second = GetScriptForDestination(dests[1]);
                auto it = std::find_if(new_outputs.begin(), new_outputs.end(), [&](const CTxOut& o) { return o.scriptPubKey == second; });
                if (it == new_outputs.end()) { out.count("option_not_applicable"); return; }
                new_outputs.erase(it);
            } else {
                new_outputs.emplace_back(100000, GetScriptForDestination(dests[2]));
            }
            CMutableTransaction t(*orig);
            for (auto& in : t.vin) { in.scriptSig.clear(); in.scriptWitness.SetNull(); }
            t.vout = new_outputs;
            int64_t new_size;
            {
                LOCK(w.W().cs_wallet);
                new_size = wallet::CalculateMaximumSignedTxSize(CTransaction(t), &w.W(), nullptr).vsize;
            }
            if (new_size <= 0) throw std::logic_error("cannot size the replacement");
            const CAmount need = orig_fee + w.W().chain().relayIncrementalFee().GetFee(new_size);
            CAmount r = need * 1000 / new_size;
            while (CFeeRate(r).GetFee(new_size) < need) r++;
            while (r > 1 && CFeeRate(r - 1).GetFee(new_size) >= need) r--;
            requested = r + atoll(sp.bump.c_str() + (shrink ? 7 : 5));
            bcc.m_feerate = CFeeRate(requested);
            out.count(shrink ? "shrink_calls" : "grow_calls");
        } else if (sp.bump == "chgidx") {
            if (!orig_change_pos) { out.count("option_not_applicable"); return; }
            change_index = *orig_change_pos;
        } else if (sp.bump == "reduce") {
            unsigned ri = 0;
            while (orig_change_pos && ri == *orig_change_pos) ri++;
            change_index = ri;
        }
        BumpOnce(oid, bcc, new_outputs, change_index, /*check=*/true, requested);
    }

    // returns true if a replacement was created, committed and accepted
    bool BumpOnce(const Txid& oid, const CCoinControl& bcc, const std::vector<CTxOut>& new_outputs, std::optional<uint32_t> change_index, bool check, CAmount requested = -1)
    {
        std::string before = check ? Snapshot(w.W()) : std::string();
        std::vector<bilingual_str> errors;
        CAmount old_fee = 0, new_fee = 0;
        CMutableTransaction mtx;
        fb::Result res = fb::CreateRateBumpTransaction(w.W(), oid, bcc, errors, old_fee, new_fee, mtx, /*require_mine=*/true, new_outputs, change_index);
        if (check) out.count("bump_calls");
        if (res != fb::Result::OK) {
            if (!check) return false;
            out.count("bump_refused");
            if (sp.bump.rfind("shrink:", 0) == 0) out.count("shrink_refused");
            if (sp.bump.rfind("grow:", 0) == 0) out.count("grow_refused");
            std::string e;
            for (auto& x : errors) e += x.original + "; ";
            if (e.find("nternal bug") != std::string::npos) Viol("internal-bug", "CreateRateBumpTransaction reported an internal inconsistency: " + e);
            if (Snapshot(w.W()) != before) Viol("refusal-changed-wallet:bumpable", "the wallet changed although the bump was refused (" + e + ")");
            if (e.find("Insufficient funds") != std::string::npos || e.find("exceeds your balance") != std::string::npos) out.count("bump_refused_insufficient");
            if (sp.bump == "rate:max") out.count("refused_rate_max");
            return false;
        }
        if (!check) {
            if (!fb::SignTransaction(w.W(), mtx)) return false;
            Txid bumped;
            std::vector<bilingual_str> e2;
            if (fb::CommitTransaction(w.W(), oid, std::move(mtx), e2, bumped) != fb::Result::OK) return false;
            auto wtx = w.W().GetWalletTx(bumped);
            auto r = w.Submit(wtx->GetTx());
            return r.m_result_type == MempoolAcceptResult::ResultType::VALID;
        }
        out.count("bump_created");
        if (sp.bump == "rate:max") Viol("max-fee-ignored", "a replacement above the maximum transaction fee was created");
        if (old_fee != orig_fee) Viol("old-fee", strprintf("old fee reported %d, original pays %d", old_fee, orig_fee));
        if (!fb::SignTransaction(w.W(), mtx)) { Viol("sign-failed", "the wallet cannot sign its own replacement"); return false; }
        const CTransaction tx(mtx);
        // (a) inputs: every original input, extra inputs confirmed and spendable by the reference
        std::set<COutPoint> seen, orig_in;
        for (auto& in : orig->vin) orig_in.insert(in.prevout);
        CAmount in_total = 0;
        for (auto& in : tx.vin) {
            if (!seen.insert(in.prevout).second) { Viol("duplicate-input", "replacement spends an outpoint twice"); return false; }
            auto po = P.prevouts.find(in.prevout);
            if (po == P.prevouts.end()) { Viol("unknown-input", "replacement spends an unknown outpoint " + in.prevout.ToString()); return false; }
            in_total += po->second.nValue;
            if (orig_in.count(in.prevout)) continue;
            bool ok = false;
            for (auto& c : v.coins_safe) if (c.op == in.prevout && c.depth >= 1) ok = true;
            if (!ok) { Viol("extra-input-not-allowed", "replacement adds an input that is not a confirmed spendable wallet coin: " + in.prevout.ToString()); return false; }
            out.count("bump_added_input");
        }
        for (auto& op : orig_in) if (!seen.count(op)) { Viol("original-input-dropped", "replacement does not spend the original's input " + op.ToString()); return false; }
        // (b) outputs
        CAmount out_total = 0;
        for (auto& o : tx.vout) out_total += o.nValue;
        const CAmount fee = in_total - out_total;
        if (fee != new_fee) Viol("fee-misreported", strprintf("reported new fee %d, inputs - outputs = %d", new_fee, fee));
        {
            // outputs that must survive unchanged
            std::vector<CTxOut> keep;
            std::optional<CScript> flexible; // the script whose output may change / disappear / appear (the change)
            const std::vector<CTxOut>& base = new_outputs.empty() ? orig->vout : new_outputs;
            for (unsigned i = 0; i < base.size(); i++) {
                bool is_change = change_index ? *change_index == i : IsInternal(base[i].scriptPubKey);
                if (is_change) flexible = base[i].scriptPubKey; else keep.push_back(base[i]);
            }
            std::vector<CTxOut> rest(tx.vout.begin(), tx.vout.end());
            for (auto& k : keep) {
                auto it = std::find(rest.begin(), rest.end(), k);
                if (it == rest.end()) { Viol(std::string("output-changed:") + (new_outputs.empty() ? "original" : "supplied"), strprintf("a non-change output (%d to %s) is missing or altered in the replacement", k.nValue, HexStr(k.scriptPubKey).substr(0, 20)), EncodeHexTx(tx)); return false; }
                rest.erase(it);
            }
            // what remains: at most one output to the designated change script and at most one fresh change to an internal
            // script (the latter only appears next to the former when every original output was designated as change)
            int n_flex = 0, n_int = 0;
            for (auto& ch : rest) {
                if (flexible && ch.scriptPubKey == *flexible) n_flex++;
                else if (IsInternal(ch.scriptPubKey)) n_int++;
                else { Viol("change-script", "the replacement has an output that is neither a kept output, the designated change script nor an internal wallet script", EncodeHexTx(tx)); return false; }
                if (ch.nValue <= 0 || IsDust(ch, w.W().chain().relayDustFee())) Viol("change-dust", "dust change in the replacement");
            }
            if (n_flex > 1 || n_int > 1 || (n_flex + n_int > 1 && !keep.empty())) { Viol("extra-outputs", strprintf("replacement has %u outputs beyond the kept ones", (unsigned)rest.size()), EncodeHexTx(tx)); return false; }
            out.count(rest.empty() ? "bump_without_change" : "bump_with_change");
        }
        // (c) fee rules on the signed replacement
        const int64_t vsize = (GetTransactionWeight(tx) + 3) / 4;
        const CFeeRate incr = w.W().chain().relayIncrementalFee();
        if (fee < orig_fee + incr.GetFee(vsize)) Viol("fee-below-rule4", strprintf("new fee %d < old fee %d + incremental relay fee %d for %d vB", fee, orig_fee, incr.GetFee(vsize), vsize));
        if (requested >= 0 && fee < CFeeRate(requested).GetFee(vsize)) Viol("fee-below-requested", strprintf("new fee %d < requested %d sat/kvB x %d vB", fee, requested, vsize));
        if (fee > w.W().m_default_max_tx_fee) Viol("fee-above-max", strprintf("new fee %d above the maximum transaction fee", fee));
        // (d) commit + mempool
        Txid bumped;
        std::vector<bilingual_str> e2;
        CMutableTransaction to_commit(tx);
        if (fb::CommitTransaction(w.W(), oid, std::move(to_commit), e2, bumped) != fb::Result::OK) { Viol("commit-failed", "feebumper::CommitTransaction refused the replacement it just created"); return false; }
        if (bumped != tx.GetHash()) Viol("bumped-txid", "CommitTransaction reports another txid than the replacement's");
        MempoolAcceptResult ar = w.Submit(MakeTransactionRef(tx));
        if (ar.m_result_type != MempoolAcceptResult::ResultType::VALID) {
            // One rejection class gets its own stable key: the replacement obeys the absolute-fee rules the wallet checks
            // (old fee + incremental relay fee for the new size) but, being larger than the original, has a LOWER feerate
            // than the original, which the mempool's feerate-diagram rule refuses. The wallet has already committed it
            // and marked the original as replaced.
            const bool lower_feerate = (__int128)fee * orig_vsize <= (__int128)orig_fee * vsize;
            if (lower_feerate && fee >= orig_fee + incr.GetFee(vsize) && ar.m_state.ToString().find("feerate diagram") != std::string::npos) {
                out.count("replacement_feerate_not_improved");
                Viol("replacement-feerate-not-improved", strprintf("the wallet created and committed a replacement that pays the old fee + incremental fee (%d >= %d + %d) but has a lower feerate than the original (%d sat / %d vB vs %d sat / %d vB); the mempool rejects it (%s) while the wallet has marked the original as replaced", fee, orig_fee, incr.GetFee(vsize), fee, vsize, orig_fee, orig_vsize, ar.m_state.ToString()), EncodeHexTx(tx));
            } else {
                Viol("mempool-rejects:" + ar.m_state.GetRejectReason(), "the mempool rejects the replacement: " + ar.m_state.ToString(), EncodeHexTx(tx));
            }
            return false;
        }
        std::set<Txid> replaced;
        for (auto& r : ar.m_replaced_transactions) replaced.insert(r->GetHash());
        if (replaced != std::set<Txid>{oid}) Viol("replaced-set", strprintf("the mempool reports %u replaced transactions, expected exactly the original", (unsigned)replaced.size()));
        if (w.n.pool().exists(oid)) Viol("original-still-in-mempool", "the original is still in the mempool");
        out.count("bump_accepted");
        if (sp.bump.rfind("shrink:", 0) == 0) out.count("shrink_accepted");
        if (sp.bump.rfind("grow:", 0) == 0) out.count("grow_accepted");
        // wallet bookkeeping: the pair is linked, the original cannot be bumped again, the replacement can
        {
            LOCK(w.W().cs_wallet);
            const wallet::CWalletTx* o = w.W().GetWalletTx(oid);
            const wallet::CWalletTx* n = w.W().GetWalletTx(bumped);
            if (!o || !n || o->m_replaced_by_txid != bumped || n->m_replaces_txid != oid) Viol("replacement-link", "original and replacement are not linked in the wallet");
            if (n && !n->InMempool()) Viol("replacement-state", "the wallet does not see the replacement in the mempool");
            if (o && o->InMempool()) Viol("original-state", "the wallet still sees the original in the mempool");
        }
        if (fb::TransactionCanBeBumped(w.W(), oid)) Viol("rebump-original", "the replaced original can be bumped again");
        if (!fb::TransactionCanBeBumped(w.W(), bumped)) Viol("rebump-replacement", "the replacement cannot be bumped");
        out.distinct("bumped", sp.Str());
        return true;
    }
};

} // namespace

int main(int argc, char** argv)
{
    vx::init(argc, argv, "C56", "exploration", 120, 1350);
    vx::scratch_dir();
    auto& E = vx::ev();
    const bool big = vx::thorough();
    ck::NodeOpts nopts;
    nopts.min_validation_cache = true;
    nopts.mempool_check_ratio = 0;
    ck::Node node(wn::DeferredOpts(nopts));
    World world(node);
    world.Init();
    world.MineEmpty(110);
    if (ck::ThreadCount() != 1) { printf("HARNESS-ERROR process is not single-threaded\n"); return 2; }

    // coin sets: four confirmed types | + unconfirmed own change (ancestor unconfirmed) | single coin | everything
    std::vector<unsigned> masks = big ? std::vector<unsigned>{0x0f, 0x4f, 0x01, 0xff, 0x03, 0x41, 0x2f} : std::vector<unsigned>{0x0f, 0x4f, 0x01, 0x41};
    std::vector<Orig> origs;
    for (int nrec : {1, 2})
        for (int shape : {0, 1, 2, 3})
            for (bool rbf : {true, false})
                for (CAmount fr : big ? std::vector<CAmount>{1000, 10000, 2500} : std::vector<CAmount>{1000, 10000}) {
                    if (!big && !rbf && !(shape == 0 && nrec == 1 && fr == 1000)) continue;
                    if (!big && nrec == 2 && (shape >= 2 || fr != 1000)) continue;
                    if (!big && fr != 1000 && shape != 0) continue;
                    if (shape == 3 && fr > 2500) continue; // 2000 sat do not pay for 10 sat/vB
                    if (shape != 3 && fr == 2500) continue;
                    origs.push_back({nrec, shape, rbf, fr});
                }
    std::vector<std::string> bumps{"auto", "rate:+99", "rate:+100", "rate:x10", "rate:x20", "rate:max", "outputs", "shrink:-1", "shrink:+0", "shrink:+1", "grow:-1", "grow:+0", "grow:+1", "grow:+3000", "chgidx", "reduce",
                                   "u:confirmed", "u:replaced", "u:walletchild", "u:poolchild", "u:foreign", "u:unknown", "u:both", "u:range"};
    if (big) { bumps.push_back("rate:+0"); bumps.push_back("rate:+1000"); bumps.push_back("rate:+5000"); }
    std::vector<Spec> specs;
    for (unsigned m : masks) {
        for (auto& o : origs) {
            // quick: the coin set {P2WPKH, unconfirmed own change} only with the original that forces the bump to look for more inputs
            if (!big && m == 0x41 && o.shape != 3) continue;
            Spec sp{m, o, "", {}};
            for (auto& b : bumps) {
                // the option-only refusals do not depend on the original's shape: once per coin set and feerate
                if ((b == "u:unknown" || b == "u:both" || b == "u:range") && !(o.nrec == 1 && o.shape == 0 && o.rbf)) continue;
                if (b == "u:foreign") continue;
                sp.bumps.push_back(b);
            }
            specs.push_back(sp);
        }
        if (!big && m == 0x41) continue;
        for (CAmount fr : {(CAmount)1000, (CAmount)10000}) { Orig fo{1, 0, true, fr}; fo.foreign = true; specs.push_back({m, fo, "", {"u:foreign"}}); }
    }
    if (!vx::ctx().replay.empty()) {
        std::ifstream f(vx::ctx().replay);
        std::string line, want;
        while (std::getline(f, line)) if (line.rfind("coin mask ", 0) == 0) want = line;
        std::vector<Spec> one;
        for (auto& s : specs) for (auto& b : s.bumps) { Spec t = s; t.bump = b; if (t.Str() == want) { t.bumps = {b}; t.bump = ""; one.push_back(t); } }
        printf("replay: %s (%u matching case)\n", want.c_str(), (unsigned)one.size());
        specs = one;
        if (specs.empty()) return 2;
    }

    const std::map<CScript, OutputType> internal = InternalScripts(world.W(), 200);
    fp::Pool pool;
    pool.isolate_jobs = true;
    pool.on_worker_start = [&](unsigned wk) { node.RepointBlocksDir(node.BlocksDir().parent_path() / ("w" + std::to_string(wk))); };
    pool.run(specs.size(), [&](uint64_t j, fp::Out& out) {
        Job job(world, out, specs[j], internal);
        try { job.Run(); }
        catch (const std::exception& e) { out.count("harness_error"); out.sample("HARNESS-ERROR " + specs[j].Str() + ": " + e.what()); }
    }, [&](uint64_t j) { return specs[j].Str() + "(setup of the original)"; });

    auto cnt = [&](const std::string& k) { return pool.counts.count(k) ? pool.counts[k] : 0; };
    E.evaluations = cnt("cases");
    E.distinct_nontrivial = pool.distinct_size("bumped") + cnt("unbumpable_cases");
    E.exhaustive = pool.complete;
    E.rule = "one evaluation = one (coin set, original, bump option) case run in a private fork of the prepared node + wallet: the original is created by CreateTransaction, committed and accepted by the mempool, then bumped (CreateRateBumpTransaction, SignTransaction, CommitTransaction, mempool submission) or made unbumpable and bumped; distinct_nontrivial = distinct cases where a replacement was accepted by the mempool + unbumpable cases checked for refusal without wallet change";
    E.assume("regtest node in-process, wallet notifications queued and drained after every node call; RNG seeded with zeros per case");
    E.assume("this tree does not require BIP125 signalling for replacement (full RBF); originals are made with signalling on and off");
    E.set("coin_sets", (uint64_t)masks.size());
    E.set("originals_per_coin_set", (uint64_t)origs.size());
    for (const char* k : {"originals", "original_not_creatable", "original_not_accepted", "option_not_applicable", "unbumpable_setup_failed", "bump_calls", "bump_created", "bump_refused", "bump_accepted", "bump_with_change", "bump_without_change", "bump_added_input", "shrink_calls", "shrink_accepted", "shrink_refused", "grow_calls", "grow_accepted", "grow_refused", "replacement_feerate_not_improved", "refused_rate_max", "unbumpable_cases",
                          "refused_u:confirmed", "refused_u:replaced", "refused_u:walletchild", "refused_u:poolchild", "refused_u:foreign", "refused_u:unknown", "refused_u:both", "refused_u:range"})
        E.set(k, cnt(k));
    for (auto& s : pool.samples) E.sample(s);
    E.sample("bump options: auto | rate:+d (original feerate + d sat/kvB) | rate:x10 | rate:x20 | rate:max | outputs (first recipient replaced) | shrink:d / grow:d (supplied outputs drop the second recipient / add a recipient, explicit feerate = threshold for the new size + d sat/kvB, d in -1,0,+1, and +3000 for grow) | chgidx (original_change_index = change) | reduce (original_change_index = a recipient) | u:* unbumpable cases");
    if (cnt("harness_error")) {
        vx::write_evidence();
        printf("HARNESS-ERROR %llu cases failed inside the harness\n", (unsigned long long)cnt("harness_error"));
        for (auto& s : pool.samples) if (s.find("HARNESS-ERROR") != std::string::npos) printf("  %s\n", s.c_str());
        return 2;
    }
    if (pool.complete && vx::ctx().replay.empty() && vx::rep().violations == 0) {
        for (const char* k : {"bump_accepted", "bump_refused", "bump_with_change", "bump_without_change", "bump_added_input", "shrink_accepted", "shrink_refused", "grow_accepted", "grow_refused", "refused_rate_max", "refused_u:confirmed", "refused_u:replaced", "refused_u:walletchild", "refused_u:poolchild", "refused_u:foreign", "refused_u:unknown", "refused_u:both", "refused_u:range"})
            if (!cnt(k)) { vx::write_evidence(); printf("HARNESS-ERROR outcome class '%s' never occurred: vacuous run\n", k); return 2; }
    }
    return vx::finish();
}
