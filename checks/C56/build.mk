LINK := full
KITS := chainkit walletnode
