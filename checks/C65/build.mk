LINK := full
KITS := chainkit
SCHED := 1
TSAN_SRCS := node/miner.cpp node/kernel_notifications.cpp
