// C65 — Waiting for a new block template returns only what it promises.
// VX-SCHED on the real node::WaitAndCreateNewBlock with a real regtest node (ChainstateManager, mempool,
// KernelNotifications): waiter thread x {tip thread connecting 1-2 blocks, mempool thread adding a fee-paying tx,
// interrupter}, mock time advanced exactly when the scheduler lets a timed wait time out (1 tick, or 25 min for
// the test-network 20-minute rule). All schedules with <= k deviations; preemption points restricted to cs_main,
// mempool.cs, m_tip_block_mutex (+ condition variables, thread create/join, atomics of node/miner.cpp and
// node/kernel_notifications.cpp). Every execution runs in its own fork of the prepared node.
#include <vx/sched.h>
#include <kits/chainkit.h>
#include <node/miner.h>
#include <node/kernel_notifications.h>
#include <node/types.h>
#include <logging.h>
#include <numeric>
#include <consensus/merkle.h>
#include <thread>

using namespace ck;
using node::BlockAssembler;
using node::BlockCreateOptions;
using node::BlockWaitOptions;
using node::CBlockTemplate;

static int64_t g_mock;          // current mock time (seconds)
static int64_t g_tick_advance;  // seconds added when a timeout fires
static int g_timeouts_fired;
static void OnTimeout()
{
    g_mock += g_tick_advance;
    g_timeouts_fired++;
    SetMockTime(g_mock);
}

struct Config {
    int scenario;        // 0 tip change, 1 fee rise, 2 interrupt, 3 twenty-minute rule, 4 tip change + interrupt
    int blocks;          // tip thread connects this many blocks
    int timeout_ticks;   // waiter timeout in ticks (seconds)
    CAmount threshold;   // fee threshold
    CAmount tx_fee;      // fee of the tx the mempool thread adds
    bool pre;            // the other thread's action completes before the waiter starts
    bool rich{false};    // the template being waited on already carries > 2^31 sat of fees (two 32-bit halves differ)
    std::string str() const
    {
        static const char* names[] = {"tip-change", "fee-rise", "interrupt", "twenty-minute-rule", "tip-change+interrupt"};
        return std::string(names[scenario]) + " blocks=" + std::to_string(blocks) + " timeout_ticks=" + std::to_string(timeout_ticks) + " threshold=" + (threshold == MAX_MONEY ? std::string("MAX") : std::to_string(threshold)) + " tx_fee=" + std::to_string(tx_fee) + " action_before_wait=" + std::to_string(pre) + (rich ? " previous_template_fees=25BTC" : "");
    }
};

struct World {
    Node* node;
    RefLedger L;
    std::unique_ptr<CBlockTemplate> tmpl; // template on the base tip
    CBlock b1, b2;
    CTransactionRef tx;
    uint256 base_tip;
};
static World W;
static uint64_t g_outcome;

static std::string Body(const Config& c)
{
    Node& n = *W.node;
    std::string err;
    bool interrupt_wait = false;
    std::unique_ptr<CBlockTemplate> result;
    bool waiter_done = false, action_done = false;
    int64_t mock_at_start = g_mock;
    g_timeouts_fired = 0;
    g_tick_advance = c.scenario == 3 ? 25 * 60 : 1;
    auto& kn = *n.m_node.notifications;
    auto action = [&] {
        if (c.scenario == 0 || c.scenario == 4) {
            n.ProcessBlock(W.b1);
            if (c.blocks == 2) n.ProcessBlock(W.b2);
        }
        if (c.scenario == 1) n.SubmitTx(W.tx);
        if (c.scenario == 2 || c.scenario == 4) node::InterruptWait(kn, interrupt_wait);
        action_done = true;
    };
    bool action_done_before_return = false;
    auto waiter = [&] {
        BlockWaitOptions wo;
        wo.timeout = MillisecondsDouble{1000.0 * c.timeout_ticks};
        wo.fee_threshold = c.threshold;
        BlockCreateOptions co;
        result = node::WaitAndCreateNewBlock(n.chainman(), kn, &n.pool(), W.tmpl, wo, co, interrupt_wait);
        action_done_before_return = action_done;
        waiter_done = true;
    };
    if (c.pre) {
        action();
        std::thread tw(waiter);
        tw.join();
    } else {
        std::thread ta(action);
        std::thread tw(waiter);
        ta.join();
        tw.join();
    }
    // ---------------- oracle
    uint256 tip_now = n.tip()->GetBlockHash();
    bool deadline_reached = g_mock >= mock_at_start + c.timeout_ticks || c.timeout_ticks == 0;
    bool interrupt_requested = c.scenario == 2 || c.scenario == 4;
    if (result) {
        uint256 prev = result->block.hashPrevBlock;
        CAmount fees = std::accumulate(result->vTxFees.begin(), result->vTxFees.end(), CAmount{0});
        if (prev != W.base_tip) {
            // fresh template on a changed tip: must be a block the tip thread connected, and not older than the tip
            // that was active when the call returned unless a newer one arrived only afterwards
            bool known = prev == W.b1.GetHash() || (c.blocks == 2 && prev == W.b2.GetHash());
            if (!known) err += "returned template is built on a block that never was the tip; ";
            if (c.pre && prev != tip_now) err += "tip had changed to " + tip_now.ToString().substr(0, 10) + " before the wait began, but the template is built on an older tip; ";
            if (!(c.scenario == 0 || c.scenario == 4)) err += "template on a new parent although no block was connected; ";
        } else {
            // same-tip template: only if fees rose by the threshold, or the 20-minute rule applies
            CAmount old_fees = std::accumulate(W.tmpl->vTxFees.begin(), W.tmpl->vTxFees.end(), CAmount{0});
            bool twenty = g_mock > (int64_t)n.tip()->GetBlockTime() + 20 * 60;
            if (tip_now != W.base_tip && action_done_before_return && c.pre) err += "same-tip template returned although the tip had changed before the wait began; ";
            if (!twenty && !(c.threshold < MAX_MONEY && fees >= old_fees + c.threshold)) err += "same-tip template returned with fees " + std::to_string(fees) + " < previous " + std::to_string(old_fees) + " + threshold, and the tip is not 20 minutes old; ";
        }
    } else {
        if (!deadline_reached && !interrupt_requested) err += "returned nothing although neither the timeout passed (mock clock advanced " + std::to_string(g_mock - mock_at_start) + "s of " + std::to_string(c.timeout_ticks) + "s) nor an interrupt was requested; ";
        if (c.pre && (c.scenario == 0) && c.timeout_ticks > 0) err += "returned nothing although the tip had changed before the wait began; ";
        if (c.pre && c.scenario == 1 && c.tx_fee >= c.threshold && c.timeout_ticks >= 2) err += "returned nothing although the mempool fees had risen by the threshold before the wait began; ";
    }
    if (c.pre && c.scenario == 2) {
        if (result) err += "a template was returned although the wait had been interrupted before it began; ";
        if (interrupt_wait) err += "interrupt flag not consumed by the interrupted wait; ";
    }
    if (c.scenario == 1 && c.threshold > c.tx_fee && result && result->block.hashPrevBlock == W.base_tip) {
        // covered by the fee clause above; kept for the outcome hash
    }
    g_outcome = 1 + (result ? (result->block.hashPrevBlock == W.base_tip ? 1 : (result->block.hashPrevBlock == W.b1.GetHash() ? 2 : 3)) : 0) + 10 * std::min(g_timeouts_fired, 5) + 100 * (int)interrupt_wait;
    return err;
}

int main(int argc, char** argv)
{
    vx::init(argc, argv, "C65", "model_checking", 170, 1500);
    vx::scratch_dir();
    auto& E = vx::ev();
    bool big = vx::thorough();
    // ---- prepare the world (single-threaded)
    NodeOpts no;
    no.mempool_tweak = [](CTxMemPool::Options& o) { o.check_ratio = 0; };
    no.check_block_index = false;
    Node node(no);
    W.node = &node;
    W.L.AddGenesis(Params().GenesisBlock());
    g_mock = Params().GenesisBlock().nTime + 600 * 100000;
    SetMockTime(g_mock);
    MineEmpty(node, W.L, 110);
    // the tip must be fresh w.r.t. the mock clock unless the 20-minute scenario wants it old: block times are
    // parent + 600, so the base tip is ~ (100000-110)*600 s in the past -> set the clock to tip time + 60 s.
    g_mock = node.tip()->GetBlockTime() + 60;
    SetMockTime(g_mock);
    W.base_tip = node.tip()->GetBlockHash();
    {
        BlockCreateOptions co;
        W.tmpl = BlockAssembler{node.cs(), &node.pool(), co}.CreateNewBlock();
    }
    {
        BlockOpts o; o.time = g_mock;
        W.b1 = MakeBlock(node, node.tip(), {}, o);
        W.L.Add(W.b1);
        // b2 on b1: needs b1's index; build it in a throw-away fork-free way: construct header manually
        CBlock b2 = W.b1;
        CMutableTransaction cb(*b2.vtx[0]);
        cb.vin[0].scriptSig = CScript() << 112 << CScriptNum(0) << OP_0;
        b2.vtx[0] = MakeTransactionRef(cb);
        b2.hashPrevBlock = W.b1.GetHash();
        b2.nTime = W.b1.nTime + 1;
        b2.hashMerkleRoot = BlockMerkleRoot(b2);
        b2.nNonce = 0;
        Grind(b2, Params().GetConsensus());
        W.b2 = b2;
    }
    auto u = W.L.UtxoAt(W.base_tip);
    COutPoint coin;
    CAmount coin_value = 0;
    COutPoint coin2;
    CAmount coin2_value = 0;
    for (auto& [op, c] : *u) if (c.coinbase && 111 - c.height >= 100) {
        if (coin.IsNull()) { coin = op; coin_value = c.value; }
        else { coin2 = op; coin2_value = c.value; break; }
    }
    if (coin.IsNull() || coin2.IsNull()) { printf("HARNESS-ERROR property=C65 no two mature coins\n"); return 2; }
    vxs_scope_add(&cs_main);
    vxs_scope_add(&node.pool().cs);
    vxs_scope_add(&node.m_node.notifications->m_tip_block_mutex);
    vxs_set_timeout_hook(OnTimeout);

    std::vector<Config> cfgs;
    const CAmount FEE = 5000;
    // cheap sequential configurations (action completes before the wait) first, so a deadline-cut run still covers them
    for (bool pre : {true, false}) {
        cfgs.push_back({0, 1, 2, MAX_MONEY, 0, pre});
        cfgs.push_back({0, 2, 2, MAX_MONEY, 0, pre});
        cfgs.push_back({1, 0, 2, FEE, FEE, pre});         // fees rise exactly by the threshold
        cfgs.push_back({1, 0, 2, FEE + 1, FEE, pre});     // one satoshi short
        cfgs.push_back({2, 0, 2, MAX_MONEY, 0, pre});
        if (big) {
            cfgs.push_back({0, 1, 0, MAX_MONEY, 0, pre});
            cfgs.push_back({1, 0, 3, 1, FEE, pre});
            cfgs.push_back({4, 1, 2, MAX_MONEY, 0, pre});
        }
    }
    cfgs.insert(cfgs.begin(), {3, 0, 3, MAX_MONEY, 0, true});        // twenty-minute rule
    cfgs.push_back({2, 0, 1, MAX_MONEY, 0, false});
    // the template being waited on already pays 25 BTC of fees (> 2^31 sat): "fees rose by the threshold" must be
    // judged on the full 64-bit totals. Kept last: preparing it adds a transaction to the parent's mempool.
    for (bool pre : {true, false}) {
        cfgs.push_back({1, 0, 2, FEE, FEE - 1, pre, true});   // one satoshi short of the threshold: must time out
        cfgs.push_back({1, 0, 2, FEE, FEE, pre, true});       // exactly the threshold: must return
    }
    bool rich_prepared = false;
    uint64_t total_exec = 0, total_points = 0, configs = 0;
    int distinct = 0;
    bool complete = true, herr = false;
    for (auto& c : cfgs) {
        if (vx::deadline_reached()) { complete = false; break; }
        if (c.rich && !rich_prepared) {
            auto big = SpendTx({coin2}, {coin2_value / 2});   // 25 BTC fee
            auto res = node.SubmitTx(big);
            if (res.m_result_type != MempoolAcceptResult::ResultType::VALID) { printf("HARNESS-ERROR property=C65 could not prepare the high-fee template: %s\n", res.m_state.ToString().c_str()); return 2; }
            BlockCreateOptions co;
            W.tmpl = BlockAssembler{node.cs(), &node.pool(), co}.CreateNewBlock();
            CAmount f = std::accumulate(W.tmpl->vTxFees.begin(), W.tmpl->vTxFees.end(), CAmount{0});
            if (f <= (CAmount{1} << 31)) { printf("HARNESS-ERROR property=C65 high-fee template has only %lld sat of fees\n", (long long)f); return 2; }
            rich_prepared = true;
        }
        W.tx = SpendTx({coin}, {coin_value - c.tx_fee});
        vxs::Options o;
        o.max_preempt = big ? 2 : 1;
        o.free_switch = false;
        o.fork_each = true;
        o.exec_timeout_s = 60;
        auto r = vxs::explore("C65-waitnext[" + c.str() + "]", [&] { return Body(c); }, o, [] { return g_outcome; });
        total_exec += r.executions; total_points += r.choice_points; configs++;
        distinct += r.distinct_outcomes;
        complete &= r.complete; herr |= r.harness_error;
        E.sample("waitNext " + c.str() + ": " + std::to_string(r.executions) + " schedules with <= " + std::to_string(o.max_preempt) + " deviations, " + std::to_string(r.distinct_outcomes) + " distinct outcomes", 24);
        if (r.violations) break;
    }
    E.states += total_points;
    E.transitions += total_points;
    E.traces_validated += total_exec;
    E.set("schedules", total_exec);
    E.set("configurations", configs);
    E.set("distinct_outcomes", (uint64_t)distinct);
    E.exhaustive = complete;
    E.rule = "every schedule of {waiter calling the real WaitAndCreateNewBlock, actor thread (ProcessNewBlock x1-2 | ProcessTransaction | InterruptWait)} with at most the stated number of deviations from the default scheduler; mock clock advances one tick (25 min in the 20-minute scenario) whenever the scheduler lets the timed wait time out; preemption points: cs_main, mempool.cs, m_tip_block_mutex, condition variables, thread create/join, atomics of node/miner.cpp and node/kernel_notifications.cpp; states = scheduling points reached";
    E.assume("sequentially consistent interleavings; other mutexes of the node are modelled for blocking but offer no preemption");
    if (herr) return 2;
    return vx::finish();
}
