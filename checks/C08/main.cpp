// C08 — The active chain is always a most-work chain free of invalid blocks.
// (b) VX-SCHED (runs first: it is cheap and must always complete): every schedule with <= k deviations of
//     thread I: InvalidateBlock(X)  (X an ancestor of the tip: >= 2 disconnects, cs_main released in between)
//     thread D: ProcessNewBlock(S)  (S: full valid block whose header the node has never seen)
//     on a prepared real regtest node (one fork per execution), then one more ActivateBestChain from the main
//     thread. S is a sibling of X / a child of an already delivered sibling of X / a sibling of the tip (a
//     descendant of X). Oracle from the harness's own block tree: the tip is a most-work block among the blocks
//     whose whole ancestry was delivered and that neither are nor descend from X.
// (a) chainsim over block trees: valid and invalid-at-connect blocks on tip / tip-1 / tip-2 / side-branch head /
//     child of an invalid block; header-only and full deliveries (all orders via state dedup), duplicate delivery,
//     InvalidateBlock, ReconsiderBlock (of the invalidated block, of a side-branch head and of a genuinely invalid
//     descendant), PreciousBlock. CheckBlockIndex() runs inside the node on every step.
#include <vx/sched.h>
#include <kits/chainsim_main.h>
#include <thread>

namespace b {
using namespace ck;

struct Blk { uint256 prev; int height; };
struct Shared {            // written by the execution (a grandchild process), read by the search driver
    uint64_t outcome;
    uint64_t execs;
    uint64_t s_mid_loop;   // S's data was stored between the first and the last disconnect of InvalidateBlock
    uint64_t s_rejected;   // ProcessNewBlock(S) returned false (S descends from the already invalidated X)
    uint64_t s_accepted;
    uint64_t tip_is_s;
};
static Shared* g_sh;

struct World {
    Node* node{nullptr};
    std::map<uint256, Blk> tree;        // the harness's own knowledge: every block built, with parent and height
    std::set<uint256> delivered;        // full blocks handed to the node before the exploration
    std::vector<uint256> chain;         // base chain by height
};
static World W;

struct Config {
    std::string kind;   // sibling-of-X | child-of-delivered-sibling-of-X | sibling-of-tip
    int depth;          // blocks InvalidateBlock has to disconnect
    uint256 X;
    CBlock S;
    bool with_side;     // side blocks (siblings of X candidates) already delivered
    bool unique_best;   // S is the only most-work eligible block after the invalidation
    std::string str() const { return kind + " disconnects=" + std::to_string(depth) + (with_side ? " side-branches-delivered" : ""); }
};

// probe: BlockDisconnected is delivered synchronously by the invalidating thread, under cs_main, inside the
// disconnect loop. Used ONLY for the non-vacuity gate (was S stored while the loop was running?), not by the oracle.
struct Probe : public CValidationInterface {
    uint256 s_hash;
    int disconnects{0};
    bool stored_at_first{false}, stored_at_last{false};
    void BlockDisconnected(const std::shared_ptr<const CBlock>&, const CBlockIndex*) override
    {
        auto& bi = W.node->chainman().m_blockman.m_block_index; // cs_main is held by the caller
        auto it = bi.find(s_hash);
        bool stored = it != bi.end() && (it->second.nStatus & BLOCK_HAVE_DATA);
        if (disconnects == 0) stored_at_first = stored;
        stored_at_last = stored;
        disconnects++;
    }
};
static Probe g_probe;

static bool DescendsFromOrIs(const uint256& h, const uint256& x)
{
    uint256 c = h;
    while (true) {
        if (c == x) return true;
        auto it = W.tree.find(c);
        if (it == W.tree.end() || it->second.height == 0) return false;
        c = it->second.prev;
    }
}
static std::string Short(const uint256& h)
{
    auto it = W.tree.find(h);
    return h.ToString().substr(0, 10) + (it == W.tree.end() ? "(unknown)" : "(h" + std::to_string(it->second.height) + ")");
}

static std::string Body(const Config& c)
{
    Node& n = *W.node;
    std::string err;
    const uint256 s_hash = c.S.GetHash();
    g_probe.s_hash = s_hash;
    g_probe.disconnects = 0;
    g_probe.stored_at_first = g_probe.stored_at_last = false;
    bool inv_ret = false;
    BlockResult dr;
    uint256 tip_after_i, tip_after_d;
    {
        std::thread ti([&] { inv_ret = n.Invalidate(c.X); tip_after_i = n.tip()->GetBlockHash(); });
        std::thread td([&] { dr = n.ProcessBlock(c.S); tip_after_d = n.tip()->GetBlockHash(); });
        ti.join();
        td.join();
    }
    {
        BlockValidationState st;
        n.cs().ActivateBestChain(st, nullptr);
    }
    // ---------------- oracle (harness tree only; regtest: every block has the same work, so work == height)
    std::set<uint256> delivered = W.delivered;
    delivered.insert(s_hash); // handed over with all data (if it descends from X it is excluded below anyway)
    int best_h = -1;
    uint256 best;
    std::set<uint256> eligible;
    for (auto& [h, blk] : W.tree) {
        bool ok = true;
        uint256 cur = h;
        while (ok) {
            if (cur == c.X || !delivered.count(cur)) ok = false;
            auto& bb = W.tree.at(cur);
            if (bb.height == 0) break;
            cur = bb.prev;
        }
        if (!ok) continue;
        eligible.insert(h);
        if (blk.height > best_h) { best_h = blk.height; best = h; }
    }
    std::vector<uint256> active;
    {
        LOCK(cs_main);
        auto& ch = n.chainman().ActiveChain();
        for (int i = 0; i <= ch.Height(); i++) active.push_back(ch[i]->GetBlockHash());
    }
    const uint256 tip = active.back();
    std::string ctx = "Invalidate(X=" + Short(c.X) + ") || ProcessNewBlock(S=" + Short(s_hash) + ", " + c.kind + "), then ActivateBestChain: ";
    for (auto& h : active)
        if (DescendsFromOrIs(h, c.X)) { err += ctx + "active chain contains " + Short(h) + " which is or descends from the invalidated block; "; break; }
    if (!W.tree.count(tip)) err += ctx + "active tip " + Short(tip) + " is not a block the harness built; ";
    else if (!eligible.count(tip)) err += ctx + "active tip " + Short(tip) + " is not eligible (descends from X or lacks delivered ancestry); ";
    else if (W.tree.at(tip).height < best_h) err += ctx + "active tip is " + Short(tip) + " but " + Short(best) + " has all data on its whole ancestry, no invalidated ancestor and more work; ";
    if (!inv_ret) err += ctx + "InvalidateBlock returned false; ";
    // ---------------- outcome + gate counters
    uint64_t o = vx::fnv1a(tip.ToString() + "|" + tip_after_i.ToString() + "|" + tip_after_d.ToString() + "|" + std::to_string(dr.pnb_ret) + std::to_string(dr.new_block));
    g_sh->outcome = o;
    __atomic_add_fetch(&g_sh->execs, 1, __ATOMIC_RELAXED);
    if (g_probe.disconnects >= 2 && !g_probe.stored_at_first && g_probe.stored_at_last) __atomic_add_fetch(&g_sh->s_mid_loop, 1, __ATOMIC_RELAXED);
    __atomic_add_fetch(dr.pnb_ret ? &g_sh->s_accepted : &g_sh->s_rejected, 1, __ATOMIC_RELAXED);
    if (tip == s_hash) __atomic_add_fetch(&g_sh->tip_is_s, 1, __ATOMIC_RELAXED);
    return err;
}

static void AddTree(const CBlock& b)
{
    auto& p = W.tree.at(b.hashPrevBlock);
    W.tree[b.GetHash()] = Blk{b.hashPrevBlock, p.height + 1};
}

struct Totals {
    uint64_t exec = 0, points = 0, configs = 0;
    int distinct = 0;
    bool complete = true, herr = false, violated = false;
};

// Builds the prepared node, runs every configuration. The node is destroyed on return (part (a) builds its own).
static Totals Run(bool big)
{
    Totals T;
    auto& E = vx::ev();
    g_sh = (Shared*)mmap(nullptr, sizeof(Shared), PROT_READ | PROT_WRITE, MAP_SHARED | MAP_ANONYMOUS, -1, 0);
    if (g_sh == MAP_FAILED) throw std::runtime_error("mmap");
    NodeOpts no;
    no.mempool_tweak = [](CTxMemPool::Options& o) { o.check_ratio = 0; };
    no.check_block_index = false; // the node's own CheckBlockIndex is not the oracle here (see meta.json)
    Node node(no);
    W.node = &node;
    RefLedger L;
    L.AddGenesis(Params().GenesisBlock());
    const int N = 8;
    W.chain.push_back(Params().GenesisBlock().GetHash());
    W.tree[W.chain[0]] = Blk{uint256{}, 0};
    W.delivered.insert(W.chain[0]);
    for (auto& h : MineEmpty(node, L, N)) {
        W.tree[h] = Blk{W.chain.back(), (int)W.chain.size()};
        W.chain.push_back(h);
        W.delivered.insert(h);
    }
    node.m_node.validation_signals->RegisterValidationInterface(&g_probe);
    vxs_scope_clear();
    vxs_scope_add(&cs_main);
    vxs_scope_add(&node.cs().m_chainstate_mutex);

    auto idx = [&](const uint256& h) { return node.index_of(h); };
    auto mk = [&](const uint256& parent, int nonce) {
        BlockOpts o;
        o.extra_nonce = nonce;
        CBlock b = MakeBlock(node, idx(parent), {}, o);
        AddTree(b);
        return b;
    };
    // X at depth d = chain[N-d+1]; its parent P = chain[N-d]
    auto X = [&](int d) { return W.chain[N - d + 1]; };
    auto P = [&](int d) { return W.chain[N - d]; };
    std::vector<Config> phase1, phase2;
    // phase 1: nothing but the base chain is known to the node
    phase1.push_back({"sibling-of-X", 2, X(2), mk(P(2), 101), false, true});
    phase1.push_back({"sibling-of-tip", 2, X(2), mk(W.chain[N - 1], 102), false, false});
    if (big) {
        phase1.push_back({"sibling-of-X", 3, X(3), mk(P(3), 103), false, true});
        phase1.push_back({"sibling-of-tip", 3, X(3), mk(W.chain[N - 1], 104), false, false});
    }
    // phase 2: siblings Y2 of chain[N-1] and Y3 of chain[N-2] are delivered (with data) before the exploration;
    // S is a child of the sibling of X (more work than X's parent and than the sibling)
    CBlock Y3 = mk(P(3), 201), Y2 = mk(P(2), 202);
    struct Late { std::string kind; int depth; uint256 parent; int nonce; };
    std::vector<Late> late;
    late.push_back({"child-of-delivered-sibling-of-X", 3, Y3.GetHash(), 203});
    if (big) {
        late.push_back({"child-of-delivered-sibling-of-X", 2, Y2.GetHash(), 204});
        late.push_back({"sibling-of-X", 2, P(2), 205});
    }

    // budget_frac < 1: this search may use the wall clock only up to that fraction of the tier deadline (the rest is
    // reserved for the later configurations and for part (a)); a cut search is reported as incomplete, never as a failure.
    const double tier_deadline = vx::ctx().deadline_s;
    auto run_cfg = [&](const Config& c, int bound, double budget_frac) {
        if (T.violated) return;
        if (tier_deadline > 0) vx::ctx().deadline_s = tier_deadline * budget_frac;
        if (vx::deadline_reached()) { T.complete = false; vx::ctx().deadline_s = tier_deadline; return; }
        memset(g_sh, 0, sizeof *g_sh);
        vxs::Options o;
        o.max_preempt = bound;
        o.free_switch = false;
        o.fork_each = true;
        o.exec_timeout_s = 90;
        auto r = vxs::explore("C08b-invalidate-x-deliver[" + c.str() + "]", [&] { return Body(c); }, o, [] { return g_sh->outcome; });
        vx::ctx().deadline_s = tier_deadline;
        T.exec += r.executions; T.points += r.choice_points; T.configs++;
        T.distinct += r.distinct_outcomes;
        T.complete &= r.complete; T.herr |= r.harness_error;
        E.sample("InvalidateBlock(X) x ProcessNewBlock(S) [" + c.str() + "]: " + std::to_string(r.executions) + " schedules with <= " + std::to_string(o.max_preempt) + " deviations, " + std::to_string(r.distinct_outcomes) + " distinct outcomes, S stored inside the disconnect loop in " + std::to_string(g_sh->s_mid_loop) + ", final tip == S in " + std::to_string(g_sh->tip_is_s) + (r.complete ? "" : " (search cut by its wall-clock budget)"), 24);
        printf("[C08b] %s max_deviations=%d: schedules=%llu points=%llu distinct=%d mid_loop=%llu s_rejected=%llu tip_is_s=%llu complete=%d t=%.1fs\n", c.str().c_str(), o.max_preempt, (unsigned long long)r.executions, (unsigned long long)r.choice_points, r.distinct_outcomes, (unsigned long long)g_sh->s_mid_loop, (unsigned long long)g_sh->s_rejected, (unsigned long long)g_sh->tip_is_s, (int)r.complete, vx::elapsed());
        fflush(stdout);
        if (r.violations) { T.violated = true; return; }
        if (!r.complete || !vx::ctx().replay.empty()) return;
        // non-vacuity gates (a complete, violation-free search must have seen these)
        bool desc = c.kind == "sibling-of-tip";
        if (r.distinct_outcomes < 2) { printf("HARNESS-ERROR property=C08 part (b) [%s]: fewer than 2 distinct outcomes (the two threads never ran in both orders)\n", c.str().c_str()); T.herr = true; }
        if (g_sh->s_mid_loop == 0) { printf("HARNESS-ERROR property=C08 part (b) [%s]: S was never stored while InvalidateBlock was between two disconnects\n", c.str().c_str()); T.herr = true; }
        if (desc && (g_sh->s_rejected == 0 || g_sh->s_accepted == 0)) { printf("HARNESS-ERROR property=C08 part (b) [%s]: a descendant of X must be both accepted (before) and refused (after the invalidation) in some schedule\n", c.str().c_str()); T.herr = true; }
        if (c.unique_best && g_sh->tip_is_s != g_sh->execs) { printf("HARNESS-ERROR property=C08 part (b) [%s]: S is the unique most-work eligible block but was the tip in only %llu of %llu violation-free executions\n", c.str().c_str(), (unsigned long long)g_sh->tip_is_s, (unsigned long long)g_sh->execs); T.herr = true; }
    };
    // every configuration with <= 1 deviation (cheap, always first); at thorough then the base configurations with
    // <= 2 deviations inside a reserved share of the wall-clock budget.
    // share of the tier's wall clock part (b) may use for the <= 1 deviation searches: on an idle machine they take a
    // few seconds; under heavy load the cap keeps a share for part (a) (the first search alone fits in any case).
    const double cap1 = big ? 0.3 : 0.5;
    for (auto& c : phase1) run_cfg(c, 1, cap1);
    if (big) for (size_t i = 0; i < 2 && i < phase1.size(); i++) run_cfg(phase1[i], 2, 0.15 * (i + 1) + 0.05);
    if (!T.violated) {
        for (const CBlock* y : {&Y3, &Y2}) {
            auto r = node.ProcessBlock(*y);
            if (!r.pnb_ret || node.tip()->GetBlockHash() != W.chain[N]) throw std::runtime_error("C08b: side block not stored / tip moved");
            W.delivered.insert(y->GetHash());
        }
        for (auto& l : late) phase2.push_back({l.kind, l.depth, X(l.depth), mk(l.parent, l.nonce), true, l.kind != "sibling-of-X"});
        for (auto& c : phase2) run_cfg(c, 1, big ? 0.4 : cap1);
        if (big) run_cfg(phase2[0], 2, 0.55);
    }
    vxs_scope_clear();
    node.m_node.validation_signals->UnregisterValidationInterface(&g_probe);
    W.node = nullptr;
    return T;
}
} // namespace b

int main(int argc, char** argv)
{
    vx::init(argc, argv, "C08", "model_checking", 170, 1500);
    vx::scratch_dir();
    auto& E = vx::ev();
    bool big = vx::thorough();
    bool replay_is_history = false;
    if (!vx::ctx().replay.empty()) {
        std::ifstream f(vx::ctx().replay);
        std::string line;
        while (std::getline(f, line)) if (line.rfind("history: ", 0) == 0) replay_is_history = true;
    }
    // ---- part (b): schedules. Runs first: a few hundred executions that must complete even when the machine is
    // loaded; part (a) then uses whatever is left of the tier's wall-clock budget.
    b::Totals T;
    if (!replay_is_history) {
        T = b::Run(big);
        if (!vx::ctx().replay.empty()) return T.violated ? 1 : 0;
    }
    E.set("schedules", T.exec);
    E.set("configurations", T.configs);
    E.set("distinct_outcomes", (uint64_t)T.distinct);
    E.set("part_b_scheduling_points", T.points);
    E.set("part_b_max_deviations", (uint64_t)(big ? 2 : 1));
    E.set("part_b_complete", (uint64_t)T.complete);
    // ---- part (a): histories (the process is still single-threaded: every execution of (b) ran in a fork)
    if (!T.violated && !T.herr) {
        int rc = cs::Explore("C08", {}, [](cs::Sim& s) {
            cs::Plan p;
            if (vx::thorough()) {
                s.kinds = {"empty", "spend1", "cb_plus1_empty", "two_spenders"};
                s.parents = {"t0", "t1", "t2", "s", "x"};
            } else {
                s.kinds = {"empty", "cb_plus1_empty"};
                s.parents = {"t0", "t1", "s", "x"};
            }
            s.ev_flush = false; s.ev_invalidate = true; s.ev_reconsider = true; s.ev_precious = true; s.ev_headers = true;
            s.ev_reconsider_any = true; // ReconsiderBlock on a descendant / an invalid block: must also revive its valid ancestors
            p.depth = vx::thorough() ? 5 : 4;
            s.max_new_blocks = vx::thorough() ? 5 : 3;
            p.what = "oracle (from the reference tree only): tip's chain is reference-valid, fully delivered, not manually invalidated, and no such chain is longer (regtest: equal work per block, ties accepted)";
            s.cursor_check = false;
            return p;
        });
        if (rc >= 0) return rc;
    }
    E.set("part_a_node_states", E.states.load());
    E.set("part_a_node_transitions", E.transitions.load());
    E.states += T.points;
    E.transitions += T.points;
    E.traces_validated += T.exec;
    if (!T.complete) E.exhaustive = false;
    E.rule = "part (a): " + E.rule + " || part (b) schedules: on a prepared node (8-block chain; in phase 2 also two delivered side blocks) every schedule of {thread I: InvalidateBlock(X)+ActivateBestChain with X 2-3 blocks below the tip, thread D: ProcessNewBlock(S) for a never-announced full valid block S in {sibling of X, child of a delivered sibling of X, sibling of the tip (descends from X)}} with at most 1 deviation from the default scheduler (preemption of a runnable thread or a non-default pick at a blocking point) for every configuration and, at thorough, at most 2 deviations for the three base configurations (sibling of X / sibling of the tip with 2 disconnects, child of a delivered sibling with 3 disconnects; each inside a reserved share of the wall-clock budget, a cut search is reported and clears exhaustive); configurations = (S kind, number of disconnects, deviation bound) searches, one fork of the node per schedule, then ActivateBestChain from the main thread; preemption points: lock/unlock of cs_main and of the chainstate's m_chainstate_mutex, condition variables, thread create/join; oracle from the harness's own tree: the tip is a most-work block among those with fully delivered ancestry that neither are nor descend from X (ties accepted) and no descendant of X is active; distinct outcomes = (final tip, tip seen by each thread when its call returned, ProcessNewBlock result); gates: both thread orders seen, S stored between two disconnects seen; schedules = executions, part_b_scheduling_points are added to states/transitions";
    E.assume("part (b): sequentially consistent interleavings; only cs_main and m_chainstate_mutex offer preemption (other mutexes are modelled for blocking only); -checkblockindex off in part (b) (InvalidateBlock itself documents a transient block-index inconsistency when a block arrives during its disconnect loop, which CheckBlockIndex would abort on); regtest equal work per block, so work is compared by height");
    if (T.herr) return 2;
    return vx::finish();
}
