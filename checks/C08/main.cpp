// C08 — The active chain is always a most-work chain free of invalid blocks.
// chainsim over block trees: valid and invalid-at-connect blocks on tip / tip-1 / tip-2 / side-branch head /
// child of an invalid block; header-only and full deliveries (all orders via state dedup), duplicate delivery,
// InvalidateBlock, ReconsiderBlock (of the invalidated block, of a side-branch head and of a genuinely invalid
// descendant), PreciousBlock. CheckBlockIndex() runs inside the node on every step.
#include <kits/chainsim_main.h>
int main(int argc, char** argv)
{
    return cs::Main(argc, argv, "C08", {}, [](cs::Sim& s) {
        cs::Plan p;
        if (vx::thorough()) {
            s.kinds = {"empty", "spend1", "cb_plus1_empty", "two_spenders"};
            s.parents = {"t0", "t1", "t2", "s", "x"};
        } else {
            s.kinds = {"empty", "cb_plus1_empty"};
            s.parents = {"t0", "t1", "s", "x"};
        }
        s.ev_flush = false; s.ev_invalidate = true; s.ev_reconsider = true; s.ev_precious = true; s.ev_headers = true;
        s.ev_reconsider_any = true; // ReconsiderBlock on a descendant / an invalid block: must also revive its valid ancestors
        p.depth = vx::thorough() ? 5 : 4;
        s.max_new_blocks = vx::thorough() ? 5 : 3;
        p.what = "oracle (from the reference tree only): tip's chain is reference-valid, fully delivered, not manually invalidated, and no such chain is longer (regtest: equal work per block, ties accepted)";
        s.cursor_check = false;
        return p;
    });
}
