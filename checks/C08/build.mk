LINK := full
KITS := chainkit
SCHED := 1
