// C41 — Wallet-created transactions are correct, sufficiently funded and not overpaying.
//
// For every wallet coin set (subsets of eight prepared coin kinds: P2WPKH, P2PKH, P2TR, P2SH-P2WPKH, immature coinbase,
// locked, unconfirmed change of an own mempool tx, unconfirmed payment from a stranger) a forked copy of a real regtest
// node + CWallet (kits/walletnode) receives exactly those coins, then wallet::CreateTransaction is called over a grid of
// recipients x subtract-fee flags x feerates x coin-control options. Every created transaction is checked against an
// independent reference (ledger/mempool scan for "spendable", plain arithmetic for amounts and fees) and handed to the
// node's mempool test-accept.
#include <kits/forkpool.h>
#include <kits/walletnode.h>

#include <chainparams.h>
#include <consensus/validation.h>
#include <core_io.h>
#include <key_io.h>
#include <policy/feerate.h>
#include <policy/policy.h>
#include <script/sign.h>
#include <script/signingprovider.h>
#include <test/util/random.h>
#include <util/time.h>
#include <wallet/coincontrol.h>
#include <wallet/spend.h>

using namespace wn;
using wallet::CCoinControl;
using wallet::CRecipient;

namespace {

struct Recip { int dest; CAmount amount; bool sffo; };   // dest: 0 = external P2WPKH, 1 = external P2PKH, 2 = external P2TR, 3 = another external P2WPKH
struct Case {
    std::vector<Recip> recips;
    CAmount feerate;        // sat/kvB
    std::string cc;         // "none" | "pre<k>" | "preonly<k>" | "external" | "chg-legacy" | "chg-bech32m" | "unsafe" | "chgpos0"
    std::string Str() const
    {
        std::string s = "cc=" + cc + " feerate=" + std::to_string(feerate) + " recipients=[";
        for (auto& r : recips) s += strprintf("(d%d %d%s)", r.dest, r.amount, r.sffo ? " sffo" : "");
        return s + "]";
    }
};

struct Job {
    World& w;
    fp::Out& out;
    unsigned mask;
    World::Prepared P;
    RefView v;
    std::map<CScript, OutputType> change_scripts;
    std::vector<CTxDestination> dests;
    CAmount max_tx_fee;

    Job(World& world, fp::Out& o, unsigned m) : w(world), out(o), mask(m) {}

    std::string MaskStr() const
    {
        std::string s;
        for (int k = 0; k < World::K_COUNT; k++) if ((mask >> k) & 1) s += std::string(s.empty() ? "" : "+") + World::KindName(k);
        return s.empty() ? "(no coins)" : s;
    }
    void Viol(const std::string& key, const std::string& what, const Case& c, const std::string& extra = "")
    {
        out.violation("C41-" + key, what + " | coins={" + MaskStr() + "} " + c.Str() + (extra.empty() ? "" : " | " + extra), "coin mask " + std::to_string(mask) + "\n" + c.Str() + "\n" + extra);
    }

    CAmount SumSafe() const { CAmount t = 0; for (auto& c : v.coins_safe) t += c.value; return t; }

    void Run(bool big)
    {
        SeedRandomStateForTest(SeedRand::ZEROS);
        P = w.PrepareCoins(mask);
        v = w.View();
        {
            std::string d = w.Compare(v);
            // balances / AvailableCoins differing from the ledger scan is C44's subject; here the reference's spendable
            // set stays the yardstick for "allowed inputs"
            if (!d.empty()) { out.count("prepared_coins_differ_from_reference"); out.sample("note: wallet view of coin set " + MaskStr() + " differs from the reference: " + d); }
        }
        change_scripts = InternalScripts(w.W(), 400);
        max_tx_fee = w.W().m_default_max_tx_fee;
        CKey k1, k2, k3, k4;
        std::vector<unsigned char> r1(32, 0x31), r2(32, 0x32), r3(32, 0x33), r4(32, 0x34);
        k1.Set(r1.begin(), r1.end(), true); k2.Set(r2.begin(), r2.end(), true); k3.Set(r3.begin(), r3.end(), true); k4.Set(r4.begin(), r4.end(), true);
        dests = {WitnessV0KeyHash(k1.GetPubKey()), PKHash(k2.GetPubKey()), WitnessV1Taproot(XOnlyPubKey(k3.GetPubKey())), WitnessV0KeyHash(k4.GetPubKey())};

        const CAmount T = SumSafe();
        const CFeeRate dust_rate = w.W().chain().relayDustFee();
        auto dust_thr = [&](int d) { return GetDustThreshold(CTxOut(0, GetScriptForDestination(dests[d])), dust_rate); };
        const CAmount MID = 5000000;
        std::vector<CAmount> rates{100, 1000, 10000, 1000000};
        if (big) rates.push_back(200000000); // 200000 sat/vB: every transaction exceeds the maximum fee

        // ---- recipient lists
        std::vector<std::vector<Recip>> one, two;
        for (bool s : {false, true}) {
            one.push_back({{0, dust_thr(0), s}});
            one.push_back({{1, MID, s}});
            if (T > 0) {
                one.push_back({{2, T, s}});
                if (T > 400) one.push_back({{0, T - 200, s}});
                one.push_back({{0, T + 1, s}});
            }
        }
        one.push_back({{0, dust_thr(0) - 1, false}});
        for (int f = 0; f < 4; f++) {
            bool s0 = f & 1, s1 = f & 2;
            two.push_back({{0, MID, s0}, {1, dust_thr(1), s1}});
            if (T > 2 * MID) {
                two.push_back({{2, T / 2, s0}, {0, T - T / 2, s1}});
                two.push_back({{1, T - 3000000, s0}, {0, 2999000, s1}});
            }
        }
        // 3 and 4 recipients: every subtract-fee flag combination of three, and four with the subtracting recipients
        // behind / around non-subtracting ones (who pays the indivisible remainder?); more feerates so that the fee
        // takes every residue modulo the number of subtracting recipients
        std::vector<std::vector<Recip>> multi;
        for (int f = 0; f < 8; f++) multi.push_back({{0, MID, bool(f & 1)}, {1, MID / 2 + 1, bool(f & 2)}, {2, 777777, bool(f & 4)}});
        for (int f : {0b0110, 0b1110, 0b1101, 0b1100, 0b1011, 0b1111})
            multi.push_back({{0, MID, bool(f & 1)}, {1, MID / 2 + 1, bool(f & 2)}, {2, 777777, bool(f & 4)}, {3, 1234567, bool(f & 8)}});
        std::vector<CAmount> multi_rates = rates;
        for (CAmount x : {1001, 1003, 3333, 10007}) multi_rates.push_back(x);
        // ---- cc = none: full grid
        for (auto& rl : {one, two})
            for (auto& r : rl)
                for (CAmount fr : rates) Call({r, fr, "none"});
        for (auto& r : multi)
            for (CAmount fr : multi_rates) Call({r, fr, "none"});
        // ---- other coin-control options: representative recipients
        std::vector<std::string> ccs{"external", "chg-legacy", "chg-bech32m", "unsafe", "chgpos0"};
        for (auto& [k, op] : P.op) { (void)op; ccs.push_back("pre" + std::to_string(k)); ccs.push_back("preonly" + std::to_string(k)); }
        for (auto& cc : ccs) {
            CAmount allowed = AllowedTotal(cc);
            std::vector<std::vector<Recip>> rl;
            rl.push_back({{0, MID, false}});
            rl.push_back({{1, MID, true}});
            if (allowed > 0) rl.push_back({{2, allowed, true}});
            rl.push_back({{0, MID, true}, {1, dust_thr(1), false}});
            if (allowed > 2 * MID) rl.push_back({{2, allowed / 2, true}, {0, allowed - allowed / 2, true}});
            for (auto& r : rl)
                for (CAmount fr : {(CAmount)1000, (CAmount)10000}) Call({r, fr, cc});
            if (big) for (auto& r : rl) Call({r, 100, cc});
        }
    }

    // ---- the reference's idea of what a call may spend
    bool IsPre(const std::string& cc, int& k, bool& only) const
    {
        if (cc.rfind("preonly", 0) == 0) { k = atoi(cc.c_str() + 7); only = true; return true; }
        if (cc.rfind("pre", 0) == 0) { k = atoi(cc.c_str() + 3); only = false; return true; }
        return false;
    }
    std::set<COutPoint> AllowedSet(const std::string& cc, std::set<COutPoint>& required) const
    {
        std::set<COutPoint> a;
        int k; bool only;
        if (IsPre(cc, k, only)) {
            required.insert(P.op.at(k));
            a.insert(P.op.at(k));
            if (only) return a;
        }
        if (cc == "external") { required.insert(P.ext_op); a.insert(P.ext_op); }
        for (auto& c : (cc == "unsafe" ? v.coins_all : v.coins_safe)) a.insert(c.op);
        return a;
    }
    CAmount AllowedTotal(const std::string& cc) const
    {
        std::set<COutPoint> req;
        CAmount t = 0;
        for (auto& op : AllowedSet(cc, req)) t += P.prevouts.at(op).nValue;
        return t;
    }

    void Call(const Case& c)
    {
        out.count("calls");
        CCoinControl cc;
        cc.m_feerate = CFeeRate(c.feerate);
        cc.fOverrideFeeRate = c.feerate < 1000; // below the wallet's own minimum (-mintxfee) only with the override
        std::optional<unsigned int> change_pos;
        bool sign = true;
        int k; bool only;
        if (IsPre(c.cc, k, only)) { cc.Select(P.op.at(k)); cc.m_allow_other_inputs = !only; }
        else if (c.cc == "external") {
            cc.Select(P.ext_op).SetTxOut(P.ext_out);
            cc.m_external_provider.pubkeys.emplace(P.ext_key.GetPubKey().GetID(), P.ext_key.GetPubKey());
            sign = false;
        } else if (c.cc == "chg-legacy") cc.m_change_type = OutputType::LEGACY;
        else if (c.cc == "chg-bech32m") cc.m_change_type = OutputType::BECH32M;
        else if (c.cc == "unsafe") cc.m_include_unsafe_inputs = true;
        else if (c.cc == "chgpos0") change_pos = 0;
        std::vector<CRecipient> vec;
        for (auto& r : c.recips) vec.push_back(CRecipient{dests[r.dest], r.amount, r.sffo});

        auto res = wallet::CreateTransaction(w.W(), vec, change_pos, cc, sign);
        if (!res) {
            std::string err = util::ErrorString(res).original;
            out.count("failed");
            if (err.find("Internal bug") != std::string::npos || err.find("internal bug") != std::string::npos)
                Viol("internal-bug:" + err.substr(0, 60), "CreateTransaction reported an internal inconsistency: " + err, c);
            if (err.find("Insufficient funds") != std::string::npos || err.find("total exceeds your balance") != std::string::npos) out.count("failed_insufficient");
            else if (err.find("too small") != std::string::npos) out.count("failed_dust");
            else if (err.find("Fee exceeds maximum") != std::string::npos) out.count("failed_maxfee");
            else out.count("failed_other");
            return;
        }
        out.count("created");
        Check(c, cc, *res, sign);
    }

    void Check(const Case& c, const CCoinControl& cc, const wallet::CreatedTransactionResult& r, bool was_signed)
    {
        CMutableTransaction mtx(*r.tx);
        // ---- final signed transaction
        if (!was_signed) {
            FillableSigningProvider ks;
            ks.AddKey(P.ext_key);
            std::map<COutPoint, Coin> coins;
            for (auto& in : mtx.vin) {
                auto po = P.prevouts.find(in.prevout);
                if (po != P.prevouts.end()) coins[in.prevout] = Coin(po->second, 1, false);
            }
            std::map<int, bilingual_str> errs;
            w.W().SignTransaction(mtx, coins, SIGHASH_DEFAULT, errs); // the wallet's own inputs
            errs.clear();
            if (!SignTransaction(mtx, &ks, coins, {.sighash_type = SIGHASH_ALL}, errs)) { Viol("unsignable", "the funded transaction cannot be completed with the wallet's and the external key", c); return; }
        }
        const CTransaction tx(mtx);
        // (1) inputs: distinct, known, from the allowed set, all preselected ones present
        std::set<COutPoint> required, allowed = AllowedSet(c.cc, required), seen;
        CAmount in_total = 0;
        bool all_confirmed = true, all_mempool_spendable = true;
        for (auto& in : tx.vin) {
            if (!seen.insert(in.prevout).second) { Viol("duplicate-input", "the transaction spends " + in.prevout.ToString() + " twice", c); return; }
            auto po = P.prevouts.find(in.prevout);
            if (po == P.prevouts.end()) { Viol("unknown-input", "the transaction spends an outpoint that is neither a wallet coin nor supplied: " + in.prevout.ToString(), c); return; }
            in_total += po->second.nValue;
            if (!allowed.count(in.prevout)) {
                std::string which = "?";
                for (auto& [k, op] : P.op) if (op == in.prevout) which = World::KindName(k);
                Viol(std::string("input-not-allowed:") + which, "the transaction spends a coin (" + which + ") that is neither preselected nor spendable by the reference", c, in.prevout.ToString());
                return;
            }
            bool conf = false;
            for (auto& rc : v.coins_all) if (rc.op == in.prevout) { conf = rc.depth > 0; }
            if (in.prevout == P.ext_op) conf = true;
            if (P.op.count(World::K_LOCKED) && in.prevout == P.op.at(World::K_LOCKED)) conf = true;
            if (P.op.count(World::K_IMMATURE_CB) && in.prevout == P.op.at(World::K_IMMATURE_CB)) all_mempool_spendable = false;
            if (!conf) all_confirmed = false;
        }
        for (auto& op : required) if (!seen.count(op)) { Viol("preselected-missing", "a preselected input is not spent: " + op.ToString(), c); return; }
        // (2) outputs: recipients in order, at most one extra output (the change) at change_pos
        CAmount out_total = 0;
        for (auto& o : tx.vout) out_total += o.nValue;
        const CAmount fee = in_total - out_total;
        if (fee != r.fee) Viol("fee-misreported", strprintf("reported fee %d but inputs - outputs = %d", r.fee, fee), c);
        const size_t nrec = c.recips.size();
        if (tx.vout.size() != nrec + (r.change_pos ? 1 : 0)) { Viol("output-count", strprintf("%u outputs for %u recipients, change_pos %s", (unsigned)tx.vout.size(), (unsigned)nrec, r.change_pos ? "set" : "unset"), c); return; }
        if (r.change_pos && *r.change_pos >= tx.vout.size()) { Viol("change-pos-range", "change position out of range", c); return; }
        if (c.cc == "chgpos0" && r.change_pos && *r.change_pos != 0) Viol("change-pos-ignored", "requested change position 0 not honoured", c);
        CAmount requested = 0, reduced = 0;
        int nsffo = 0;
        std::vector<CAmount> red;
        for (size_t i = 0, o = 0; i < nrec; i++, o++) {
            if (r.change_pos && o == *r.change_pos) o++;
            const CTxOut& txo = tx.vout[o];
            const Recip& rc = c.recips[i];
            if (txo.scriptPubKey != GetScriptForDestination(dests[rc.dest])) { Viol("recipient-script", strprintf("output %u does not pay recipient %u's script", (unsigned)o, (unsigned)i), c); return; }
            requested += rc.amount;
            if (!rc.sffo) {
                if (txo.nValue != rc.amount) { Viol("recipient-amount", strprintf("recipient %u asked for %d, gets %d (no fee subtraction requested)", (unsigned)i, rc.amount, txo.nValue), c); return; }
            } else {
                nsffo++;
                red.push_back(rc.amount - txo.nValue);
                reduced += rc.amount - txo.nValue;
            }
            if (IsDust(txo, w.W().chain().relayDustFee())) Viol("recipient-dust", strprintf("recipient %u receives a dust output of %d", (unsigned)i, txo.nValue), c);
        }
        CAmount change_value = 0;
        if (r.change_pos) {
            const CTxOut& ch = tx.vout[*r.change_pos];
            change_value = ch.nValue;
            auto cs = change_scripts.find(ch.scriptPubKey);
            if (cs == change_scripts.end()) Viol("change-not-wallet", "the change output does not pay a script of the wallet's internal descriptors: " + HexStr(ch.scriptPubKey), c);
            else {
                if (c.cc == "chg-legacy" && cs->second != OutputType::LEGACY) Viol("change-type", "change type LEGACY requested, got another type", c);
                if (c.cc == "chg-bech32m" && cs->second != OutputType::BECH32M) Viol("change-type", "change type BECH32M requested, got another type", c);
            }
            if (ch.nValue <= 0 || IsDust(ch, w.W().chain().relayDustFee())) Viol("change-dust", strprintf("change output of %d is dust", ch.nValue), c);
            out.count("with_change");
        } else out.count("without_change");
        // subtract-fee shares: the fee (minus what the inputs leave over without change) split equally, remainder on the first
        if (nsffo) {
            out.count("sffo_created");
            CAmount R = fee - (in_total - requested - change_value); // == reduced by arithmetic; written out for the replay text
            if (R != reduced) Viol("sffo-sum", strprintf("subtract-fee recipients lose %d in total, expected %d", reduced, R), c);
            if (r.change_pos && reduced != fee) Viol("sffo-not-whole-fee", strprintf("with change and subtract-fee recipients the recipients must pay the whole fee %d, they pay %d", fee, reduced), c);
            CAmount q = reduced / nsffo, rem = reduced % nsffo;
            for (int i = 0; i < nsffo; i++) {
                CAmount want = q + (i == 0 ? rem : 0);
                if (red[i] != want) { Viol("sffo-share", strprintf("subtract-fee recipient #%d pays %d, its exact share of %d among %d is %d", i, red[i], reduced, nsffo, want), c); break; }
            }
            if (reduced < 0) out.count("sffo_negative_share");
            if (nsffo >= 2 && reduced % nsffo != 0) {
                out.count("sffo_indivisible");
                if (!c.recips[0].sffo) out.count("sffo_indivisible_first_listed_not_subtracting");
            }
        }
        // (3) fee bounds on the final signed transaction
        const int64_t vsize = (GetTransactionWeight(tx) + 3) / 4;
        const CFeeRate rate(c.feerate);
        if (fee < rate.GetFee(vsize)) Viol("fee-below-feerate", strprintf("fee %d < %d = feerate %d sat/kvB x %d vB of the signed transaction", fee, rate.GetFee(vsize), c.feerate, vsize), c);
        if (fee > max_tx_fee) Viol("fee-above-max", strprintf("fee %d exceeds the maximum transaction fee %d", fee, max_tx_fee), c);
        if (all_confirmed && !nsffo) {
            // not overpaying: with change the fee is the feerate times the (maximum) signed size; without change at most
            // the cost of the change that was dropped on top of it
            const int64_t slack = 3 * (int64_t)tx.vin.size() + 2;
            CAmount bound = rate.GetFee(vsize + slack) + (r.change_pos ? 0 : rate.GetFee(50) + 4000);
            if (fee > bound) Viol(r.change_pos ? "overpay-with-change" : "overpay-without-change", strprintf("fee %d > %d (feerate %d sat/kvB, %d vB)", fee, bound, c.feerate, vsize), c);
        }
        // (4) standard recipients, feerate >= min relay fee, every input spendable in the mempool: test-accept must succeed
        if (all_mempool_spendable) {
            MempoolAcceptResult ar = w.Submit(MakeTransactionRef(tx), /*test_accept=*/true);
            if (ar.m_result_type != MempoolAcceptResult::ResultType::VALID) Viol("test-accept:" + ar.m_state.GetRejectReason(), "mempool test-accept rejects the created transaction: " + ar.m_state.ToString(), c, EncodeHexTx(tx));
            else out.count("accepted");
        } else out.count("not_submitted_immature_preselected");
        out.distinct("created", strprintf("%u|%s|%u|%d|%d", mask, c.Str(), (unsigned)tx.vin.size(), (int)tx.vout.size(), r.change_pos ? 1 : 0));
        out.count(std::string("cc_") + (c.cc.rfind("pre", 0) == 0 ? (c.cc.rfind("preonly", 0) == 0 ? "preonly" : "pre") : c.cc));
        out.count("rate_" + std::to_string(c.feerate));
    }
};

} // namespace

int main(int argc, char** argv)
{
    vx::init(argc, argv, "C41", "exploration", 120, 1350);
    vx::scratch_dir();
    auto& E = vx::ev();
    const bool big = vx::thorough();
    ck::NodeOpts nopts;
    nopts.min_validation_cache = true;
    nopts.mempool_check_ratio = 0;
    ck::Node node(wn::DeferredOpts(nopts));
    World world(node);
    world.Init();
    world.MineEmpty(110); // coinbases of heights 1..10 fund the external payers
    if (ck::ThreadCount() != 1) { printf("HARNESS-ERROR process is not single-threaded\n"); return 2; }

    // coin sets
    std::vector<unsigned> masks;
    if (big) for (unsigned m = 0; m < 256; m++) masks.push_back(m);
    else {
        masks = {0, 255, 0x0f, 0x01 | 0x10, 0x01 | 0x20, 0x01 | 0x40, 0x01 | 0x80, 0x30, 0xc0, 0x02 | 0x04, 0x08 | 0x40 | 0x80};
        for (int k = 0; k < 8; k++) masks.push_back(1u << k);
    }
    if (const char* m = getenv("C41_MASKS")) { masks.clear(); std::istringstream is(m); unsigned x; while (is >> x) masks.push_back(x); }
    if (!vx::ctx().replay.empty()) {
        std::ifstream f(vx::ctx().replay);
        std::string line;
        while (std::getline(f, line)) if (line.rfind("coin mask ", 0) == 0) { masks = {(unsigned)atoi(line.c_str() + 10)}; }
        printf("replay: re-running every call for coin mask %u\n", masks[0]);
    }

    fp::Pool pool;
    pool.isolate_jobs = true;
    pool.on_worker_start = [&](unsigned wk) { node.RepointBlocksDir(node.BlocksDir().parent_path() / ("w" + std::to_string(wk))); };
    pool.run(masks.size(), [&](uint64_t j, fp::Out& out) {
        Job job(world, out, masks[j]);
        try { job.Run(big); }
        catch (const std::exception& e) { out.count("harness_error"); out.sample(std::string("HARNESS-ERROR coin mask ") + std::to_string(masks[j]) + ": " + e.what()); }
    }, [&](uint64_t j) { return "coin mask " + std::to_string(masks[j]); });

    auto cnt = [&](const char* k) { return pool.counts.count(k) ? pool.counts[k] : 0; };
    E.evaluations = cnt("calls");
    E.distinct_nontrivial = pool.distinct_size("created");
    E.exhaustive = pool.complete;
    E.rule = "one evaluation = one wallet::CreateTransaction call on a wallet holding exactly the coins of the coin set; grid = coin sets x recipient lists (1-2 recipients, amounts dust threshold / mid / total / total-200 / total+1 / halves, every subtract-fee flag combination; 3 recipients with all 8 flag combinations and 4 recipients with 6 flag patterns incl. first-listed-not-subtracting, at 8-9 feerates) x feerates x coin-control options; distinct_nontrivial = distinct (coin set, call) pairs that produced a transaction (all oracle clauses evaluated on it)";
    E.assume("regtest node in-process, wallet notifications queued and drained after every node call; RNG seeded with zeros per coin set");
    E.assume("requested feerate always explicit (the wallet has no fee estimates and the fallback fee is disabled by default); feerate 100 sat/kvB uses fOverrideFeeRate");
    E.assume("test-accept is not demanded when the caller preselected the immature coinbase");
    E.set("coin_sets", (uint64_t)masks.size());
    E.set("coin_sets_done", pool.jobs_done);
    for (const char* k : {"created", "failed", "failed_insufficient", "failed_dust", "failed_maxfee", "failed_other", "prepared_coins_differ_from_reference", "with_change", "without_change", "sffo_created", "sffo_negative_share", "sffo_indivisible", "sffo_indivisible_first_listed_not_subtracting", "accepted", "not_submitted_immature_preselected", "cc_none", "cc_pre", "cc_preonly", "cc_external", "cc_chg-legacy", "cc_chg-bech32m", "cc_unsafe", "cc_chgpos0", "rate_100", "rate_1000", "rate_10000", "rate_1000000"})
        E.set(k, cnt(k));
    for (auto& s : pool.samples) E.sample(s);
    E.sample("coin kinds: p2wpkh 1.0, p2pkh 0.5, p2tr 0.25, p2sh-p2wpkh 0.125 BTC confirmed; immature coinbase 50; locked 0.3; unconfirmed change of an own mempool tx 0.15; unconfirmed payment from a stranger 0.11");
    E.sample("coin-control options: none | pre<k> (coin of kind k preselected, other inputs allowed) | preonly<k> (no other inputs) | external (stranger's P2WPKH coin + solving data, unsigned creation, signed afterwards) | chg-legacy | chg-bech32m | unsafe (include unsafe inputs) | chgpos0");
    if (cnt("harness_error")) {
        vx::write_evidence();
        printf("HARNESS-ERROR %llu coin sets failed inside the harness\n", (unsigned long long)cnt("harness_error"));
        for (auto& s : pool.samples) if (s.find("HARNESS-ERROR") != std::string::npos) printf("  %s\n", s.c_str());
        return 2;
    }
    if (pool.complete && vx::ctx().replay.empty() && !getenv("C41_MASKS") && vx::rep().violations == 0) {
        for (const char* k : {"created", "failed_insufficient", "failed_dust", "with_change", "without_change", "sffo_created", "sffo_indivisible", "sffo_indivisible_first_listed_not_subtracting", "accepted", "cc_pre", "cc_preonly", "cc_external", "cc_chg-legacy", "cc_chg-bech32m", "cc_unsafe", "rate_100", "rate_1000000"})
            if (!cnt(k)) { vx::write_evidence(); printf("HARNESS-ERROR outcome class '%s' never occurred: vacuous run\n", k); return 2; }
    }
    return vx::finish();
}
