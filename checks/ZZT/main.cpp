#include <vx/vx.h>
#include <kits/chainkit.h>
#include <chainparams.h>
#include <util/time.h>
#include <sys/wait.h>
static void rss(const char* w){ std::ifstream f("/proc/self/status"); std::string l; while(std::getline(f,l)) if(l.rfind("VmRSS",0)==0||l.rfind("VmSize",0)==0) printf("%s %s\n",w,l.c_str()); }
int main(int argc,char**argv){ vx::init(argc,argv,"T","exploration"); vx::scratch_dir();
 rss("start");
 double t0=vx::elapsed(); { ck::NodeOpts o; if(getenv("MINC")) o.min_validation_cache=true; ck::Node n(o); double t1=vx::elapsed(); printf("node ctor %.3f\n",t1-t0); rss("ctor");
 ck::RefLedger L; L.AddGenesis(Params().GenesisBlock()); SetMockTime(Params().GenesisBlock().nTime+600*100000);
 ck::MineEmpty(n,L,110); printf("mine110 %.3f\n",vx::elapsed()-t1); t1=vx::elapsed();
 for(int i=0;i<20;i++){ pid_t p=fork(); if(p==0){ if(!getenv("NOPNB")){CBlock b=ck::MakeBlock(n,n.tip(),{}); n.ProcessBlock(b);} _exit(0);} int st; waitpid(p,&st,0);} printf("20 forks %.3f\n",vx::elapsed()-t1); t1=vx::elapsed(); }
 printf("dtor %.3f\n",vx::elapsed()-t0); return 0; }
