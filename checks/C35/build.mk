LINK := small
INCLUDED_SRCS := node/txorphanage.cpp
