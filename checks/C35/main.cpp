// C35 — The orphan pool stays bounded and peers cannot evict each other's orphans.
// VX-STATE by history replay: BFS over operation histories of a real TxOrphanage (small limits), states merged on
// the orphanage's own announcement table, compared after every call with a reference model: a set of
// (wtxid, peer) announcements with per-peer FIFO order and a work-set flag. Evictions by LimitOrphans are not
// predicted; the set of announcements that disappeared is validated against the rules of the class comment
// (only when over a global limit, only from peers over their own share, oldest-first per peer with
// non-reconsiderable first, no more than necessary, the strictly most resource-intensive peer is trimmed),
// then adopted by the model.
//
// The repo's node/txorphanage.cpp is compiled into this harness (it replaces the identical archive member) so that
// the private announcement table can be read for the canonical state key. The oracle uses the public interface.
#include <node/txorphanage.cpp> // NOLINT(bugprone-suspicious-include)

#include <kits/histbfs.h>
#include <vx/vx.h>

#include <consensus/validation.h>
#include <primitives/block.h>
#include <primitives/transaction.h>
#include <random.h>
#include <script/script.h>

#include <array>
#include <map>
#include <set>

namespace {

constexpr int NP = 3;       // peers
constexpr int NO_MAX = 6;   // orphan universe: o1, o2, o3(heavy), o4(11 inputs), o1w (same txid as o1, other witness), big (oversize, never stored)
int NO = 4;                 // orphans that can be stored (4 quick, 5 thorough)
int IDX_BIG = -1;
unsigned MAXLAT = 4;        // max_global_latency_score
int64_t RESERVED = 0;       // reserved_peer_usage = weight of two small orphans
int64_t W = 0;              // weight of a small orphan

CTransactionRef PARENT[2];
CTransactionRef ORPH[NO_MAX];
const char* ONAME[NO_MAX] = {"o1", "o2", "o3heavy", "o4x11", "o1w", "oversize"};
int64_t OW[NO_MAX];
unsigned OLAT[NO_MAX];
std::vector<COutPoint> OIN[NO_MAX];
std::vector<CBlock> BLOCKS;
std::vector<std::string> BLOCKNAME;
std::vector<std::vector<COutPoint>> BLOCKSPENDS;
uint256 SEEDS[3];

int widx(const Wtxid& w) { for (int i = 0; i < NO_MAX; i++) if (ORPH[i] && ORPH[i]->GetWitnessHash() == w) return i; return -1; }

enum OpType { ADD, ANN, ERASE, ERASEPEER, BLOCK, WORK, RECON };
struct Op { OpType t; int o = 0, p = 0; };
std::vector<Op> OPS;

std::string op_str(const Op& o)
{
    char b[128];
    switch (o.t) {
    case ADD: snprintf(b, sizeof b, "AddTx(%s, peer=%d)", ONAME[o.o], o.p); break;
    case ANN: snprintf(b, sizeof b, "AddAnnouncer(%s, peer=%d)", ONAME[o.o], o.p); break;
    case ERASE: snprintf(b, sizeof b, "EraseTx(%s)", ONAME[o.o]); break;
    case ERASEPEER: snprintf(b, sizeof b, "EraseForPeer(%d)", o.p); break;
    case BLOCK: snprintf(b, sizeof b, "EraseForBlock(%s)", BLOCKNAME[o.o].c_str()); break;
    case WORK: snprintf(b, sizeof b, "AddChildrenToWorkSet(parent%d, rng seed #%d)", o.o + 1, o.p); break;
    case RECON: snprintf(b, sizeof b, "GetTxToReconsider(peer=%d)", o.p); break;
    }
    return b;
}
std::string describe(const std::string& hist)
{
    std::string s = "# orphans: o1 spends parent1:0, o1w = o1 with another witness, o2 spends parent1:1, o3heavy (3x weight) spends parent2:0, o4x11 spends parent1:0, parent2:1 and 9 other outpoints; max_global_latency_score=" + std::to_string(MAXLAT) + " reserved_peer_usage=2 small orphans\n";
    for (unsigned char c : hist) s += std::to_string((int)c) + " " + op_str(OPS[c]) + "\n";
    return s;
}

// ------------------------------------------------------------------ reference model
struct MAnn { int w, p; uint64_t seq; bool recon; };
struct Model {
    std::vector<MAnn> a;
    uint64_t seq = 0;
    bool has(int w, int p) const { for (auto& x : a) if (x.w == w && x.p == p) return true; return false; }
    bool has_tx(int w) const { for (auto& x : a) if (x.w == w) return true; return false; }
    bool recon_w(int w) const { for (auto& x : a) if (x.w == w && x.recon) return true; return false; }
    std::set<int> peers() const { std::set<int> s; for (auto& x : a) s.insert(x.p); return s; }
    std::set<int> txs() const { std::set<int> s; for (auto& x : a) s.insert(x.w); return s; }
    int64_t usage_peer(int p) const { int64_t u = 0; for (auto& x : a) if (x.p == p) u += OW[x.w]; return u; }
    unsigned lat_peer(int p) const { unsigned u = 0; for (auto& x : a) if (x.p == p) u += OLAT[x.w]; return u; }
    unsigned count_peer(int p) const { unsigned u = 0; for (auto& x : a) if (x.p == p) u++; return u; }
    int64_t total_usage() const { int64_t u = 0; for (int w : txs()) u += OW[w]; return u; }
    unsigned total_lat() const { unsigned u = a.size(); for (int w : txs()) u += OLAT[w] - 1; return u; }
    unsigned npeers1() const { return std::max<size_t>(peers().size(), 1); }
    unsigned max_peer_lat() const { return MAXLAT / npeers1(); }
    int64_t max_global_usage() const { return RESERVED * npeers1(); }
    bool needs_trim() const { return total_lat() > MAXLAT || total_usage() > max_global_usage(); }
    void erase_tx(int w) { a.erase(std::remove_if(a.begin(), a.end(), [&](const MAnn& x) { return x.w == w; }), a.end()); }
    void erase_peer(int p) { a.erase(std::remove_if(a.begin(), a.end(), [&](const MAnn& x) { return x.p == p; }), a.end()); }
    // eviction order of one peer: non-reconsiderable before reconsiderable, then oldest first
    std::vector<MAnn> peer_order(int p) const
    {
        std::vector<MAnn> v;
        for (auto& x : a) if (x.p == p) v.push_back(x);
        std::sort(v.begin(), v.end(), [](const MAnn& x, const MAnn& y) { return std::tie(x.recon, x.seq) < std::tie(y.recon, y.seq); });
        return v;
    }
    std::string key() const
    {
        std::string s;
        for (int p = 0; p < NP; p++) {
            std::vector<MAnn> v;
            for (auto& x : a) if (x.p == p) v.push_back(x);
            std::sort(v.begin(), v.end(), [](const MAnn& x, const MAnn& y) { return x.seq < y.seq; });
            s += "p" + std::to_string(p) + ":";
            for (auto& x : v) s += std::to_string(x.w) + (x.recon ? "r" : "") + ",";
        }
        return s;
    }
};

std::string impl_key(const node::TxOrphanage& o)
{
    const auto& impl = static_cast<const node::TxOrphanageImpl&>(o);
    struct Row { int p, w; uint64_t seq; bool r; };
    std::vector<Row> rows;
    for (const auto& ann : impl.m_orphans) rows.push_back(Row{(int)ann.m_announcer, widx(ann.m_tx->GetWitnessHash()), ann.m_entry_sequence, ann.m_reconsider});
    std::sort(rows.begin(), rows.end(), [](const Row& x, const Row& y) { return std::tie(x.p, x.seq) < std::tie(y.p, y.seq); });
    std::string s;
    int last = -1;
    for (auto& r : rows) {
        if (r.p != last) { s += "p" + std::to_string(r.p) + ":"; last = r.p; }
        s += std::to_string(r.w) + (r.r ? "r" : "") + ",";
    }
    return s;
}

// ------------------------------------------------------------------ coverage counters (vacuity gates)
std::atomic<uint64_t> g_evictions{0}, g_evict_latency{0}, g_evict_usage{0}, g_protected_peer{0}, g_orphan_lost_by_eviction{0}, g_orphan_survives_other_announcer{0},
    g_evict_skips_recon{0}, g_block_erased{0}, g_block_erased_multi{0}, g_peer_erase_keeps_shared{0}, g_work_added{0}, g_work_choice[3], g_recon_got{0},
    g_add_existing_other_peer{0}, g_oversize_rejected{0}, g_at_limit_no_evict{0}, g_multi_peer_evict{0}, g_same_txid_twins{0}, g_peer_over_share_not_trimmed{0}, g_trim_after_erase{0};

void fail(const std::string& key, const std::string& what, const std::string& hist) { vx::violation(key, what, describe(hist)); }

struct Frac { __int128 n, d; };
bool frac_less(const Frac& x, const Frac& y) { return x.n * y.d < y.n * x.d; }
bool frac_eq(const Frac& x, const Frac& y) { return x.n * y.d == y.n * x.d; }

// Compare the implementation with the model after an operation. `pre` = model state after the explicit effect of
// the operation and before any limiting; on return m holds the reconciled (observed) state.
void reconcile(node::TxOrphanage& orph, Model& m, bool limiting_step, bool count, const std::string& hist)
{
    const Model pre = m;
    // observed announcement set
    std::vector<MAnn> post;
    for (int w = 0; w < NO_MAX; w++) {
        if (!ORPH[w]) continue;
        for (int p = 0; p < NP; p++) {
            bool have = orph.HaveTxFromPeer(ORPH[w]->GetWitnessHash(), p);
            if (have && !pre.has(w, p)) { fail("announcement-appeared", std::string("announcement (") + ONAME[w] + ", peer " + std::to_string(p) + ") exists although it was never added or was removed", hist); continue; }
            if (have) for (auto& x : pre.a) if (x.w == w && x.p == p) post.push_back(x);
        }
    }
    std::sort(post.begin(), post.end(), [](const MAnn& x, const MAnn& y) { return x.seq < y.seq; });
    Model after = pre;
    after.a = post;
    std::vector<MAnn> removed;
    for (auto& x : pre.a) if (!after.has(x.w, x.p)) removed.push_back(x);
    if (!removed.empty()) {
        std::string rs;
        for (auto& x : removed) rs += std::string(ONAME[x.w]) + "@peer" + std::to_string(x.p) + " ";
        if (!limiting_step) fail("lost-without-limiting", "announcements disappeared in an operation that neither erases nor limits: " + rs, hist);
        else if (!pre.needs_trim()) fail("evicted-within-limits", "announcements were evicted although no global limit was exceeded: " + rs, hist);
        else {
            // fairness: peers within their own share lose nothing
            const unsigned max_lat = pre.max_peer_lat();
            for (int p = 0; p < NP; p++) {
                bool within = pre.usage_peer(p) <= RESERVED && pre.lat_peer(p) <= max_lat;
                bool lost = false;
                for (auto& x : removed) lost |= x.p == p;
                if (within && lost) fail("protected-peer-evicted", "peer " + std::to_string(p) + " was within its own usage and latency share but lost an announcement to eviction: " + rs, hist);
                if (within && !lost && pre.count_peer(p) > 0 && count) g_protected_peer++;
                if (!within && !lost && count) g_peer_over_share_not_trimmed++;
                // per-peer order: removed announcements are a prefix of (non-reconsiderable first, oldest first)
                auto ord = pre.peer_order(p);
                bool gap = false;
                for (auto& x : ord) {
                    bool gone = !after.has(x.w, x.p);
                    if (!gone) gap = true;
                    else if (gap) fail("eviction-order", "peer " + std::to_string(p) + " lost " + ONAME[x.w] + " although an older / non-reconsiderable announcement of the same peer was kept", hist);
                }
                if (count && lost) {
                    bool skipped = false;
                    for (auto& x : ord) if (x.recon && after.has(x.w, x.p)) for (auto& y : ord) if (!y.recon && y.seq > x.seq && !after.has(y.w, y.p)) skipped = true;
                    if (skipped) g_evict_skips_recon++;
                }
            }
            // no more than necessary: the last eviction started from a state that was over a limit
            bool some_needed = false;
            for (auto& x : removed) { Model t = after; t.a.push_back(x); if (t.needs_trim()) some_needed = true; }
            if (!some_needed) fail("evicted-more-than-necessary", "every evicted announcement could be put back without exceeding a global limit: " + rs, hist);
            // the strictly most resource-intensive peer is trimmed
            Frac best{-1, 1};
            int bestp = -1;
            bool unique = false;
            for (int p = 0; p < NP; p++) {
                if (pre.count_peer(p) == 0) continue;
                Frac fl{(__int128)pre.lat_peer(p), (__int128)max_lat}, fu{(__int128)pre.usage_peer(p), (__int128)RESERVED};
                Frac f = frac_less(fl, fu) ? fu : fl;
                if (bestp < 0 || frac_less(best, f)) { best = f; bestp = p; unique = true; }
                else if (frac_eq(best, f)) unique = false;
            }
            if (unique) {
                bool lost = false;
                for (auto& x : removed) lost |= x.p == bestp;
                if (!lost) fail("worst-peer-not-trimmed", "peer " + std::to_string(bestp) + " was strictly the most over its share but lost nothing while others were evicted: " + rs, hist);
            }
            if (count) {
                g_evictions++;
                if (pre.total_lat() > MAXLAT) g_evict_latency++;
                if (pre.total_usage() > pre.max_global_usage()) g_evict_usage++;
                std::set<int> ps;
                for (auto& x : removed) { ps.insert(x.p); if (!after.has_tx(x.w)) g_orphan_lost_by_eviction++; else g_orphan_survives_other_announcer++; }
                if (ps.size() > 1) g_multi_peer_evict++;
            }
        }
    } else if (count && limiting_step && (pre.total_lat() == MAXLAT || pre.total_usage() == pre.max_global_usage()) && !pre.a.empty()) g_at_limit_no_evict++;
    if (after.needs_trim()) fail("over-global-limit", "after the operation the pool exceeds a global limit: latency " + std::to_string(after.total_lat()) + "/" + std::to_string(MAXLAT) + " usage " + std::to_string((long long)after.total_usage()) + "/" + std::to_string((long long)after.max_global_usage()), hist);
    m = after;

    // ---- every query against the reconciled model
    orph.SanityCheck();
    auto neq = [&](const char* what, long long got, long long want) {
        if (got != want) fail(std::string("query-") + what, std::string(what) + " = " + std::to_string(got) + ", model " + std::to_string(want), hist);
    };
    neq("CountAnnouncements", orph.CountAnnouncements(), m.a.size());
    neq("CountUniqueOrphans", orph.CountUniqueOrphans(), m.txs().size());
    neq("TotalOrphanUsage", orph.TotalOrphanUsage(), m.total_usage());
    neq("TotalLatencyScore", orph.TotalLatencyScore(), m.total_lat());
    neq("MaxGlobalLatencyScore", orph.MaxGlobalLatencyScore(), MAXLAT);
    neq("ReservedPeerUsage", orph.ReservedPeerUsage(), RESERVED);
    neq("MaxPeerLatencyScore", orph.MaxPeerLatencyScore(), m.max_peer_lat());
    neq("MaxGlobalUsage", orph.MaxGlobalUsage(), m.max_global_usage());
    if (orph.TotalLatencyScore() > orph.MaxGlobalLatencyScore()) fail("over-latency-limit", "TotalLatencyScore() > MaxGlobalLatencyScore() after the operation", hist);
    if (orph.TotalOrphanUsage() > orph.MaxGlobalUsage()) fail("over-usage-limit", "TotalOrphanUsage() > MaxGlobalUsage() after the operation", hist);
    for (int p = 0; p < NP; p++) {
        neq("AnnouncementsFromPeer", orph.AnnouncementsFromPeer(p), m.count_peer(p));
        neq("LatencyScoreFromPeer", orph.LatencyScoreFromPeer(p), m.lat_peer(p));
        neq("UsageByPeer", orph.UsageByPeer(p), m.usage_peer(p));
        bool work = false;
        for (auto& x : m.a) work |= (x.p == p && x.recon);
        neq("HaveTxToReconsider", orph.HaveTxToReconsider(p), work);
        // children of each parent from this peer: reconsiderable first, then most recent first
        for (int par = 0; par < 2; par++) {
            std::vector<MAnn> v;
            for (auto& x : m.a) {
                if (x.p != p) continue;
                bool child = false;
                for (auto& in : OIN[x.w]) child |= in.hash == PARENT[par]->GetHash();
                if (child) v.push_back(x);
            }
            std::sort(v.begin(), v.end(), [](const MAnn& x, const MAnn& y) { return x.recon != y.recon ? x.recon : x.seq > y.seq; });
            auto got = orph.GetChildrenFromSamePeer(PARENT[par], p);
            std::string gs, ws;
            for (auto& t : got) gs += std::string(widx(t->GetWitnessHash()) >= 0 ? ONAME[widx(t->GetWitnessHash())] : "?") + " ";
            for (auto& x : v) ws += std::string(ONAME[x.w]) + " ";
            if (gs != ws) fail("query-GetChildrenFromSamePeer", "GetChildrenFromSamePeer(parent" + std::to_string(par + 1) + ", peer " + std::to_string(p) + ") = [" + gs + "], model [" + ws + "]", hist);
        }
    }
    for (int w = 0; w < NO_MAX; w++) {
        if (!ORPH[w]) continue;
        const Wtxid& id = ORPH[w]->GetWitnessHash();
        neq("HaveTx", orph.HaveTx(id), m.has_tx(w));
        CTransactionRef t = orph.GetTx(id);
        if ((t != nullptr) != m.has_tx(w) || (t && t->GetWitnessHash() != id)) fail("query-GetTx", std::string("GetTx(") + ONAME[w] + ") inconsistent with the model", hist);
    }
    {
        std::set<std::pair<int, std::set<NodeId>>> got, want;
        for (auto& oi : orph.GetOrphanTransactions()) got.insert({widx(oi.tx->GetWitnessHash()), oi.announcers});
        for (int w : m.txs()) { std::set<NodeId> s; for (auto& x : m.a) if (x.w == w) s.insert(x.p); want.insert({w, s}); }
        if (got != want) fail("query-GetOrphanTransactions", "GetOrphanTransactions() differs from the model", hist);
    }
    if (count && m.has_tx(0) && NO > 4 && m.has_tx(4)) g_same_txid_twins++;
}

bool replay(const std::string& hist, std::string& key)
{
    auto orph = node::MakeTxOrphanage(MAXLAT, RESERVED);
    Model m;
    const size_t n = hist.size();
    if (n == 0) reconcile(*orph, m, false, false, hist);
    for (size_t i = 0; i < n; i++) {
        const Op& o = OPS[(unsigned char)hist[i]];
        const bool chk = (i + 1 == n);
        bool limiting = false;
        switch (o.t) {
        case ADD: {
            const bool oversize = OW[o.o] > MAX_STANDARD_TX_WEIGHT;
            const bool had_tx = m.has_tx(o.o), had_ann = m.has(o.o, o.p);
            bool r = orph->AddTx(ORPH[o.o], o.p);
            bool want = !oversize && !had_tx; // "true if this is a new orphan"; false if it already exists (under any peer) or is too large
            if (!oversize && !had_ann) { m.a.push_back(MAnn{o.o, o.p, m.seq++, false}); limiting = true; }
            if (chk) {
                if (r != want) fail("AddTx-return", std::string("AddTx(") + ONAME[o.o] + ", peer " + std::to_string(o.p) + ") returned " + (r ? "true" : "false") + ", expected " + (want ? "true" : "false"), hist);
                if (oversize) g_oversize_rejected++;
                if (had_tx && !had_ann) g_add_existing_other_peer++;
            }
            break;
        }
        case ANN: {
            const bool had_tx = m.has_tx(o.o), had_ann = m.has(o.o, o.p);
            bool r = orph->AddAnnouncer(ORPH[o.o]->GetWitnessHash(), o.p);
            bool want = had_tx && !had_ann;
            if (want) { m.a.push_back(MAnn{o.o, o.p, m.seq++, false}); limiting = true; }
            if (chk && r != want) fail("AddAnnouncer-return", std::string("AddAnnouncer(") + ONAME[o.o] + ", peer " + std::to_string(o.p) + ") returned " + (r ? "true" : "false"), hist);
            break;
        }
        case ERASE: {
            const bool had_tx = m.has_tx(o.o);
            bool r = orph->EraseTx(ORPH[o.o]->GetWitnessHash());
            m.erase_tx(o.o);
            limiting = true;
            if (chk && r != had_tx) fail("EraseTx-return", std::string("EraseTx(") + ONAME[o.o] + ") returned " + (r ? "true" : "false"), hist);
            if (chk && m.needs_trim()) g_trim_after_erase++;
            break;
        }
        case ERASEPEER: {
            if (chk) for (auto& x : m.a) if (x.p == o.p) for (auto& y : m.a) if (y.w == x.w && y.p != o.p) { g_peer_erase_keeps_shared++; break; }
            orph->EraseForPeer(o.p);
            m.erase_peer(o.p);
            limiting = true;
            if (chk && m.needs_trim()) g_trim_after_erase++;
            break;
        }
        case BLOCK: {
            orph->EraseForBlock(BLOCKS[o.o]);
            // every orphan that spends an outpoint spent by a transaction of the block conflicts with it (or is in it)
            int erased = 0;
            for (int w = 0; w < NO_MAX; w++) {
                if (!ORPH[w] || !m.has_tx(w)) continue;
                bool hit = false;
                for (auto& in : OIN[w]) for (auto& sp : BLOCKSPENDS[o.o]) hit |= (in == sp);
                if (hit) { m.erase_tx(w); erased++; }
            }
            limiting = true;
            if (chk && erased) g_block_erased++;
            if (chk && erased > 1) g_block_erased_multi++;
            if (chk && m.needs_trim()) g_trim_after_erase++;
            break;
        }
        case WORK: {
            FastRandomContext rng{SEEDS[o.p]};
            auto ret = orph->AddChildrenToWorkSet(*PARENT[o.o], rng);
            // every stored orphan spending an output of the parent that is not yet in a work set is assigned to exactly one of its announcers
            std::set<int> expect;
            for (int w : m.txs()) {
                bool child = false;
                for (auto& in : OIN[w]) child |= (in.hash == PARENT[o.o]->GetHash() && in.n < PARENT[o.o]->vout.size());
                if (child && !m.recon_w(w)) expect.insert(w);
            }
            std::set<int> got;
            for (auto& [wtxid, peer] : ret) {
                int w = widx(wtxid);
                bool ok = w >= 0 && expect.count(w) && !got.count(w) && peer >= 0 && peer < NP && m.has(w, (int)peer);
                if (!ok) { if (chk) fail("AddChildrenToWorkSet-result", "AddChildrenToWorkSet returned a pair that is not (child orphan not yet in a work set, one of its announcers)", hist); continue; }
                got.insert(w);
                for (auto& x : m.a) if (x.w == w && x.p == (int)peer) {
                    x.recon = true;
                    if (chk) { g_work_added++; std::vector<int> anns; for (auto& y : m.a) if (y.w == w) anns.push_back(y.p); std::sort(anns.begin(), anns.end()); if (anns.size() > 1) g_work_choice[std::find(anns.begin(), anns.end(), (int)peer) - anns.begin()]++; }
                }
            }
            if (chk && got != expect) fail("AddChildrenToWorkSet-missing", "AddChildrenToWorkSet did not assign every eligible child of the parent", hist);
            break;
        }
        case RECON: {
            CTransactionRef t = orph->GetTxToReconsider(o.p);
            std::set<int> work;
            for (auto& x : m.a) if (x.p == o.p && x.recon) work.insert(x.w);
            if (!t) { if (chk && !work.empty()) fail("GetTxToReconsider-null", "GetTxToReconsider(peer " + std::to_string(o.p) + ") returned nothing although the peer's work set is not empty", hist); }
            else {
                int w = widx(t->GetWitnessHash());
                if (!work.count(w)) { if (chk) fail("GetTxToReconsider-wrong", "GetTxToReconsider(peer " + std::to_string(o.p) + ") returned a transaction that is not in the peer's work set", hist); }
                else { for (auto& x : m.a) if (x.p == o.p && x.w == w) x.recon = false; if (chk) g_recon_got++; }
            }
            break;
        }
        }
        if (chk) reconcile(*orph, m, limiting, true, hist);
        else {
            // prefix steps were checked when they were the last step of a shorter history: only adopt evictions
            std::vector<MAnn> keep;
            for (auto& x : m.a) if (orph->HaveTxFromPeer(ORPH[x.w]->GetWitnessHash(), x.p)) keep.push_back(x);
            m.a = keep;
        }
    }
    key = impl_key(*orph) + "|" + m.key();
    return true;
}

// ------------------------------------------------------------------ fixtures
CMutableTransaction base_tx(const std::vector<COutPoint>& ins)
{
    CMutableTransaction tx;
    tx.version = 2;
    for (auto& o : ins) { CTxIn in(o); tx.vin.push_back(in); }
    tx.vout.resize(1);
    tx.vout[0].nValue = 1000;
    tx.vout[0].scriptPubKey = CScript() << OP_TRUE;
    return tx;
}
// pads the first output script (and the first input's witness item) until the weight is exactly `target`
CTransactionRef with_weight(CMutableTransaction tx, int64_t target, unsigned char wit_byte)
{
    for (int wl = 1; wl <= 4; wl++) {
        tx.vin[0].scriptWitness.stack = {std::vector<unsigned char>(wl, wit_byte)};
        tx.vout[0].scriptPubKey = CScript() << OP_TRUE;
        int64_t w0 = GetTransactionWeight(CTransaction(tx));
        if (w0 > target || (target - w0) % 4 != 0) continue;
        for (int extra = 0; extra < 8; extra++) {
            // pad with raw opcodes; the script-length prefix may grow by 2 bytes when passing 252 bytes
            int64_t pad = (target - w0) / 4 - extra;
            if (pad < 0) break;
            CScript s;
            s << OP_TRUE;
            for (int64_t i = 0; i < pad; i++) s << OP_NOP;
            tx.vout[0].scriptPubKey = s;
            if (GetTransactionWeight(CTransaction(tx)) == target) return MakeTransactionRef(tx);
        }
    }
    return nullptr;
}

bool make_fixtures()
{
    for (int i = 0; i < 2; i++) {
        CMutableTransaction p;
        p.version = 2;
        p.vin.resize(1);
        p.vin[0].prevout = COutPoint(Txid::FromUint256(uint256{(uint8_t)(0x70 + i)}), 0);
        p.vout.resize(2);
        for (auto& o : p.vout) { o.nValue = 5000; o.scriptPubKey = CScript() << OP_TRUE; }
        PARENT[i] = MakeTransactionRef(p);
    }
    COutPoint p1_0(PARENT[0]->GetHash(), 0), p1_1(PARENT[0]->GetHash(), 1), p2_0(PARENT[1]->GetHash(), 0), p2_1(PARENT[1]->GetHash(), 1);
    std::vector<COutPoint> in4{p1_0, p2_1};
    for (int i = 0; i < 9; i++) in4.push_back(COutPoint(Txid::FromUint256(uint256{(uint8_t)(0x40 + i)}), (uint32_t)i));
    {
        CMutableTransaction t4 = base_tx(in4);
        t4.vin[0].scriptWitness.stack = {std::vector<unsigned char>(1, 0x04)};
        ORPH[3] = MakeTransactionRef(t4);
        W = GetTransactionWeight(*ORPH[3]);
    }
    ORPH[0] = with_weight(base_tx({p1_0}), W, 0x01);
    ORPH[1] = with_weight(base_tx({p1_1}), W, 0x02);
    ORPH[2] = with_weight(base_tx({p2_0}), 3 * W, 0x03);
    if (!ORPH[0] || !ORPH[1] || !ORPH[2]) return false;
    {   // same txid as o1, other witness content (same weight)
        CMutableTransaction t(*ORPH[0]);
        for (auto& b : t.vin[0].scriptWitness.stack[0]) b = 0x11;
        ORPH[4] = MakeTransactionRef(t);
        if (ORPH[4]->GetHash() != ORPH[0]->GetHash() || ORPH[4]->GetWitnessHash() == ORPH[0]->GetWitnessHash()) return false;
    }
    {   // heavier than MAX_STANDARD_TX_WEIGHT: never stored
        CMutableTransaction t = base_tx({COutPoint(Txid::FromUint256(uint256{(uint8_t)0x55}), 0)});
        CScript s;
        s << OP_RETURN;
        std::vector<unsigned char> blob(100100, 0x6a);
        t.vout[0].scriptPubKey = CScript(blob.begin(), blob.end());
        ORPH[5] = MakeTransactionRef(t);
        if (GetTransactionWeight(*ORPH[5]) <= MAX_STANDARD_TX_WEIGHT) return false;
    }
    for (int i = 0; i < NO_MAX; i++) {
        OW[i] = GetTransactionWeight(*ORPH[i]);
        OLAT[i] = 1 + ORPH[i]->vin.size() / 10;
        for (auto& in : ORPH[i]->vin) OIN[i].push_back(in.prevout);
    }
    if (OW[0] != W || OW[1] != W || OW[2] != 3 * W || OW[4] != W || OLAT[3] != 2 || OLAT[0] != 1) return false;
    RESERVED = 2 * W;
    auto add_block = [&](const std::string& name, std::vector<std::vector<COutPoint>> txs) {
        CBlock b;
        std::vector<COutPoint> all;
        for (auto& ins : txs) {
            CMutableTransaction t = base_tx(ins);
            t.vout[0].nValue = 7; // not one of the orphans
            b.vtx.push_back(MakeTransactionRef(t));
            for (auto& o : ins) all.push_back(o);
        }
        BLOCKS.push_back(b);
        BLOCKNAME.push_back(name);
        BLOCKSPENDS.push_back(all);
    };
    add_block("block with a tx spending an unrelated outpoint and parent1:0", {{COutPoint(Txid::FromUint256(uint256{(uint8_t)0x66}), 3), p1_0}});
    add_block("block spending parent1:1 and parent2:0 in two txs", {{p1_1}, {p2_0}});
    add_block("block spending the last input of o4x11", {{in4.back()}});
    {   // a block that contains o2 itself
        CBlock b;
        b.vtx.push_back(ORPH[1]);
        BLOCKS.push_back(b);
        BLOCKNAME.push_back("block containing o2");
        BLOCKSPENDS.push_back(OIN[1]);
    }
    // rng seeds whose first draw covers every choice among 2 and among 3 announcers
    {
        int found = 0;
        bool have3[3] = {false, false, false};
        for (int i = 1; i < 200 && found < 3; i++) {
            uint256 s{(uint8_t)i};
            uint64_t r3 = FastRandomContext{s}.randrange(3), r2 = FastRandomContext{s}.randrange(2);
            if (have3[r3]) continue;
            if (found == 0 && r2 != 0) continue;
            if (found == 1 && r2 != 1) continue;
            have3[r3] = true;
            SEEDS[found++] = s;
        }
        if (found < 3) return false;
    }
    return true;
}

int run()
{
    auto& E = vx::ev();
    const bool big = vx::thorough();
    if (!make_fixtures()) { printf("HARNESS-ERROR could not build the orphan fixtures\n"); return 2; }
    NO = 5;
    std::vector<unsigned> configs = big ? std::vector<unsigned>{4, 5, 6} : std::vector<unsigned>{4, 5};
    int depth = 24; // the canonical state space is finite: run to the fixpoint
    if (vx::ctx().args.size() >= 1) depth = atoi(vx::ctx().args[0].c_str());
    if (vx::ctx().args.size() >= 2) configs = {(unsigned)atoi(vx::ctx().args[1].c_str())};
    if (vx::ctx().args.size() >= 3) NO = atoi(vx::ctx().args[2].c_str());
    IDX_BIG = 5;
    if (NO < 5) ORPH[4] = nullptr;
    for (int o = 0; o < NO; o++) for (int p = 0; p < NP; p++) OPS.push_back(Op{ADD, o, p});
    OPS.push_back(Op{ADD, IDX_BIG, 0});
    for (int o = 0; o < NO; o++) for (int p = 0; p < NP; p++) OPS.push_back(Op{ANN, o, p});
    for (int o = 0; o < NO; o++) OPS.push_back(Op{ERASE, o, 0});
    for (int p = 0; p < NP; p++) OPS.push_back(Op{ERASEPEER, 0, p});
    for (int b = 0; b < (int)BLOCKS.size(); b++) OPS.push_back(Op{BLOCK, b, 0});
    for (int par = 0; par < 2; par++) for (int s = 0; s < 3; s++) OPS.push_back(Op{WORK, par, s});
    for (int p = 0; p < NP; p++) OPS.push_back(Op{RECON, 0, p});
    hb::describer() = describe;

    if (!vx::ctx().replay.empty()) {
        std::string hist;
        std::ifstream f(vx::ctx().replay);
        std::string line;
        while (std::getline(f, line)) {
            size_t q = line.find("max_global_latency_score=");
            if (q != std::string::npos) MAXLAT = atoi(line.c_str() + q + 25);
            if (line.empty() || line[0] == '#' || !isdigit((unsigned char)line[0])) continue;
            hist.push_back((char)atoi(line.c_str()));
        }
        printf("replaying %zu operations:\n%s", hist.size(), describe(hist).c_str());
        for (size_t i = 1; i <= hist.size(); i++) { std::string k; replay(hist.substr(0, i), k); }
        printf("replay finished: %d violation(s)\n", vx::rep().violations);
        return vx::finish();
    }

    uint64_t states = 0, transitions = 0;
    bool complete = true, all_fixpoint = true;
    for (unsigned cfg : configs) {
        if (vx::deadline_reached()) { complete = false; break; }
        MAXLAT = cfg;
        hb::Bfs bfs;
        bfs.nops = (int)OPS.size();
        bfs.max_depth = depth;
        bfs.replay = replay;
        std::map<int, int> per;
        bfs.on_new_state = [&](const std::string& h, int d) {
            if (d < 5 || h.empty()) return;
            OpType lt = OPS[(unsigned char)h.back()].t;
            if ((lt != ADD && lt != WORK && lt != RECON) || per[lt]++ >= 1) return;
            std::string s = "[max_global_latency_score=" + std::to_string(cfg) + "] ";
            for (unsigned char c : h) s += op_str(OPS[c]) + "; ";
            E.sample(s);
        };
        bfs.run();
        states += bfs.states;
        transitions += bfs.transitions;
        complete &= bfs.complete;
        all_fixpoint &= bfs.fixpoint;
        std::string ls;
        for (auto v : bfs.level_states) ls += std::to_string(v) + " ";
        std::string pn = "maxlat" + std::to_string(cfg);
        E.set(pn + "_states", bfs.states);
        E.set(pn + "_transitions", bfs.transitions);
        E.set(pn + "_max_depth_completed", (uint64_t)bfs.depth_done);
        E.set(pn + "_fixpoint_reached", bfs.fixpoint ? "true" : "false");
        E.set_str(pn + "_new_states_per_depth", ls);
        if (hb::shared()) { hb::shared()->states = states; hb::shared()->transitions = transitions; }
        if (!bfs.complete) break;
    }
    E.states = states;
    E.transitions = transitions;
    E.traces_validated = transitions;
    E.exhaustive = complete && all_fixpoint;
    E.set("operations_in_alphabet", (uint64_t)OPS.size());
    E.set("small_orphan_weight", (uint64_t)W);
    struct G { const char* n; uint64_t v; bool need; } gates[] = {
        {"limiting steps that evicted", g_evictions, true}, {"evictions caused by the latency limit", g_evict_latency, true}, {"evictions caused by the usage limit", g_evict_usage, true},
        {"evictions with a protected (within-share) peer present", g_protected_peer, true}, {"peer over its share not trimmed (global limits ok again)", g_peer_over_share_not_trimmed, false},
        {"orphan lost with its last announcement by eviction", g_orphan_lost_by_eviction, true}, {"evicted announcement whose orphan survived via another announcer", g_orphan_survives_other_announcer, true},
        {"eviction passed over an older reconsiderable announcement", g_evict_skips_recon, true}, {"evictions hitting several peers", g_multi_peer_evict, false},
        {"EraseForBlock erased something", g_block_erased, true}, {"EraseForBlock erased several orphans", g_block_erased_multi, true},
        {"EraseForPeer kept an orphan shared with another peer", g_peer_erase_keeps_shared, true}, {"limits exceeded after an erase (fewer peers)", g_trim_after_erase, true},
        {"children added to a work set", g_work_added, true}, {"work assigned to 1st announcer", g_work_choice[0], true}, {"work assigned to 2nd announcer", g_work_choice[1], true}, {"work assigned to 3rd announcer", g_work_choice[2], false},
        {"GetTxToReconsider returned a tx", g_recon_got, true}, {"AddTx of an orphan known from another peer", g_add_existing_other_peer, true}, {"oversize orphan rejected", g_oversize_rejected, true},
        {"exactly at a global limit, nothing evicted", g_at_limit_no_evict, true}, {"same-txid twins stored together", g_same_txid_twins, NO > 4}};
    for (auto& g : gates) E.set(std::string("n: ") + g.n, g.v);
    E.rule = "BFS over all histories of {AddTx(orphan, peer), AddTx(oversize), AddAnnouncer(orphan, peer), EraseTx, EraseForPeer, EraseForBlock(4 blocks), AddChildrenToWorkSet(2 parents x 3 rng seeds covering every announcer choice), GetTxToReconsider(peer)} over 3 peers and the orphans listed in the replay header, one search per max_global_latency_score in the maxlatN_* keys (each to the fixpoint of the canonical state space unless stated), reserved_peer_usage = 2 small orphans; states = sum over the searches; "
             "states merged on (the orphanage's announcement table: per peer the announcements in entry order with their reconsider flag, model state); after every call SanityCheck, all queries of the interface vs the model, global limits, and validation of the evicted set against the eviction rules";
    E.assume("behaviour depends on entry sequence numbers only through the order among one peer's announcements; derived caches are validated by SanityCheck and not part of the key");
    E.assume("which announcer AddChildrenToWorkSet picks and which work-set entry GetTxToReconsider returns is left open by the interface: any member is accepted and then adopted by the model");
    for (auto& g : gates)
        if (g.need && g.v == 0 && complete && vx::rep().violations == 0) { printf("HARNESS-ERROR vacuous: never observed '%s'\n", g.n); vx::write_evidence(); return 2; }
    return vx::finish();
}

} // namespace

int main(int argc, char** argv)
{
    vx::init(argc, argv, "C35", "model_checking");
    return hb::guarded(run);
}
