// C31 — Block subsidy follows the 21 million schedule.
// VX-ENUM, exhaustive: every height 0..2^31-1 for every built-in chain's halving interval.
#include <vx/vx.h>
#include <consensus/amount.h>
#include <kernel/chainparams.h>
#include <consensus/params.h>
#include <validation.h>
#include <util/chaintype.h>

static CAmount ref_subsidy(int64_t h, int64_t interval)
{
    int64_t halvings = h / interval;
    if (halvings >= 64) return 0;
    return (CAmount)((uint64_t)(50 * 100000000LL) >> halvings);
}

int main(int argc, char** argv)
{
    vx::init(argc, argv, "C31", "exploration");
    auto& E = vx::ev();
    std::vector<std::pair<std::string, std::unique_ptr<const CChainParams>>> chains;
    chains.emplace_back("main", CChainParams::Main());
    chains.emplace_back("testnet3", CChainParams::TestNet());
    chains.emplace_back("testnet4", CChainParams::TestNet4());
    chains.emplace_back("signet", CChainParams::SigNet({}));
    chains.emplace_back("regtest", CChainParams::RegTest({}));
    std::set<int> intervals;
    vx::Distinct distinct_vals;
    std::string chain_list;
    for (auto& [name, cp] : chains) {
        const Consensus::Params& params = cp->GetConsensus();
        chain_list += name + ":" + std::to_string(params.nSubsidyHalvingInterval) + " ";
        if (!intervals.insert(params.nSubsidyHalvingInterval).second) continue;
        const int64_t I = params.nSubsidyHalvingInterval;
        const uint64_t N = 1ULL << 31; // heights 0 .. INT_MAX
        // chunks aligned so each thread checks monotonicity inside its range; boundaries are checked too.
        std::atomic<uint64_t> bad{0};
        std::mutex mu;
        __int128 total = 0;
        vx::par_for(N, 1 << 22, [&](uint64_t lo, uint64_t hi, unsigned) {
            __int128 sum = 0;
            CAmount prev = lo ? GetBlockSubsidy((int)(lo - 1), params) : 50 * COIN;
            std::set<CAmount> vals;
            for (uint64_t h = lo; h < hi; h++) {
                CAmount v = GetBlockSubsidy((int)h, params);
                CAmount r = ref_subsidy((int64_t)h, I);
                if (v != r || v > prev || v < 0) {
                    if (bad.fetch_add(1) < 3)
                        vx::violation("subsidy-mismatch-" + name, "height=" + std::to_string(h) + " interval=" + std::to_string(I) + " got=" + std::to_string(v) + " want=" + std::to_string(r) + " prev=" + std::to_string(prev),
                                      "height " + std::to_string(h) + "\ninterval " + std::to_string(I));
                }
                if (v != prev || h == lo) vals.insert(v);
                prev = v;
                sum += v;
            }
            std::lock_guard<std::mutex> l(mu);
            total += sum;
            for (auto v : vals) distinct_vals.add((uint64_t)v);
        });
        E.evaluations += N;
        // total over all heights < 21M BTC; also the closed form
        __int128 closed = 0;
        for (int k = 0; k < 64; k++) {
            __int128 lo = (__int128)k * I, hi = (__int128)(k + 1) * I;
            if (lo >= (__int128)N) break;
            if (hi > (__int128)N) hi = N;
            closed += (hi - lo) * ref_subsidy((int64_t)lo, I);
        }
        if (total != closed) vx::violation("subsidy-sum-closedform-" + name, "running sum differs from closed form", "interval " + std::to_string(I));
        if (total >= (__int128)21000000 * COIN) vx::violation("subsidy-sum-21M-" + name, "total subsidy >= 21,000,000 BTC: " + std::to_string((long long)(total / COIN)), "interval " + std::to_string(I));
        if (!MoneyRange((CAmount)total)) vx::violation("subsidy-sum-moneyrange-" + name, "total subsidy outside MoneyRange", "interval " + std::to_string(I));
        E.sample("interval=" + std::to_string(I) + " heights=0..2^31-1 total_sat=" + std::to_string((long long)total) + " subsidy(0)=" + std::to_string(GetBlockSubsidy(0, params)) + " subsidy(I)=" + std::to_string(GetBlockSubsidy((int)I, params)) + " subsidy(64I-1)=" + std::to_string(GetBlockSubsidy((int)std::min<int64_t>(64 * I - 1, INT32_MAX), params)));
    }
    E.distinct_nontrivial = distinct_vals.size();
    E.rule = "every height 0..2^31-1 x every distinct nSubsidyHalvingInterval among the 5 built-in chains (" + chain_list + "); compared with 50e8>>floor(h/I) (0 from halving 64), monotone non-increasing, running sum == closed form < 21e6 BTC; distinct = distinct subsidy values observed";
    E.exhaustive = true;
    E.set("intervals", (uint64_t)intervals.size());
    E.assume("GetBlockSubsidy is a pure function of (height, nSubsidyHalvingInterval)");
    return vx::finish();
}
