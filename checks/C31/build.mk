LINK := full
