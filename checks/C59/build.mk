LINK := full
