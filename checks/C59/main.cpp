// C59 — Inbound eviction never picks a protected peer.
// VX-ENUM on the real SelectNodeToEvict: candidate vectors of n peers = two distinguished candidates A, B whose
// attributes range over full cross products, plus n-2 "filler" peers with graded attribute values laid out so that the
// protected sets (4 by netgroup, 8 by ping, 4 by tx time, 4 by block time) are exactly at their boundaries.
// Oracle (written from the property, independent of the implementation's staging):
//   * the selected peer exists, is inbound and is not noban;
//   * for each key K in {keyed netgroup (4, higher), min ping (8, lower), last tx time (4, higher), last block time
//     (4, higher)}: the selected peer must not be among the best q under EVERY ordering of ties, i.e. at least q other
//     evictable (inbound, non-noban) candidates are at least as good on K;
//   * with at most 20 evictable candidates nobody is selected (4+8+4+4 protected); with more than
//     20 + min(8, #block-relay-only candidates) evictable candidates somebody must be selected.
#include <vx/vx.h>

#include <net_permissions.h>
#include <netaddress.h>
#include <node/connection_types.h>
#include <node/eviction.h>
#include <util/time.h>

#include <algorithm>
#include <optional>

using namespace std::chrono_literals;

namespace {

const NodeClock::time_point T0{NodeClock::time_point{} + 1'700'000'000s};

// ---- attribute levels of a distinguished candidate on the four protected keys
// level 0: better than every filler; 1: strictly inside the quota (pushes the q-th filler out); 2: exactly tied with
// the q-th filler; 3: worst
const uint64_t NG_LEVEL[4] = {2000, 975, 970, 50};
const int64_t PING_LEVEL_MS[4] = {1, 75, 80, 20000};
const int64_t TX_LEVEL[4] = {20000, 8750, 8700, 0};
const int64_t BLK_LEVEL[4] = {20000, 8750, 8700, 0};

enum Elig { NORMAL, NOBAN, OUT_FULL, OUT_BLOCK, OUT_MANUAL, OUT_FEELER, OUT_ADDRFETCH, OUT_PRIVATE, NELIG };
const ConnectionType ELIG_CONN[NELIG] = {ConnectionType::INBOUND, ConnectionType::INBOUND, ConnectionType::OUTBOUND_FULL_RELAY, ConnectionType::BLOCK_RELAY,
                                         ConnectionType::MANUAL, ConnectionType::FEELER, ConnectionType::ADDR_FETCH, ConnectionType::PRIVATE_BROADCAST};
const char* ELIG_NAME[NELIG] = {"inbound", "inbound+noban", "outbound-full-relay", "block-relay", "manual", "feeler", "addr-fetch", "private-broadcast"};
struct NetKind { Network net; bool local; const char* name; };
const NetKind NETS[6] = {{NET_IPV4, false, "ipv4"}, {NET_ONION, false, "onion"}, {NET_I2P, false, "i2p"}, {NET_CJDNS, false, "cjdns"}, {NET_IPV4, true, "localhost"}, {NET_IPV6, false, "ipv6"}};
// connected: 0 = connected longest, 1 = most recently connected, 2 = exactly tied with filler #10
const NodeClock::time_point CONN_LEVEL[3] = {T0 - 1000s, T0 + 1000s, T0 + 490s};

struct Dist { // description of a distinguished candidate
    int ng = 3, ping = 3, tx = 3, blk = 3;
    int elig = NORMAL, net = 0, conn = 0;
    bool prefer_evict = false, relay_txs = true, bloom = false, relevant = true;
};

NodeEvictionCandidate make_dist(NodeId id, const Dist& d)
{
    NodeEvictionCandidate c{};
    c.id = id;
    c.m_connected = CONN_LEVEL[d.conn];
    c.m_min_ping_time = std::chrono::milliseconds{PING_LEVEL_MS[d.ping]};
    c.m_last_block_time = std::chrono::seconds{BLK_LEVEL[d.blk]};
    c.m_last_tx_time = std::chrono::seconds{TX_LEVEL[d.tx]};
    c.fRelevantServices = d.relevant;
    c.m_relay_txs = d.relay_txs;
    c.fBloomFilter = d.bloom;
    c.nKeyedNetGroup = NG_LEVEL[d.ng];
    c.prefer_evict = d.prefer_evict;
    c.m_is_local = NETS[d.net].local;
    c.m_network = NETS[d.net].net;
    c.m_noban = d.elig == NOBAN;
    c.m_conn_type = ELIG_CONN[d.elig];
    return c;
}

// filler i (0-based). mode bit0: fillers 20..27 are block-relay-only peers (relay_txs=false, relevant services) with
// low block times (they fill the "8 block-relay-only" quota); mode bit1: fillers use mixed networks.
NodeEvictionCandidate make_filler(int i, int mode)
{
    NodeEvictionCandidate c{};
    c.id = 100 + i;
    c.m_connected = T0 + std::chrono::seconds{500 - i}; // lower index = connected more recently
    c.m_min_ping_time = 10000ms;
    c.m_last_block_time = 0s;
    c.m_last_tx_time = 0s;
    c.fRelevantServices = true;
    c.m_relay_txs = true;
    c.fBloomFilter = false;
    c.nKeyedNetGroup = 100;
    c.prefer_evict = false;
    c.m_is_local = false;
    c.m_network = NET_IPV4;
    c.m_noban = false;
    c.m_conn_type = ConnectionType::INBOUND;
    if (i < 4) c.nKeyedNetGroup = 1000 - 10 * i;                                  // 1000 990 980 970
    else if (i < 12) c.m_min_ping_time = std::chrono::milliseconds{10 + 10 * (i - 4)}; // 10 .. 80 ms
    else if (i < 16) c.m_last_tx_time = std::chrono::seconds{9000 - 100 * (i - 12)};   // 9000 .. 8700
    else if (i < 20) c.m_last_block_time = std::chrono::seconds{9000 - 100 * (i - 16)}; // 9000 .. 8700
    else {
        c.nKeyedNetGroup = 90 - (i - 20) / 2; // pairs share a netgroup
        if ((mode & 1) && i < 28) { c.m_relay_txs = false; c.m_last_block_time = std::chrono::seconds{100 * (i - 19)}; }
    }
    if (mode & 2) { const NetKind& k = NETS[i % 6]; c.m_network = k.net; c.m_is_local = k.local; }
    return c;
}

std::string cand_str(const NodeEvictionCandidate& c)
{
    char b[256];
    const char* net = c.m_is_local ? "localhost" : c.m_network == NET_IPV4 ? "ipv4" : c.m_network == NET_IPV6 ? "ipv6" : c.m_network == NET_ONION ? "onion" : c.m_network == NET_I2P ? "i2p" : c.m_network == NET_CJDNS ? "cjdns" : "?";
    snprintf(b, sizeof b, "id=%lld netgroup=%llu ping_ms=%lld last_tx=%lld last_block=%lld connected=T0%+lld %s%s conn_type=%d net=%s relay_txs=%d bloom=%d relevant=%d prefer_evict=%d",
             (long long)c.id, (unsigned long long)c.nKeyedNetGroup, (long long)std::chrono::duration_cast<std::chrono::milliseconds>(c.m_min_ping_time).count(),
             (long long)c.m_last_tx_time.count(), (long long)c.m_last_block_time.count(), (long long)std::chrono::duration_cast<std::chrono::seconds>(c.m_connected - T0).count(),
             c.m_noban ? "NOBAN " : "", c.m_conn_type == ConnectionType::INBOUND ? "inbound" : "NOT-INBOUND", (int)c.m_conn_type, net, c.m_relay_txs, c.fBloomFilter, c.fRelevantServices, c.prefer_evict);
    return b;
}
std::string vec_str(const std::vector<NodeEvictionCandidate>& v)
{
    std::string s;
    for (auto& c : v) s += cand_str(c) + "\n";
    return s;
}

// ---- counters
std::atomic<uint64_t> g_eval{0}, g_nonnull{0}, g_null{0}, g_boundary[4], g_flag_decisive_noban{0}, g_flag_decisive_outbound{0}, g_dist_evicted{0}, g_filler_evicted{0},
    g_null_over20{0}, g_strict_prot_present[4];
vx::Distinct g_classes;
void add_class(const char* k)
{
    thread_local std::unordered_set<uint64_t> seen; // avoids the global lock for classes this thread already reported
    uint64_t h = vx::fnv1a(k, strlen(k));
    if (seen.insert(h).second) g_classes.add(h);
}

// The oracle. Returns false on violation.
void check(const std::vector<NodeEvictionCandidate>& v, const std::optional<NodeId>& r, const char* family)
{
    size_t E = 0, P = 0;
    for (auto& c : v) if (!c.m_noban && c.m_conn_type == ConnectionType::INBOUND) { E++; if (!c.m_relay_txs && c.fRelevantServices) P++; }
    g_eval++;
    auto report = [&](const std::string& key, const std::string& what) {
        vx::violation(std::string(family) + ":" + key, what, "# candidates in input order (n=" + std::to_string(v.size()) + "), selected=" + (r ? std::to_string(*r) : std::string("none")) + "\n" + vec_str(v));
    };
    if (!r) {
        g_null++;
        if (E > 20) g_null_over20++;
        if (E > 20 + std::min<size_t>(8, P)) report("nobody-evicted", "no peer selected although " + std::to_string(E) + " evictable candidates exceed every protection quota");
        char k[64];
        snprintf(k, sizeof k, "null n=%zu E=%zu P=%zu", v.size(), E, P);
        add_class(k);
        return;
    }
    g_nonnull++;
    const NodeEvictionCandidate* sel = nullptr;
    for (auto& c : v) if (c.id == *r) sel = &c;
    if (!sel) { report("unknown-id", "selected NodeId is not one of the candidates"); return; }
    if (sel->m_noban) report("noban-evicted", "a peer with the noban permission was selected");
    if (sel->m_conn_type != ConnectionType::INBOUND) report("non-inbound-evicted", "a non-inbound peer was selected");
    if (E <= 20) report("evicted-within-quota", "a peer was selected although only " + std::to_string(E) + " evictable candidates exist (4+8+4+4 are protected)");
    // strictly protected on a key = fewer than q other evictable candidates are at least as good
    size_t cnt[4] = {0, 0, 0, 0};
    for (auto& o : v) {
        if (&o == sel || o.m_noban || o.m_conn_type != ConnectionType::INBOUND) continue;
        if (o.nKeyedNetGroup >= sel->nKeyedNetGroup) cnt[0]++;
        if (o.m_min_ping_time <= sel->m_min_ping_time) cnt[1]++;
        if (o.m_last_tx_time >= sel->m_last_tx_time) cnt[2]++;
        if (o.m_last_block_time >= sel->m_last_block_time) cnt[3]++;
    }
    const size_t Q[4] = {4, 8, 4, 4};
    const char* KN[4] = {"netgroup", "ping", "txtime", "blocktime"};
    for (int k = 0; k < 4; k++) {
        if (cnt[k] < Q[k]) report(std::string("protected-by-") + KN[k], std::string("the selected peer is among the ") + std::to_string(Q[k]) + " best by " + KN[k] + " under every ordering of ties (only " + std::to_string(cnt[k]) + " other evictable candidates are at least as good)");
        if (cnt[k] == Q[k]) g_boundary[k]++;
    }
    (sel->id < 100 ? g_dist_evicted : g_filler_evicted)++;
    char k[128];
    snprintf(k, sizeof k, "n=%zu E=%zu P=%zu c=%zu,%zu,%zu,%zu net=%d loc=%d pe=%d", v.size(), E, P, std::min<size_t>(cnt[0], 5), std::min<size_t>(cnt[1], 9), std::min<size_t>(cnt[2], 5), std::min<size_t>(cnt[3], 5), (int)sel->m_network, sel->m_is_local, sel->prefer_evict);
    add_class(k);
}

std::vector<NodeEvictionCandidate> build(int n, int mode, const Dist* a, const Dist* b, bool reversed)
{
    std::vector<NodeEvictionCandidate> v;
    v.reserve(n);
    if (a && n >= 1) v.push_back(make_dist(1, *a));
    if (b && n >= 2) v.push_back(make_dist(2, *b));
    for (int i = 0; (int)v.size() < n; i++) v.push_back(make_filler(i, mode));
    if (reversed) std::reverse(v.begin(), v.end());
    return v;
}

void eval(int n, int mode, const Dist* a, const Dist* b, bool reversed, const char* family)
{
    auto v = build(n, mode, a, b, reversed);
    auto copy = v;
    auto r = SelectNodeToEvict(std::move(copy));
    check(v, r, family);
    // counterfactual for the noban / non-inbound clauses: would A have been the victim without the flag?
    if (a && a->elig != NORMAL && n >= 21) {
        Dist a2 = *a;
        a2.elig = NORMAL;
        auto v2 = build(n, mode, &a2, b, reversed);
        auto r2 = SelectNodeToEvict(std::move(v2));
        if (r2 && *r2 == 1) (a->elig == NOBAN ? g_flag_decisive_noban : g_flag_decisive_outbound)++;
    }
}

Dist keys_of(unsigned idx256)
{
    Dist d;
    d.ng = idx256 & 3; d.ping = (idx256 >> 2) & 3; d.tx = (idx256 >> 4) & 3; d.blk = (idx256 >> 6) & 3;
    return d;
}

} // namespace

int main(int argc, char** argv)
{
    vx::init(argc, argv, "C59", "exploration");
    auto& E = vx::ev();
    const bool big = vx::thorough();
    bool cut = false;
    auto deadline = [&] { if (vx::deadline_reached()) cut = true; return cut; };

    // ---------------- family 1: key levels x eligibility
    {
        std::vector<Dist> As, Bs;
        for (unsigned k = 0; k < 256; k++)
            for (int el : {NORMAL, NOBAN, OUT_FULL})
                for (int conn = 0; conn < 2; conn++)
                    for (int pe = 0; pe < 2; pe++) { Dist d = keys_of(k); d.elig = el; d.conn = conn; d.prefer_evict = pe; As.push_back(d); }
        std::vector<Dist> Bs_small; // B restricted to levels {best, worst}: used in the quick tier and for n=130
        for (unsigned k = 0; k < 256; k++) {
            const bool extreme = !((k & 3) % 3 || ((k >> 2) & 3) % 3 || ((k >> 4) & 3) % 3 || ((k >> 6) & 3) % 3);
            for (int el : {NORMAL, NOBAN})
                for (int conn = 0; conn < 2; conn++) { Dist d = keys_of(k); d.elig = el; d.conn = conn; if (big) Bs.push_back(d); if (extreme) Bs_small.push_back(d); }
        }
        if (!big) Bs = Bs_small;
        std::vector<int> Ns = {0, 1, 2, 3, 4, 5, 6, 8, 12, 13, 16, 17, 20, 21, 22, 24, 25, 28, 29, 30, 40, 130};
        uint64_t total = 0;
        for (int n : Ns) {
            for (int mode : {0, 1}) {
                if (mode == 1 && n <= 20) continue;
                for (int rev = 0; rev < 2; rev++) {
                    if (rev && !(big || n == 21 || n == 22)) continue;
                    if (rev && n == 130) continue;
                    if (deadline()) break;
                    const std::vector<Dist>& Bset = n >= 100 ? Bs_small : Bs;
                    size_t na = n >= 1 ? As.size() : 1, nb = n >= 2 ? Bset.size() : 1;
                    vx::par_for(na * nb, 2048, [&](uint64_t lo, uint64_t hi, unsigned) {
                        for (uint64_t i = lo; i < hi; i++) {
                            const Dist* a = n >= 1 ? &As[i / nb] : nullptr;
                            const Dist* b = n >= 2 ? &Bset[i % nb] : nullptr;
                            eval(n, mode, a, b, rev, "keys");
                        }
                    });
                    total += na * nb;
                }
            }
        }
        E.set("family_keys_vectors", total);
    }
    // ---------------- family 2: networks / relay flags / connection types, mixed-network fillers
    if (!cut) {
        std::vector<Dist> As, Bs;
        for (unsigned k = 0; k < 16; k++)
            for (int el = 0; el < NELIG; el++)
                for (int net = 0; net < 6; net++)
                    for (int conn = 0; conn < 3; conn++)
                        for (unsigned f = 0; f < 16; f++) {
                            Dist d;
                            d.ng = (k & 1) ? 3 : 0; d.ping = (k & 2) ? 3 : 0; d.tx = (k & 4) ? 3 : 0; d.blk = (k & 8) ? 3 : 0;
                            d.elig = el; d.net = net; d.conn = conn;
                            d.prefer_evict = f & 1; d.relay_txs = f & 2; d.bloom = f & 4; d.relevant = f & 8;
                            As.push_back(d);
                        }
        for (int net = 0; net < 6; net++)
            for (int conn = 0; conn < 3; conn++)
                for (unsigned f = 0; f < (big ? 8u : 2u); f++) { Dist d; d.net = net; d.conn = conn; d.prefer_evict = f & 1; d.relay_txs = !(f & 2); d.relevant = !(f & 4); Bs.push_back(d); }
        std::vector<int> Ns = big ? std::vector<int>{3, 8, 21, 22, 25, 29, 33, 40, 64} : std::vector<int>{21, 25, 40};
        uint64_t total = 0;
        for (int n : Ns) {
            for (int mode : {2, 3}) {
                if (mode == 3 && n <= 20) continue;
                if (deadline()) break;
                size_t na = As.size(), nb = Bs.size();
                vx::par_for(na * nb, 2048, [&](uint64_t lo, uint64_t hi, unsigned) {
                    for (uint64_t i = lo; i < hi; i++) eval(n, mode, &As[i / nb], &Bs[i % nb], false, "nets");
                });
                total += na * nb;
            }
        }
        E.set("family_nets_vectors", total);
    }
    // ---------------- family 3: every input permutation for small n (tie resolution must not matter for the oracle)
    if (!cut) {
        uint64_t total = 0;
        for (int n = 2; n <= (big ? 6 : 5); n++) {
            std::vector<int> perm(n);
            for (int i = 0; i < n; i++) perm[i] = i;
            std::vector<std::vector<int>> perms;
            do perms.push_back(perm); while (std::next_permutation(perm.begin(), perm.end()));
            const unsigned na = 256 * 3, nb = 16 * 2;
            if (deadline()) break;
            vx::par_for((uint64_t)na * nb, 64, [&](uint64_t lo, uint64_t hi, unsigned) {
                for (uint64_t i = lo; i < hi; i++) {
                    Dist a = keys_of((i / nb) % 256);
                    static const int EL3[3] = {NORMAL, NOBAN, OUT_FULL};
                    a.elig = EL3[(i / nb) / 256];
                    unsigned kb = (i % nb) % 16;
                    Dist b;
                    b.ng = (kb & 1) ? 3 : 0; b.ping = (kb & 2) ? 3 : 0; b.tx = (kb & 4) ? 3 : 0; b.blk = (kb & 8) ? 3 : 0;
                    b.elig = ((i % nb) / 16) ? NOBAN : NORMAL;
                    auto base = build(n, 0, &a, &b, false);
                    for (auto& p : perms) {
                        std::vector<NodeEvictionCandidate> v;
                        for (int j : p) v.push_back(base[j]);
                        auto copy = v;
                        auto r = SelectNodeToEvict(std::move(copy));
                        check(v, r, "perm");
                    }
                }
            });
            total += (uint64_t)na * nb * perms.size();
        }
        E.set("family_perm_vectors", total);
    }

    E.evaluations = g_eval.load();
    E.distinct_nontrivial = g_classes.size();
    E.exhaustive = !cut;
    E.set("selected_somebody", g_nonnull.load());
    E.set("selected_nobody", g_null.load());
    E.set("selected_nobody_with_more_than_20_evictable", g_null_over20.load());
    E.set("victim_was_distinguished_candidate", g_dist_evicted.load());
    E.set("victim_was_filler", g_filler_evicted.load());
    E.set("victim_just_outside_netgroup_quota", g_boundary[0].load());
    E.set("victim_just_outside_ping_quota", g_boundary[1].load());
    E.set("victim_just_outside_txtime_quota", g_boundary[2].load());
    E.set("victim_just_outside_blocktime_quota", g_boundary[3].load());
    E.set("noban_flag_decisive", g_flag_decisive_noban.load());
    E.set("non_inbound_decisive", g_flag_decisive_outbound.load());
    E.rule = "cross products: family 'keys' = n in {0..6,8,12,13,16,17,20,21,22,24,25,28,29,30,40,130} x filler mode {plain, with 8 block-relay-only fillers} x input order {as built, reversed} x candidate A (4 levels on each of netgroup/ping/tx time/block time = best, strictly inside the quota, tied with the last protected filler, worst; x {inbound, noban, outbound} x {oldest, youngest} x prefer_evict) x candidate B (same key levels (quick tier and n=130: best/worst only) x {inbound, noban} x {oldest, youngest}); reversed order: thorough all n<130, quick n=21,22; "
             "family 'nets' = mixed-network fillers x A (best/worst keys x 8 connection/permission kinds x 6 network kinds x 3 uptime ranks x prefer_evict/relay_txs/bloom/relevant-services) x B (6 networks x 3 uptime ranks x flags); family 'perm' = all input permutations for n<=5(6). "
             "evaluations = candidate vectors passed to SelectNodeToEvict and checked; distinct_nontrivial = distinct outcome classes (n, evictable count, block-relay-only count, the victim's number of at-least-as-good rivals per key capped just above the quota, its network and prefer_evict) incl. 'nobody' classes";
    E.assume("evictable candidate = inbound and not noban; protection quotas are evaluated among evictable candidates (peers removed first do not use up quota)");
    {
        auto v = build(22, 0, nullptr, nullptr, false);
        auto c = v;
        auto r = SelectNodeToEvict(std::move(c));
        E.sample("n=22 fillers only -> selected " + (r ? std::to_string(*r) : std::string("none")) + "; filler layout: " + cand_str(v[0]) + " | " + cand_str(v[4]) + " | " + cand_str(v[12]) + " | " + cand_str(v[16]) + " | " + cand_str(v[21]));
        Dist a = keys_of(1 | (3 << 2) | (3 << 4) | (3 << 6));
        a.conn = 1;
        auto v2 = build(21, 0, &a, nullptr, false);
        auto c2 = v2;
        auto r2 = SelectNodeToEvict(std::move(c2));
        E.sample("n=21, A strictly 4th by netgroup, youngest -> selected " + (r2 ? std::to_string(*r2) : std::string("none")) + "; A: " + cand_str(v2[0]));
    }
    if (!cut && vx::rep().violations == 0) {
        struct G { const char* n; uint64_t v; } gates[] = {{"somebody selected", g_nonnull}, {"nobody selected", g_null}, {"victim just outside netgroup quota", g_boundary[0]}, {"victim just outside ping quota", g_boundary[1]},
                                                           {"victim just outside tx-time quota", g_boundary[2]}, {"victim just outside block-time quota", g_boundary[3]}, {"noban flag decisive", g_flag_decisive_noban},
                                                           {"non-inbound decisive", g_flag_decisive_outbound}, {"distinguished candidate evicted", g_dist_evicted}, {"filler evicted", g_filler_evicted}};
        for (auto& g : gates) if (g.v == 0) { printf("HARNESS-ERROR vacuous: never observed '%s'\n", g.n); vx::write_evidence(); return 2; }
    }
    return vx::finish();
}
