// C50 — secp256k1 operations agree with the curve's mathematics.
// Layer (b): boundary-scalar alphabet on the real curve, through the node wrappers (CKey, CPubKey, XOnlyPubKey,
// EllSwiftPubKey) and the C API. Every line printed here is recomputed by check.py with the vendored pure-Python
// secp256k1.py / key.py / ellswift.py (RFC6979 ECDSA, BIP340, taproot tweak, ElligatorSwift) and the BIP340 /
// ElligatorSwift CSV vectors. Layer (a) (whole small groups, EXHAUSTIVE_TEST_ORDER) is in exh.c, driven from here.
#include <vx/vx.h>

#include <key.h>
#include <pubkey.h>
#include <secp256k1.h>
#include <secp256k1_ellswift.h>
#include <secp256k1_extrakeys.h>
#include <secp256k1_schnorrsig.h>
#include <uint256.h>

using Bytes = std::vector<unsigned char>;

extern "C" {
// exh.c, compiled twice (orders 13 and 199) with all library symbols static
typedef void (*exh_emit_fn)(const char* line);
int exh13_exh_init(void);
int exh13_exh_section(int section, int lo, int hi, int level, exh_emit_fn emit);
int exh199_exh_init(void);
int exh199_exh_section(int section, int lo, int hi, int level, exh_emit_fn emit);
}

struct Sink {
    std::mutex mu;
    std::vector<std::string> lines;
    uint64_t emitted = 0;
    std::map<std::string, uint64_t> stats;
    std::set<std::string> vkeys;
    void line(std::string s) { std::lock_guard<std::mutex> l(mu); lines.push_back(std::move(s)); }
    void stat(const std::string& k, uint64_t n) { std::lock_guard<std::mutex> l(mu); stats[k] += n; }
    void viol(const std::string& key, const std::string& what)
    {
        std::lock_guard<std::mutex> l(mu);
        if (!vkeys.insert(key).second || vkeys.size() > 40) return;
        printf("V\t%s\t%s\n", key.c_str(), what.c_str());
        fflush(stdout);
    }
    void flush()
    {
        std::lock_guard<std::mutex> l(mu);
        for (auto& s : lines) { fputs(s.c_str(), stdout); fputc('\n', stdout); }
        emitted += lines.size();
        lines.clear();
        fflush(stdout);
    }
    void finish()
    {
        flush();
        for (auto& kv : stats) printf("S\t%s\t%" PRIu64 "\n", kv.first.c_str(), kv.second);
        printf("END\t%" PRIu64 "\n", emitted);
        fflush(stdout);
    }
};
static Sink S;
static std::string u(int64_t v) { return std::to_string(v); }
static std::string hx(const Bytes& b) { return b.empty() ? "-" : vx::hex(b); }
static std::string hx(const unsigned char* p, size_t n) { return n ? vx::hex(p, n) : std::string("-"); }
static std::string J(std::initializer_list<std::string> f)
{
    std::string o;
    for (auto& x : f) { if (!o.empty()) o += '\t'; o += x.empty() ? "-" : x; }
    return o;
}
static Bytes unhex(const std::string& s)
{
    Bytes o;
    auto v = [](char c) { return c <= '9' ? c - '0' : (c | 32) - 'a' + 10; };
    for (size_t i = 0; i + 1 < s.size(); i += 2) o.push_back((unsigned char)(v(s[i]) * 16 + v(s[i + 1])));
    return o;
}
static Bytes patbytes(size_t n, uint8_t seed)
{
    Bytes b(n);
    uint32_t x = 0xABCDEFu + seed * 40503u;
    for (size_t i = 0; i < n; i++) { x = x * 1664525u + 1013904223u; b[i] = (uint8_t)(x >> 24); }
    return b;
}

// ---------------------------------------------------------------- the boundary alphabet (32-byte big endian)
static const char* N_HEX = "fffffffffffffffffffffffffffffffebaaedce6af48a03bbfd25e8cd0364141";
static const char* P_HEX = "fffffffffffffffffffffffffffffffffffffffffffffffffffffffefffffc2f";
static Bytes add_small(const char* hex, int delta)
{
    Bytes b = unhex(hex);
    int carry = delta;
    for (int i = 31; i >= 0 && carry; i--) { int v = b[i] + carry; b[i] = (unsigned char)(v & 0xff); carry = v >> 8; } // arithmetic shift handles negatives
    return b;
}
static Bytes small(uint64_t v) { Bytes b(32, 0); for (int i = 0; i < 8; i++) b[31 - i] = (unsigned char)(v >> (8 * i)); return b; }
static std::vector<Bytes> alphabet(bool big)
{
    std::vector<Bytes> a = {small(0), small(1), small(2), small(3),
                            unhex("7fffffffffffffffffffffffffffffff5d576e7357a4501ddfe92f46681b20a0"), // (n-1)/2
                            unhex("7fffffffffffffffffffffffffffffff5d576e7357a4501ddfe92f46681b20a1"), // (n+1)/2
                            add_small(N_HEX, -2), add_small(N_HEX, -1), add_small(N_HEX, 0), add_small(N_HEX, 1),
                            add_small(P_HEX, -1), add_small(P_HEX, 0), add_small(P_HEX, 1),
                            unhex("8000000000000000000000000000000000000000000000000000000000000000"), Bytes(32, 0xff),
                            patbytes(32, 1), patbytes(32, 2)};
    if (big) {
        a.push_back(unhex("0000000000000000000000000000000100000000000000000000000000000000")); // 2^128
        a.push_back(unhex("7fffffffffffffffffffffffffffffffffffffffffffffffffffffffffffffff"));
        a.push_back(unhex("000000000000000000000000000000014551231950b75fc4402da1732fc9bebf")); // 2^256 - n
        a.push_back(unhex("00000000000000000000000000000000000000000000000000000001000003d1")); // 2^256 - p
        a.push_back(add_small(N_HEX, -3));
        a.push_back(small(4));
        a.push_back(patbytes(32, 3));
    }
    return a;
}

static secp256k1_context* g_ctx;

// DER encodings of (r,s): variant 0 minimal/strict, 1 = extra zero padding on r, 2 = r without the mandatory
// zero byte ("negative"), 3 = extra padding on s
static Bytes der_int(Bytes v, int mode)
{
    while (v.size() > 1 && v[0] == 0) v.erase(v.begin());
    if (mode == 2) { /* leave as is even if the top bit is set */ }
    else if (v[0] & 0x80) v.insert(v.begin(), 0);
    if (mode == 1) v.insert(v.begin(), 0);
    Bytes o = {0x02, (unsigned char)v.size()};
    o.insert(o.end(), v.begin(), v.end());
    return o;
}
static Bytes der_sig(const Bytes& r, const Bytes& s, int variant)
{
    Bytes ri = der_int(r, variant == 1 ? 1 : variant == 2 ? 2 : 0), si = der_int(s, variant == 3 ? 1 : 0);
    Bytes o = {0x30, (unsigned char)(ri.size() + si.size())};
    o.insert(o.end(), ri.begin(), ri.end());
    o.insert(o.end(), si.begin(), si.end());
    return o;
}

struct FixedNonce { const unsigned char* k; };
static int fixed_nonce_fn(unsigned char* nonce32, const unsigned char*, const unsigned char*, const unsigned char*, void* data, unsigned int attempt)
{
    if (attempt > 0) return 0; // no retry: an unusable nonce makes signing fail
    memcpy(nonce32, ((FixedNonce*)data)->k, 32);
    return 1;
}

static void emit_verify(const Bytes& pub, const Bytes& z, const Bytes& r, const Bytes& s, int variant)
{
    Bytes der = der_sig(r, s, variant);
    secp256k1_ecdsa_signature sig;
    secp256k1_pubkey pk;
    int strict = -1;
    if (secp256k1_ec_pubkey_parse(g_ctx, &pk, pub.data(), pub.size()) && secp256k1_ecdsa_signature_parse_der(g_ctx, &sig, der.data(), der.size()))
        strict = secp256k1_ecdsa_verify(g_ctx, &sig, z.data(), &pk);
    CPubKey cpk(pub);
    bool node = cpk.Verify(uint256{z}, der);
    bool lows = CPubKey::CheckLowS(der);
    S.line(J({"VF", hx(pub), hx(z), hx(r), hx(s), u(variant), hx(der), u(strict), u(node), u(lows)}));
}

static void layer_b(bool big)
{
    const auto B = alphabet(big);
    // ---- secret keys / public key derivation / serialization
    std::vector<Bytes> valid_keys;
    for (auto& k : B) {
        CKey ck, cku;
        ck.Set(k.begin(), k.end(), true);
        cku.Set(k.begin(), k.end(), false);
        int capi = secp256k1_ec_seckey_verify(g_ctx, k.data());
        std::string comp = "-", unc = "-", xo = "-", capi_ser = "-";
        int dec_ok = -1, xparity = -1;
        if (ck.IsValid()) {
            valid_keys.push_back(k);
            CPubKey p = ck.GetPubKey(), pu = cku.GetPubKey();
            comp = vx::hex(Bytes(p.begin(), p.end()));
            unc = vx::hex(Bytes(pu.begin(), pu.end()));
            CPubKey d = p;
            dec_ok = d.Decompress() && d == pu;
            XOnlyPubKey x{p};
            xo = vx::hex(Bytes(x.begin(), x.end()));
            if (!ck.VerifyPubKey(p) || !cku.VerifyPubKey(pu)) S.viol("verifypubkey-" + vx::hex(k).substr(48), "CKey::VerifyPubKey rejects its own public key");
        }
        secp256k1_pubkey pk;
        if (secp256k1_ec_pubkey_create(g_ctx, &pk, k.data())) {
            unsigned char out[65]; size_t len = 65;
            secp256k1_ec_pubkey_serialize(g_ctx, out, &len, &pk, SECP256K1_EC_UNCOMPRESSED);
            capi_ser = vx::hex(out, len);
            secp256k1_xonly_pubkey xp;
            secp256k1_xonly_pubkey_from_pubkey(g_ctx, &xp, &xparity, &pk);
        }
        S.line(J({"SK", hx(k), u(ck.IsValid()), u(capi), comp, unc, xo, u(dec_ok), capi_ser, u(xparity)}));
    }
    S.stat("seckeys", B.size());
    // ---- public key parsing: every alphabet value as x, with every header byte; right and wrong y
    uint64_t npp = 0;
    for (auto& x : B) {
        Bytes y_right(32, 0), y_other(32, 0);
        {   // find the y for this x if it is on the curve (via the library: only used to build inputs, Python decides validity)
            Bytes c = {0x02}; c.insert(c.end(), x.begin(), x.end());
            secp256k1_pubkey pk;
            if (secp256k1_ec_pubkey_parse(g_ctx, &pk, c.data(), 33)) {
                unsigned char out[65]; size_t len = 65;
                secp256k1_ec_pubkey_serialize(g_ctx, out, &len, &pk, SECP256K1_EC_UNCOMPRESSED);
                y_right.assign(out + 33, out + 65);
                c[0] = 0x03;
                if (secp256k1_ec_pubkey_parse(g_ctx, &pk, c.data(), 33)) { secp256k1_ec_pubkey_serialize(g_ctx, out, &len, &pk, SECP256K1_EC_UNCOMPRESSED); y_other.assign(out + 33, out + 65); }
            }
        }
        std::vector<Bytes> cands;
        for (unsigned char h : {0x02, 0x03, 0x00, 0x01, 0x04, 0x05}) { Bytes c = {h}; c.insert(c.end(), x.begin(), x.end()); cands.push_back(c); }
        for (unsigned char h : {0x04, 0x06, 0x07, 0x02, 0x05})
            for (const Bytes* y : std::vector<const Bytes*>{&y_right, &y_other, &B[1], &B[11]}) {
                Bytes c = {h}; c.insert(c.end(), x.begin(), x.end()); c.insert(c.end(), y->begin(), y->end());
                cands.push_back(c);
            }
        { Bytes c = {0x02}; c.insert(c.end(), x.begin(), x.end() - 1); cands.push_back(c); } // short
        for (auto& c : cands) {
            CPubKey p(c);
            secp256k1_pubkey pk;
            int capi = secp256k1_ec_pubkey_parse(g_ctx, &pk, c.data(), c.size());
            std::string reser = "-";
            if (capi) { unsigned char out[33]; size_t len = 33; secp256k1_ec_pubkey_serialize(g_ctx, out, &len, &pk, SECP256K1_EC_COMPRESSED); reser = vx::hex(out, 33); }
            S.line(J({"PP", hx(c), u(p.IsValid()), u(p.IsFullyValid()), u(capi), reser}));
            npp++;
        }
        XOnlyPubKey xo{x};
        secp256k1_xonly_pubkey xp;
        S.line(J({"XP", hx(x), u(xo.IsFullyValid()), u(secp256k1_xonly_pubkey_parse(g_ctx, &xp, x.data()))}));
    }
    S.stat("pubkey_parses", npp);
    S.flush();

    // ---- ECDSA: sign with every (key, message, nonce) of the alphabet, verify the result, its high-S twin and DER variants
    std::vector<Bytes> sign_keys = {small(1), small(2), add_small(N_HEX, -1), B[4], B[5], patbytes(32, 1)};
    if (!big) sign_keys.resize(3);
    std::vector<Bytes> msgs = B;
    std::vector<Bytes> sign_msgs = B;
    if (!big) sign_msgs = {B[0], B[1], B[5], B[7], B[8], B[14], B[15]}; // 0, 1, (n+1)/2, n-1, n, 2^256-1, arbitrary
    uint64_t nsg = 0;
    for (auto& d : sign_keys)
        for (auto& z : sign_msgs)
            for (auto& k : B) {
                FixedNonce fn{k.data()};
                secp256k1_ecdsa_signature sig;
                int ok = secp256k1_ecdsa_sign(g_ctx, &sig, z.data(), d.data(), fixed_nonce_fn, &fn);
                unsigned char c64[64] = {0};
                if (ok) secp256k1_ecdsa_signature_serialize_compact(g_ctx, c64, &sig);
                S.line(J({"SG", hx(d), hx(z), hx(k), u(ok), ok ? vx::hex(c64, 32) : "-", ok ? vx::hex(c64 + 32, 32) : "-"}));
                nsg++;
                if (!ok) continue;
                CKey ck; ck.Set(d.begin(), d.end(), true);
                CPubKey p = ck.GetPubKey();
                Bytes pub(p.begin(), p.end()), r(c64, c64 + 32), s(c64 + 32, c64 + 64);
                // high-S twin: n - s
                Bytes nb = unhex(N_HEX), hs(32);
                int borrow = 0;
                for (int i = 31; i >= 0; i--) { int v = (int)nb[i] - s[i] - borrow; borrow = v < 0; hs[i] = (unsigned char)(v & 0xff); }
                for (int variant = 0; variant < 4; variant++) {
                    if (variant == 2 && !(r[0] & 0x80)) continue;
                    emit_verify(pub, z, r, s, variant);
                    if (variant == 0 || variant == 3) emit_verify(pub, z, r, hs, variant);
                }
                // wrong message / wrong key must fail
                Bytes z2 = z; z2[31] ^= 1;
                emit_verify(pub, z2, r, s, 0);
            }
    S.stat("fixed_nonce_signs", nsg);
    // ---- valid signatures with a CHOSEN s (the low-S boundary (n-1)/2 | (n+1)/2, tiny s, s+n): z := s*k - r*d mod n.
    // The scalar arithmetic below only constructs inputs; validity is decided by the Python reference.
    {
        uint64_t nb = 0;
        for (auto& d : {small(1), patbytes(32, 1), add_small(N_HEX, -1)})
            for (auto& k : {small(2), patbytes(32, 2)}) {
                FixedNonce fn{k.data()};
                secp256k1_ecdsa_signature sig0;
                unsigned char c64[64];
                Bytes any = small(5);
                if (!secp256k1_ecdsa_sign(g_ctx, &sig0, any.data(), d.data(), fixed_nonce_fn, &fn)) continue;
                secp256k1_ecdsa_signature_serialize_compact(g_ctx, c64, &sig0);
                Bytes r(c64, c64 + 32);
                CKey ck; ck.Set(d.begin(), d.end(), true);
                CPubKey p = ck.GetPubKey();
                Bytes pub(p.begin(), p.end());
                for (auto& starget : {B[4], B[5], small(1), small(2), small(3), add_small(N_HEX, -1), add_small(N_HEX, -2)}) {
                    Bytes sk = starget, rd = r;
                    if (!secp256k1_ec_seckey_tweak_mul(g_ctx, sk.data(), k.data())) continue;  // s*k
                    if (!secp256k1_ec_seckey_tweak_mul(g_ctx, rd.data(), d.data())) continue;  // r*d
                    if (!secp256k1_ec_seckey_negate(g_ctx, rd.data())) continue;
                    if (!secp256k1_ec_seckey_tweak_add(g_ctx, sk.data(), rd.data())) continue; // z = s*k - r*d
                    const Bytes z = sk;
                    secp256k1_ecdsa_signature sig;
                    int ok = secp256k1_ecdsa_sign(g_ctx, &sig, z.data(), d.data(), fixed_nonce_fn, &fn);
                    if (ok) secp256k1_ecdsa_signature_serialize_compact(g_ctx, c64, &sig);
                    S.line(J({"SG", hx(d), hx(z), hx(k), u(ok), ok ? vx::hex(c64, 32) : "-", ok ? vx::hex(c64 + 32, 32) : "-"}));
                    Bytes nb32 = unhex(N_HEX), twin(32);
                    int borrow = 0;
                    for (int i = 31; i >= 0; i--) { int v = (int)nb32[i] - starget[i] - borrow; borrow = v < 0; twin[i] = (unsigned char)(v & 0xff); }
                    for (int variant : {0, 1, 3}) { emit_verify(pub, z, r, starget, variant); emit_verify(pub, z, r, twin, variant); }
                    if (starget[30] == 0 && starget[0] == 0) emit_verify(pub, z, r, add_small(N_HEX, starget[31]), 0); // s + n: same residue, out of range
                    nb++;
                }
            }
        S.stat("chosen_s_signatures", nb);
    }
    S.flush();
    // ---- ECDSA verification on the (r,s) grid (range checks at 0, n, p, 2^256-1)
    {
        std::vector<Bytes> pubs;
        for (auto& d : {small(1), add_small(N_HEX, -1), patbytes(32, 1)}) {
            CKey ck; ck.Set(d.begin(), d.end(), true);
            CPubKey p = ck.GetPubKey();
            pubs.emplace_back(p.begin(), p.end());
        }
        { CKey ck; Bytes d = small(3); ck.Set(d.begin(), d.end(), false); CPubKey p = ck.GetPubKey(); pubs.emplace_back(p.begin(), p.end());
          Bytes hyb(p.begin(), p.end()); hyb[0] = 6 + (hyb[64] & 1); pubs.push_back(hyb); }
        std::vector<Bytes> zs = {small(0), small(1), add_small(N_HEX, 0), add_small(N_HEX, -1), Bytes(32, 0xff), patbytes(32, 2)};
        if (!big) { zs.resize(2); pubs.erase(pubs.begin() + 1, pubs.begin() + 3); }
        for (auto& pub : pubs) for (auto& z : zs) for (auto& r : B) for (auto& s : B) emit_verify(pub, z, r, s, 0);
        S.flush();
    }
    // ---- RFC6979 signing through CKey::Sign (with and without low-R grinding)
    for (auto& d : valid_keys)
        for (auto& z : msgs)
            for (int grind = 0; grind < 2; grind++) {
                CKey ck; ck.Set(d.begin(), d.end(), true);
                Bytes sig;
                bool ok = ck.Sign(uint256{z}, sig, grind);
                S.line(J({"RS", hx(d), hx(z), u(grind), u(ok), hx(sig)}));
                if (ok && (!ck.GetPubKey().Verify(uint256{z}, sig) || !CPubKey::CheckLowS(sig))) S.viol("cke-sign-selfverify", "CKey::Sign output does not verify / is not low-S");
            }
    S.flush();
    // ---- BIP340: sign with every (key, message, aux, merkle root option), verify grid
    std::vector<Bytes> auxs = {Bytes(32, 0), Bytes(32, 0xff), patbytes(32, 9)};
    std::vector<Bytes> roots = {Bytes{}, Bytes(32, 0), patbytes(32, 8), Bytes(32, 0xff)}; // none, null(=BIP86), value, value
    std::vector<std::pair<Bytes, Bytes>> schnorr_good; // (xonly, sig) with message B index
    for (auto& d : valid_keys)
        for (size_t zi = 0; zi < msgs.size(); zi++)
            for (auto& aux : auxs)
                for (auto& root : roots) {
                    if (!big && (zi % 3) && !root.empty()) continue;
                    CKey ck; ck.Set(d.begin(), d.end(), true);
                    Bytes sig(64);
                    uint256 mr = root.empty() ? uint256{} : uint256{root};
                    bool ok = ck.SignSchnorr(uint256{msgs[zi]}, sig, root.empty() ? nullptr : &mr, uint256{aux});
                    S.line(J({"SS", hx(d), hx(msgs[zi]), hx(aux), root.empty() ? "none" : vx::hex(root), u(ok), ok ? vx::hex(sig) : "-"}));
                }
    S.flush();
    {
        std::vector<Bytes> xs;
        for (auto& d : {small(1), small(3), add_small(N_HEX, -1), patbytes(32, 1)}) {
            CKey ck; ck.Set(d.begin(), d.end(), true);
            XOnlyPubKey x{ck.GetPubKey()};
            xs.emplace_back(x.begin(), x.end());
            // a good signature and single-coordinate substitutions from the alphabet
            for (auto& z : {msgs[1], msgs[14]}) {
                Bytes sig(64);
                ck.SignSchnorr(uint256{z}, sig, nullptr, uint256{});
                auto emit = [&](const Bytes& xk, const Bytes& m, const Bytes& sg) {
                    XOnlyPubKey xp{xk};
                    bool node = xp.VerifySchnorr(uint256{m}, sg);
                    secp256k1_xonly_pubkey cx;
                    int capi = secp256k1_xonly_pubkey_parse(g_ctx, &cx, xk.data()) ? secp256k1_schnorrsig_verify(g_ctx, sg.data(), m.data(), 32, &cx) : -1;
                    S.line(J({"SV", hx(xk), hx(m), hx(sg), u(node), u(capi)}));
                };
                emit(xs.back(), z, sig);
                for (auto& v : B) {
                    Bytes s1 = sig; std::copy(v.begin(), v.end(), s1.begin()); emit(xs.back(), z, s1);       // r := v
                    Bytes s2 = sig; std::copy(v.begin(), v.end(), s2.begin() + 32); emit(xs.back(), z, s2);  // s := v
                    emit(v, z, sig);                                                                          // pubkey := v
                    emit(xs.back(), v, sig);                                                                  // message := v
                }
            }
        }
        for (auto& x : xs) for (auto& r : B) for (auto& s : B) {
            if (!big && &x != &xs[0]) break;
            Bytes sg = r; sg.insert(sg.end(), s.begin(), s.end());
            XOnlyPubKey xp{x};
            bool node = xp.VerifySchnorr(uint256{msgs[2]}, sg);
            S.line(J({"SV", hx(x), hx(msgs[2]), hx(sg), u(node), "-2"}));
        }
        S.flush();
        // ---- taproot tweaks
        for (auto& x : B) {
            for (auto& root : roots) {
                XOnlyPubKey xp{x};
                uint256 mr = root.empty() ? uint256{} : uint256{root};
                auto res = xp.CreateTapTweak(root.empty() ? nullptr : &mr);
                std::string out = "-", par = "-", c_ok = "-", c_flip = "-", c_other = "-";
                if (res) {
                    out = vx::hex(Bytes(res->first.begin(), res->first.end()));
                    par = u(res->second);
                    if (!root.empty()) {
                        c_ok = u(res->first.CheckTapTweak(xp, mr, res->second));
                        c_flip = u(res->first.CheckTapTweak(xp, mr, !res->second));
                        uint256 mr2 = mr; mr2.begin()[0] ^= 1;
                        c_other = u(res->first.CheckTapTweak(xp, mr2, res->second));
                    }
                }
                S.line(J({"TW", hx(x), root.empty() ? "none" : vx::hex(root), u(res.has_value()), out, par, c_ok, c_flip, c_other}));
            }
            // C API tweak_add with every alphabet scalar as tweak (incl. the one that reaches infinity, added below)
            secp256k1_xonly_pubkey cx;
            if (!secp256k1_xonly_pubkey_parse(g_ctx, &cx, x.data())) continue;
            for (auto& t : B) {
                secp256k1_pubkey outp;
                int ok = secp256k1_xonly_pubkey_tweak_add(g_ctx, &outp, &cx, t.data());
                std::string o32 = "-"; int parity = -1, chk = -1, chk_flip = -1;
                if (ok) {
                    secp256k1_xonly_pubkey ox; unsigned char ser[32];
                    secp256k1_xonly_pubkey_from_pubkey(g_ctx, &ox, &parity, &outp);
                    secp256k1_xonly_pubkey_serialize(g_ctx, ser, &ox);
                    o32 = vx::hex(ser, 32);
                    chk = secp256k1_xonly_pubkey_tweak_add_check(g_ctx, ser, parity, &cx, t.data());
                    chk_flip = secp256k1_xonly_pubkey_tweak_add_check(g_ctx, ser, !parity, &cx, t.data());
                }
                S.line(J({"TA", hx(x), hx(t), u(ok), o32, u(parity), u(chk), u(chk_flip)}));
            }
        }
        // secret-key side of the tweak (keypair_xonly_tweak_add, ec_seckey_tweak_add, negate), incl. tweak = n - d (=> zero)
        for (auto& d : valid_keys) {
            std::vector<Bytes> tw = B;
            Bytes nb = unhex(N_HEX), neg(32);
            int borrow = 0;
            for (int i = 31; i >= 0; i--) { int v = (int)nb[i] - d[i] - borrow; borrow = v < 0; neg[i] = (unsigned char)(v & 0xff); }
            tw.push_back(neg); // d + (n-d) = 0; for odd-y keys the x-only tweak negates d first, so d itself is the critical tweak
            tw.push_back(d);
            for (auto& t : tw) {
                secp256k1_keypair kp;
                std::string o1 = "-", o2 = "-";
                int ok1 = 0, ok2 = 0;
                if (secp256k1_keypair_create(g_ctx, &kp, d.data())) {
                    ok1 = secp256k1_keypair_xonly_tweak_add(g_ctx, &kp, t.data());
                    if (ok1) { unsigned char sk[32]; secp256k1_keypair_sec(g_ctx, sk, &kp); o1 = vx::hex(sk, 32); }
                }
                Bytes sk2 = d;
                ok2 = secp256k1_ec_seckey_tweak_add(g_ctx, sk2.data(), t.data());
                if (ok2) o2 = vx::hex(sk2);
                S.line(J({"KT", hx(d), hx(t), u(ok1), o1, u(ok2), o2}));
            }
        }
        S.flush();
    }
    // ---- ElligatorSwift: decode of every (u,t) of the alphabet, create, BIP324 ECDH
    {
        std::vector<Bytes> ells;
        for (auto& uu : B) for (auto& tt : B) {
            Bytes e = uu; e.insert(e.end(), tt.begin(), tt.end());
            EllSwiftPubKey ep{MakeByteSpan(e)};
            CPubKey dec = ep.Decode();
            S.line(J({"ED", hx(e), vx::hex(Bytes(dec.begin(), dec.end()))}));
            if ((&uu - &B[0]) % 3 == 0 && (&tt - &B[0]) % 4 == 1) ells.push_back(e);
        }
        std::vector<Bytes> ents = {Bytes(32, 0), Bytes(32, 0xff), patbytes(32, 20)};
        std::vector<std::pair<Bytes, Bytes>> created; // (d, ell)
        for (auto& d : valid_keys)
            for (auto& ent : ents) {
                CKey ck; ck.Set(d.begin(), d.end(), true);
                EllSwiftPubKey e = ck.EllSwiftCreate(MakeByteSpan(ent));
                Bytes eb(UCharCast(e.data()), UCharCast(e.data()) + 64);
                CPubKey dec = e.Decode();
                if (dec != ck.GetPubKey()) S.viol("ellswift-create-decode", "EllSwiftCreate(key).Decode() != GetPubKey() for key " + vx::hex(d));
                S.line(J({"EC", hx(d), hx(ent), hx(eb)}));
                if (&ent == &ents[2] || &d == &valid_keys[0]) created.emplace_back(d, eb);
            }
        // ECDH: our key x their encoding (boundary encodings and created ones), both roles; symmetry for created pairs
        for (auto& [d, ours] : created) {
            CKey ck; ck.Set(d.begin(), d.end(), true);
            std::vector<Bytes> theirs = ells;
            for (auto& c : created) theirs.push_back(c.second);
            if (!big && theirs.size() > 12) theirs.resize(12);
            for (auto& th : theirs)
                for (int init = 0; init < 2; init++) {
                    ECDHSecret sec = ck.ComputeBIP324ECDHSecret(EllSwiftPubKey{MakeByteSpan(th)}, EllSwiftPubKey{MakeByteSpan(ours)}, init);
                    S.line(J({"EX", hx(d), hx(ours), hx(th), u(init), vx::hex(Bytes(UCharCast(sec.data()), UCharCast(sec.data()) + 32))}));
                }
        }
        for (size_t i = 0; i < created.size(); i++)
            for (size_t j = i + 1; j < created.size() && j < i + 4; j++) {
                CKey a, b; a.Set(created[i].first.begin(), created[i].first.end(), true); b.Set(created[j].first.begin(), created[j].first.end(), true);
                EllSwiftPubKey ea{MakeByteSpan(created[i].second)}, eb{MakeByteSpan(created[j].second)};
                if (a.ComputeBIP324ECDHSecret(eb, ea, true) != b.ComputeBIP324ECDHSecret(ea, eb, false)) S.viol("ecdh-asymmetric", "initiator and responder derive different BIP324 secrets");
                S.stat("ecdh_symmetry_pairs", 1);
            }
        S.flush();
    }
}

// ---- vector files (vendored next to the Python references): run through the node wrappers, compared here
static void vectors()
{
    std::string root = vx::ctx().root + "/ref/test_framework/";
    std::ifstream f(root + "bip340_test_vectors.csv");
    std::string line;
    std::getline(f, line);
    uint64_t n = 0;
    while (std::getline(f, line)) {
        std::vector<std::string> c;
        std::stringstream ss(line);
        std::string tok;
        while (std::getline(ss, tok, ',')) c.push_back(tok);
        if (c.size() < 7) continue;
        Bytes sk = unhex(c[1]), pk = unhex(c[2]), aux = unhex(c[3]), msg = unhex(c[4]), sig = unhex(c[5]);
        bool want = c[6] == "TRUE";
        if (msg.size() != 32 || pk.size() != 32 || sig.size() != 64) continue; // wrappers take 32-byte messages
        bool got = XOnlyPubKey{pk}.VerifySchnorr(uint256{msg}, sig);
        n++;
        if (got != want) S.viol("bip340-vector-" + c[0], "BIP340 verification vector " + c[0] + ": got " + u(got) + " want " + u(want));
        if (sk.size() == 32) {
            CKey k; k.Set(sk.begin(), sk.end(), true);
            Bytes out(64);
            if (!k.SignSchnorr(uint256{msg}, out, nullptr, uint256{aux}) || out != sig) S.viol("bip340-sign-vector-" + c[0], "BIP340 signing vector " + c[0] + " differs");
            XOnlyPubKey kx{k.GetPubKey()};
            if (Bytes(kx.begin(), kx.end()) != pk) S.viol("bip340-pubkey-vector-" + c[0], "public key differs");
        }
    }
    S.stat("bip340_vectors", n);
    std::ifstream g(root + "crypto/ellswift_decode_test_vectors.csv");
    std::getline(g, line);
    uint64_t m = 0;
    while (std::getline(g, line)) {
        auto p1 = line.find(','), p2 = line.find(',', p1 + 1);
        if (p1 == std::string::npos || p2 == std::string::npos) continue;
        Bytes ell = unhex(line.substr(0, p1)), x = unhex(line.substr(p1 + 1, p2 - p1 - 1));
        if (ell.size() != 64 || x.size() != 32) continue;
        CPubKey dec = EllSwiftPubKey{MakeByteSpan(ell)}.Decode();
        m++;
        if (Bytes(dec.begin() + 1, dec.end()) != x) S.viol("ellswift-decode-vector", "vector " + line.substr(0, 20) + "...");
    }
    S.stat("ellswift_decode_vectors", m);
}

static std::atomic<uint64_t> g_exh_lines{0};
static void exh_emit(const char* l) { S.line(l); g_exh_lines++; }

static void layer_a(bool big)
{
    struct Item { int order, section, d; };
    std::vector<Item> items;
    for (int order : {13, 199}) {
        const int N = order;
        if (!(order == 13 ? exh13_exh_init() : exh199_exh_init())) { S.viol("exhaustive-init", "table setup failed"); return; }
        auto all = [&](int section, int lo, int hi) { for (int d = lo; d < hi; d++) items.push_back({order, section, d}); };
        all(0, 0, N + 3);
        all(1, 0, 300 + N - 1);
        if (big || N < 50) all(2, 1, N);
        else for (int d : {1, 2, N / 2, N / 2 + 1, N - 1}) items.push_back({order, 2, d}); // quick: boundary keys x every message x every nonce
        all(4, 0, N + 1);
        all(6, 1, N);
        all(7, 1, N + 256);
        all(8, 1, N);
        if (big || N < 50) { all(3, 1, N); all(5, 1, N); }
        else for (int d : {1, 2, N / 2, N / 2 + 1, N - 1}) { items.push_back({order, 3, d}); items.push_back({order, 5, d}); } // quick: boundary keys only for the big verdict maps
    }
    // cheap sections first, the big verdict maps (3, 5) and the full signing grid (2) last: a deadline cuts only their tail
    std::stable_sort(items.begin(), items.end(), [](const Item& a, const Item& b) {
        auto w = [](const Item& it) { return it.section == 3 ? 3 : it.section == 5 ? 2 : it.section == 2 ? 1 : 0; };
        return w(a) < w(b);
    });
    std::atomic<uint64_t> skipped{0};
    vx::par_for(items.size(), 1, [&](uint64_t lo, uint64_t hi, unsigned) {
        for (uint64_t i = lo; i < hi; i++) {
            if (vx::deadline_reached()) { skipped++; continue; }   // complete work units only; reported as INCOMPLETE
            auto [order, section, d] = items[i];
            int ok = order == 13 ? exh13_exh_section(section, d, d + 1, big, exh_emit) : exh199_exh_section(section, d, d + 1, big, exh_emit);
            if (!ok) S.viol("exhaustive-section", "section " + u(section) + " failed to run");
        }
    });
    S.stat("exhaustive_work_items", items.size());
    S.stat("exhaustive_work_items_skipped_deadline", skipped.load());
    S.flush();
    if (skipped.load()) { printf("M\tINCOMPLETE exhaustive work items skipped at the deadline: %" PRIu64 "\n", skipped.load()); fflush(stdout); }
}

int main(int argc, char** argv)
{
    vx::init(argc, argv, "C50", "exploration");
    const bool big = vx::thorough();
    int rc = 0;
    {
        ECC_Context ecc;
        g_ctx = secp256k1_context_create(SECP256K1_CONTEXT_NONE);
        layer_b(big);
        vectors();
        secp256k1_context_destroy(g_ctx);
    }
    bool skip_exh = false;
    for (auto& a : vx::ctx().args) if (a == "--no-exhaustive") skip_exh = true;
    if (!skip_exh) layer_a(big);
    S.finish();
    return rc;
}
