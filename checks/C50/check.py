#!/usr/bin/env python3
"""C50 consumer: recomputes every line of the C++/C producer.
Layer (b) (real curve, boundary alphabet): vendored test_framework/crypto/secp256k1.py, key.py (RFC6979 ECDSA,
BIP340, taproot tweak), crypto/ellswift.py, v2_p2p.py (BIP324 ECDH). Layer (a) (whole groups of order 13 and 199
built from the real library sources): ref_smallcurve.py."""
import sys, os, subprocess, multiprocessing, functools
sys.path.insert(0, '/verif')
sys.path.insert(0, os.path.dirname(os.path.abspath(__file__)))
from vx.vxpy import Run, ROOT
from test_framework.crypto.secp256k1 import GE, FE, G
from test_framework.crypto.ellswift import xswiftec
from test_framework.key import (TaggedHash, rfc6979_nonce, sign_schnorr, verify_schnorr, tweak_add_privkey, tweak_add_pubkey, compute_xonly_pubkey)
from test_framework.v2_p2p import EncryptedP2PState
import ref_smallcurve as sc

N = GE.ORDER
PF = FE.SIZE
CURVES = {}


def unhex(s):
    return b'' if s == '-' else bytes.fromhex(s)


def I(b):
    return int.from_bytes(b, 'big')


def der_min(r, s):
    def enc(v):
        b = v.to_bytes(max(1, (v.bit_length() + 8) // 8), 'big')
        return bytes([2, len(b)]) + b
    body = enc(r) + enc(s)
    return bytes([0x30, len(body)]) + body


def parse_point(c):
    """SEC1 parsing incl. hybrid (as documented for secp256k1_ec_pubkey_parse). Returns GE or None."""
    if len(c) == 33 and c[0] in (2, 3):
        x = I(c[1:])
        if x >= PF: return None
        p = GE.lift_x(x)
        if p is None: return None
        return -p if c[0] == 3 else p
    if len(c) == 65 and c[0] in (4, 6, 7):
        x, y = I(c[1:33]), I(c[33:])
        if x >= PF or y >= PF: return None
        if (y * y - x * x * x - 7) % PF != 0: return None
        if c[0] == 6 and y & 1: return None
        if c[0] == 7 and not y & 1: return None
        return GE(x, y)
    return None


@functools.lru_cache(maxsize=None)
def ecdsa_math_ok(pub, z, r, s):
    """Textbook ECDSA equation (no low-S rule); r, s already known to be in [1, n-1]."""
    P = parse_point(pub)
    w = pow(s, -1, N)
    R = GE.mul((z * w % N, G), (r * w % N, P))
    return (not R.infinity) and int(R.x) % N == r


def ecdsa_sign_k(d, z, k):
    if not 0 < k < N: return None
    R = k * G
    r = int(R.x) % N
    if r == 0: return None
    s = pow(k, -1, N) * (z + r * d) % N
    if s == 0: return None
    if s > N // 2: s = N - s
    return r, s


def verify_b(f):
    k = f[0]
    if k == 'SK':
        key, valid, capi, comp, unc, xo, dec_ok, capi_ser, xpar = unhex(f[1]), int(f[2]), int(f[3]), f[4], f[5], f[6], int(f[7]), f[8], int(f[9])
        d = I(key)
        want = 0 < d < N
        if bool(valid) != want or bool(capi) != want: return ('seckey-validity', f'key {f[1]}: CKey valid={valid} seckey_verify={capi} want {want}')
        if not want:
            if comp != '-' or capi_ser != '-': return ('pubkey-from-invalid-seckey', f'key {f[1]}')
            return None
        Pt = d * G
        if comp != Pt.to_bytes_compressed().hex() or unc != Pt.to_bytes_uncompressed().hex() or capi_ser != unc: return ('pubkey-derivation', f'key {f[1]}: public key differs from d*G')
        if xo != Pt.to_bytes_xonly().hex() or xpar != (0 if Pt.y.is_even() else 1): return ('xonly-derivation', f'key {f[1]}')
        if dec_ok != 1: return ('decompress', f'key {f[1]}: CPubKey::Decompress of the compressed key != uncompressed key')
        return None
    if k == 'PP':
        c, isvalid, full, capi, reser = unhex(f[1]), int(f[2]), int(f[3]), int(f[4]), f[5]
        shape = (len(c) == 33 and c[0] in (2, 3)) or (len(c) == 65 and c[0] in (4, 6, 7))
        Pt = parse_point(c)
        if bool(isvalid) != shape: return ('cpubkey-isvalid', f'{f[1]}: IsValid={isvalid}, header/length say {shape}')
        if bool(full) != (Pt is not None) or bool(capi) != (Pt is not None):
            return ('pubkey-parse-' + ('accepts-invalid' if Pt is None else 'rejects-valid') + f'-hdr{c[0]:02x}', f'{f[1]}: IsFullyValid={full} ec_pubkey_parse={capi}, reference says {"valid" if Pt else "invalid"}')
        if Pt is not None and reser != Pt.to_bytes_compressed().hex(): return ('pubkey-reserialize', f'{f[1]}')
        return None
    if k == 'XP':
        x, full, capi = I(unhex(f[1])), int(f[2]), int(f[3])
        want = x < PF and GE.lift_x(x) is not None
        if bool(full) != want or bool(capi) != want: return ('xonly-parse', f'x={f[1]}: IsFullyValid={full} xonly_pubkey_parse={capi} want {want}')
        return None
    if k == 'SG':
        d, z, kk, ok = I(unhex(f[1])), I(unhex(f[2])) % N, I(unhex(f[3])), int(f[4])
        want = ecdsa_sign_k(d, z, kk)
        if bool(ok) != (want is not None): return ('ecdsa-sign-nonce-range', f'd={f[1]} z={f[2]} k={f[3]}: ok={ok}, reference {"signs" if want else "fails"}')
        if want and (I(unhex(f[5])), I(unhex(f[6]))) != want: return ('ecdsa-sign-value', f'd={f[1]} z={f[2]} k={f[3]}: (r,s) differs from k^-1(z+rd), low-S normalised')
        return None
    if k == 'VF':
        pub, z, r, s, variant, der, strict, node, lows = unhex(f[1]), I(unhex(f[2])) % N, I(unhex(f[3])), I(unhex(f[4])), int(f[5]), unhex(f[6]), int(f[7]), int(f[8]), int(f[9])
        inrange = 0 < r < N and 0 < s < N
        math_ok = inrange and ecdsa_math_ok(pub, z, r, min(s, N - s))
        want_node = bool(math_ok)
        want_strict = bool(math_ok and s <= N // 2 and variant == 0)
        if variant == 0 and der != der_min(r, s): return ('HARNESS', 'DER encoder mismatch')
        tag = f'r={f[3][:8]}..{f[3][-8:]} s={f[4][:8]}..{f[4][-8:]} z={f[2][-8:]} variant={variant} pub={f[1][:10]}'
        if (strict == 1) != want_strict:
            return ('strict-verify-' + ('accepts' if strict == 1 else 'rejects') + ('-high-s' if inrange and s > N // 2 else ''), f'secp256k1_ecdsa_verify={strict} but reference says {want_strict}: {tag}')
        if bool(node) != want_node:
            return ('cpubkey-verify-' + ('accepts' if node else 'rejects') + ('-high-s' if inrange and s > N // 2 else ''), f'CPubKey::Verify={node} but reference says {want_node}: {tag}')
        if inrange and bool(lows) != (s <= N // 2): return ('checklows', f'CheckLowS={lows}: {tag}')
        return None
    if k == 'RS':
        d, z, grind, ok, sig = unhex(f[1]), unhex(f[2]), int(f[3]), int(f[4]), unhex(f[5])
        counter = 0
        while True:
            extra = b'' if counter == 0 else counter.to_bytes(4, 'little') + bytes(28)
            kk = I(rfc6979_nonce(d + (I(z) % N).to_bytes(32, 'big') + extra))  # RFC 6979 3.2d: bits2octets reduces the hash mod n
            rs = ecdsa_sign_k(I(d), I(z) % N, kk)
            if rs is None: return ('HARNESS', 'RFC6979 retry path needed (not modelled)')
            if not grind or rs[0] < 2**255: break
            counter += 1
        if not ok or sig != der_min(*rs): return ('rfc6979-signature', f'CKey::Sign(d={f[1]}, z={f[2]}, grind={grind}) differs from RFC6979+low-S{"+low-R grinding" if grind else ""} reference')
        return None
    if k == 'SS':
        d, msg, aux, root, ok, sig = unhex(f[1]), unhex(f[2]), unhex(f[3]), f[4], int(f[5]), unhex(f[6])
        key = d
        if root != 'none':
            x, _ = compute_xonly_pubkey(d)
            t = TaggedHash('TapTweak', x + (b'' if root == '00' * 32 else bytes.fromhex(root)))
            key = tweak_add_privkey(d, t)
        want = sign_schnorr(key, msg, aux) if key is not None else None
        if bool(ok) != (want is not None) or (want is not None and sig != want): return ('bip340-sign' + ('-tweaked' if root != 'none' else ''), f'SignSchnorr d={f[1]} msg={f[2]} aux={f[3][:8]} root={root[:8]}')
        return None
    if k == 'SV':
        x, msg, sig, node, capi = unhex(f[1]), unhex(f[2]), unhex(f[3]), int(f[4]), int(f[5])
        Pt = GE.from_bytes_xonly(x) if I(x) < PF else None
        want = Pt is not None and verify_schnorr(x, sig, msg)
        if bool(node) != want: return ('bip340-verify-' + ('accepts' if node else 'rejects'), f'VerifySchnorr={node} want {want}: pk={f[1]} msg={f[2]} sig={f[3]}')
        if capi >= -1 and ((capi == 1) != want or (capi == -1) != (Pt is None)): return ('bip340-verify-capi', f'schnorrsig_verify={capi} want {want}: pk={f[1]} sig={f[3]}')
        return None
    if k == 'TW':
        x, root, ok, out, par, c_ok, c_flip, c_other = unhex(f[1]), f[2], int(f[3]), f[4], f[5], f[6], f[7], f[8]
        want = None
        if I(x) < PF and GE.from_bytes_xonly(x) is not None:
            want = tweak_add_pubkey(x, TaggedHash('TapTweak', x + (b'' if root == 'none' else bytes.fromhex(root))))
        if bool(ok) != (want is not None): return ('taptweak-create', f'x={f[1]} root={root[:8]}: CreateTapTweak ok={ok}')
        if want is not None:
            if out != want[0].hex() or int(par) != int(want[1]): return ('taptweak-value', f'x={f[1]} root={root[:8]}: tweaked key/parity differ')
            if root != 'none' and (c_ok, c_flip, c_other) != ('1', '0', '0'): return ('taptweak-check-parity' if c_flip != '0' else 'taptweak-check', f'x={f[1]} root={root[:8]}: CheckTapTweak right/flipped-parity/other-root = {c_ok}/{c_flip}/{c_other}')
        return None
    if k == 'TA':
        x, t, ok, out, par, chk, chkf = unhex(f[1]), unhex(f[2]), int(f[3]), f[4], int(f[5]), int(f[6]), int(f[7])
        want = tweak_add_pubkey(x, t)
        if bool(ok) != (want is not None): return ('xonly-tweak-add-range', f'x={f[1]} t={f[2]}: ok={ok}')
        if want is not None:
            if out != want[0].hex() or par != int(want[1]): return ('xonly-tweak-add-value', f'x={f[1]} t={f[2]}')
            if chk != 1 or chkf != 0: return ('xonly-tweak-add-check-parity' if chkf else 'xonly-tweak-add-check', f'x={f[1]} t={f[2]}: check={chk} flipped={chkf}')
        return None
    if k == 'KT':
        d, t, ok1, o1, ok2, o2 = unhex(f[1]), unhex(f[2]), int(f[3]), f[4], int(f[5]), f[6]
        w1 = tweak_add_privkey(d, t)
        if bool(ok1) != (w1 is not None) or (w1 is not None and o1 != w1.hex()): return ('keypair-xonly-tweak', f'd={f[1]} t={f[2]}')
        ti = I(t)
        w2 = None if ti >= N or (I(d) + ti) % N == 0 else ((I(d) + ti) % N).to_bytes(32, 'big')
        if bool(ok2) != (w2 is not None) or (w2 is not None and o2 != w2.hex()): return ('seckey-tweak-add', f'd={f[1]} t={f[2]}')
        return None
    if k == 'ED':
        e, dec = unhex(f[1]), unhex(f[2])
        x = xswiftec(FE(I(e[:32])), FE(I(e[32:])))
        want = bytes([3 if (I(e[32:]) % PF) & 1 else 2]) + x.to_bytes()
        if dec != want: return ('ellswift-decode', f'ellswift {f[1]}: decoded {f[2]} want {want.hex()}')
        return None
    if k == 'EC':
        d, ell = I(unhex(f[1])), unhex(f[3])
        if xswiftec(FE(I(ell[:32])), FE(I(ell[32:]))) != (d * G).x: return ('ellswift-create', f'd={f[1]} ent={f[2][:8]}: encoding does not decode to d*G')
        return None
    if k == 'EX':
        d, ours, theirs, init, sec = unhex(f[1]), unhex(f[2]), unhex(f[3]), int(f[4]), unhex(f[5])
        want = EncryptedP2PState.v2_ecdh(d, theirs, ours, bool(init))
        if sec != want: return ('bip324-ecdh', f'd={f[1]} theirs={f[3][:16]}.. initiator={init}')
        return None
    return ('HARNESS', 'unknown kind ' + k)


def verify_a(f):
    k, C = f[0], CURVES[int(f[1])]
    n = C.n
    if k == 'EP':
        sk, okv, ok = I(unhex(f[2])), int(f[3]), int(f[4])
        want = 0 < sk < n
        if bool(okv) != want or bool(ok) != want: return (f'small{n}-seckey-range', f'seckey {sk}: verify={okv} create={ok}')
        if want:
            Pt = C.pts[sk]
            if f[5] != C.ser(Pt).hex() or f[6] != C.ser(Pt, False).hex() or I(unhex(f[7])) != Pt[0] or int(f[8]) != (Pt[1] & 1): return (f'small{n}-pubkey', f'seckey {sk}: public key != {sk}*G')
        return None
    if k == 'EQ':
        c, ok, okx = unhex(f[2]), int(f[3]), int(f[4])
        x = I(c[1:])
        Pt = C.lift_x(x)
        good = Pt is not None and C.in_group(Pt)
        if bool(ok) != good or bool(okx) != good: return (f'small{n}-parse', f'{f[2]}: parse={ok} xonly_parse={okx}, reference: {"group element" if good else "not in the group"}')
        if good:
            if c[0] == 3: Pt = sc.neg(Pt)
            if f[5] != C.ser(Pt, False).hex(): return (f'small{n}-decompress', f'{f[2]}')
        return None
    if k == 'ES':
        d, m, res = int(f[2]), I(unhex(f[3])) % n, f[4].split(',')[:-1]
        if len(res) != n + 1: return ('HARNESS', 'ES arity')
        for kk, tok in enumerate(res):
            want = C.ecdsa_sign(d, m, kk)
            got = None if tok == 'x' else tuple(int(v) for v in tok.split(':'))
            if got != want: return (f'small{n}-ecdsa-sign', f'd={d} m={m} k={kk}: got {got} want {want}')
        return None
    if k == 'EW':
        d, m, bits = int(f[2]), int(f[3]), f[4]
        if len(bits) != (n + 1) ** 2: return ('HARNESS', 'EW arity')
        i = 0
        for r in range(n + 1):
            for s in range(n + 1):
                if (bits[i] == '1') != C.ecdsa_verify(d, m, r, s): return (f'small{n}-ecdsa-verify-' + ('accepts' if bits[i] == '1' else 'rejects'), f'pubkey {d}*G m={m} r={r} s={s}: library says {bits[i]}')
                i += 1
        return None
    if k == 'EH':
        d = int(f[2])
        if f[3] == '-':
            return None if not 0 < d < n else (f'small{n}-keypair', f'keypair_create failed for {d}')
        msg, aux, ok, sig = unhex(f[3]), unhex(f[4]), int(f[5]), unhex(f[6])
        want = C.schnorr_sign(d, msg, aux)
        if bool(ok) != (want is not None) or (want is not None and sig != want): return (f'small{n}-schnorr-sign', f'd={d} msg={f[3][:8]} aux={f[4][:8]}')
        return None
    if k == 'EV':
        px, msg, bits = I(unhex(f[2])), unhex(f[3]), f[4]
        cands = [C.pts[kk][0] for kk in range(1, n)] + list(range(0, 6))
        if len(bits) != len(cands) * (n + 1): return ('HARNESS', 'EV arity')
        Pt = C.lift_x(px)
        dpub = C.index.get(Pt) if Pt is not None else None
        i = 0
        for rx in cands:
            # BIP340 verification for every s at once: R = s*G - e*P must have x == rx and even y
            e = I(sc.tagged('BIP0340/challenge', sc.b32(rx) + sc.b32(px) + msg)) % n
            for s in range(n + 1):
                want = False
                if dpub is not None and rx < sc.P and s < n:
                    R = C.pts[(s - e * dpub) % n]
                    want = R is not None and R[1] % 2 == 0 and R[0] == rx
                if (bits[i] == '1') != want: return (f'small{n}-schnorr-verify-' + ('accepts' if bits[i] == '1' else 'rejects'), f'pk x={f[2][:16]} rx={rx:x} s={s}')
                i += 1
        if C.schnorr_verify(px, msg, cands[0], 1) != (bits[1] == '1'): return ('HARNESS', 'EV fast path disagrees with ref_smallcurve.schnorr_verify')
        return None
    if k == 'ET':
        d, res = int(f[2]), f[4].split(',')[:-1]
        if len(res) != n + 2: return ('HARNESS', 'ET arity')
        for t, tok in enumerate(res):
            want = C.xonly_tweak(d, t)
            parts = tok.split(':')
            if (parts[0] == 'x') != (want is None): return (f'small{n}-tweak-range', f'd={d} t={t}: {tok}')
            if want is None:
                if int(parts[1]) != -1: return (f'small{n}-keypair-tweak-range', f'd={d} t={t}')
                continue
            if I(bytes.fromhex(parts[0])) != want[0] or int(parts[1]) != want[1]: return (f'small{n}-tweak-value', f'd={d} t={t}')
            if parts[2] != '1' or parts[3] != '0': return (f'small{n}-tweak-check' + ('-parity' if parts[3] != '0' else ''), f'd={d} t={t}: check={parts[2]} flipped={parts[3]}')
            if int(parts[4]) != want[2]: return (f'small{n}-keypair-tweak', f'd={d} t={t}: seckey {parts[4]} want {want[2]}')
        return None
    if k == 'EL':
        d = int(f[2])
        if f[3] == '-': return (f'small{n}-ellswift-create', f'd={d} failed')
        ell, dec = unhex(f[3]), unhex(f[4])
        x = C.xswiftec(I(ell[:32]), I(ell[32:]))
        want = bytes([3 if (I(ell[32:]) % sc.P) & 1 else 2]) + x.to_bytes(32, 'big')
        if dec != want: return (f'small{n}-ellswift-decode', f'ellswift {f[3]}')
        if d > 0 and f[5] != dec.hex(): return (f'small{n}-ellswift-roundtrip', f'd={d}: create/decode != {d}*G')
        return None
    if k == 'EZ':
        d = int(f[2])
        if f[3] == '-': return (f'small{n}-ellswift-create', f'd={d} failed')
        res = f[3].split(',')[:-1]
        if len(res) != n - 1: return ('HARNESS', 'EZ arity')
        for e, tok in enumerate(res, start=1):
            if tok == 'x': return (f'small{n}-ellswift-xdh-fails', f'd={d} e={e}')
            xs, same = tok.split(':')
            want = C.pts[d * e % n][0]          # x((d*e) G): both parties must arrive at it
            if int(xs, 16) != want: return (f'small{n}-ellswift-xdh', f'd={d} e={e}: shared x {xs} want {want:064x}')
            if same != '1': return (f'small{n}-ellswift-xdh-party', f'd={d} e={e}: party A and party B computations differ')
        return None
    return ('HARNESS', 'unknown kind ' + k)


def verify(line):
    f = line.split('\t')
    try:
        return verify_a(f) if f[0][0] == 'E' and len(f[0]) == 2 and f[0] not in ('ED', 'EC', 'EX') else verify_b(f)
    except Exception as e:
        return ('HARNESS', f'{type(e).__name__}: {e} in line {line[:140]}')


def verify_batch(lines):
    out = []
    for l in lines:
        r = verify(l)
        if r is not None: out.append((r[0], r[1], l))
    return out


def replay(run):
    """Best effort: re-judge the recorded producer line(s) with the reference (the implementation side is the recorded value)."""
    curves = {}
    lines = [l for l in open(run.replay).read().split('\n') if l and not l.startswith('#')]
    for l in lines:
        if l.startswith('EG\t'):
            f = l.split('\t'); curves[int(f[1])] = (int(f[2]), int(f[3], 16), int(f[4], 16))
    init_worker(curves)
    for l in lines:
        if l.startswith('EG\t'): continue
        print('case     :', l[:300])
        print('reference:', verify(l) or 'agrees with the recorded implementation output')
    return 0


def init_worker(curves):
    for n, (b, gx, gy) in curves.items():
        CURVES[n] = sc.Curve(n, b, gx, gy)


def main():
    run = Run('C50', 'exploration')
    if run.replay:
        return replay(run)
    ncpu = int(os.environ.get('VERIF_JOBS', '0') or 0) or os.cpu_count() or 4
    p = subprocess.run([run.harness, '--tier', run.tier], stdout=subprocess.PIPE, text=True, env=dict(os.environ, VERIF_DEADLINE_S=str(0.5 * run.deadline)))
    cases, stats, end, incomplete, curves = [], {}, None, False, {}
    for line in p.stdout.splitlines():
        if not line: continue
        tag = line.split('\t', 1)[0]
        if tag == 'V':
            _, key, what = line.split('\t', 2)
            run.violation(key, what, what)
        elif tag == 'S':
            _, name, n = line.split('\t'); stats[name] = int(n)
        elif tag == 'M':
            if 'INCOMPLETE' in line: incomplete = True
            else: print('HARNESS-ERROR property=C50', line); return 2
        elif tag == 'END': end = int(line.split('\t')[1])
        else:
            cases.append(line)
            if tag == 'EG':
                f = line.split('\t'); curves[int(f[1])] = (int(f[2]), int(f[3], 16), int(f[4], 16))
    if p.returncode != 0 or end != len(cases):
        print(f'HARNESS-ERROR property=C50 producer rc={p.returncode} END={end} received={len(cases)}')
        return 2
    try:
        init_worker(curves)   # validates the generators (on curve, order n)
    except AssertionError as e:
        run.violation('small-curve-generator', f'generator constants of the exhaustive-test group are inconsistent: {e}', str(curves))
    work = [c for c in cases if not c.startswith('EG\t')]
    work.sort(key=lambda l: (-len(l), l))   # longest first; total order so that samples and batches are reproducible
    heavy = [c for c in work if len(c) > 3000]
    light = [c for c in work if len(c) <= 3000]
    batches = [[c] for c in heavy] + [light[i:i + 50] for i in range(0, len(light), 50)]
    done = 0
    with multiprocessing.Pool(ncpu, initializer=init_worker, initargs=(curves,)) as pool:
        for res in pool.imap_unordered(verify_batch, batches, chunksize=1):
            done += 1
            if run.deadline_reached():
                incomplete = True; pool.terminate(); break
            for key, what, raw in res:
                if key == 'HARNESS':
                    print('HARNESS-ERROR property=C50', what); return 2
                eg = [c for c in cases if c.startswith('EG\t')] if raw[0] == 'E' and raw[:2] not in ('ED', 'EC', 'EX') else []
                run.violation(key, what, '\n'.join(eg + [raw]) + '\n# ' + what)
    kinds = {}
    evals = 0
    for c in work:
        f = c.split('\t', 2)
        kk = f[0] + (f[1] if f[0][0] == 'E' and f[0] not in ('ED', 'EC', 'EX') else '')
        kinds[kk] = kinds.get(kk, 0) + 1
        # aggregated lines carry one verdict per character / list entry
        evals += len(c.rsplit('\t', 1)[1]) if f[0] in ('EW', 'EV') else (c.count(',') if f[0] in ('ES', 'ET', 'EZ') else 1)
        run.distinct.add(c.rsplit('\t', 1)[0] if f[0] in ('EW', 'EV', 'ES', 'ET', 'EZ') else c)
    run.evaluations = evals
    run.extra['case_kinds'] = dict(sorted(kinds.items()))
    run.extra['reference_batches_completed'] = f'{done}/{len(batches)}'
    run.extra['cpp_side'] = stats
    need = ['SK', 'PP', 'XP', 'SG', 'VF', 'RS', 'SS', 'SV', 'TW', 'TA', 'KT', 'ED', 'EC', 'EX'] + [k + str(n) for n in (13, 199) for k in ('EP', 'EQ', 'ES', 'EW', 'EH', 'EV', 'ET', 'EL', 'EZ')]
    missing = [k for k in need if not kinds.get(k)]
    if stats.get('bip340_vectors', 0) < 10 or stats.get('ellswift_decode_vectors', 0) < 10: missing.append('vector files')
    if missing and not run.violations and not incomplete:
        print('HARNESS-ERROR property=C50 vacuous: missing', missing); return 2
    for c in (work[-1], work[len(work) // 2]):
        run.sample(c[:200])
    run.assumptions.append('layer (b) enumerates the boundary alphabet {0,1,2,3,(n-1)/2,(n+1)/2,n-2..n+1,p-1..p+1,2^255,2^256-1, two fixed arbitrary values} (thorough: +7 values) for keys, nonces, messages, r, s, tweaks, x coordinates, ElligatorSwift (u,t); generic 256-bit values are not enumerated')
    run.assumptions.append('layer (a) proves the group-law / signature code paths for the whole groups of order 13 and 199 of the library\'s exhaustive-test curves (scalar arithmetic there is the scalar_low implementation, not the 256-bit one)')
    rule = ('(b) real curve: every alphabet value as secret key, public-key x (all header bytes, right/wrong y, hybrid), ECDSA (key x message x nonce) with fixed nonces and RFC6979 through CKey::Sign, '
            'verification of every produced signature, its high-S twin, DER variants and the full (r,s) grid through secp256k1_ecdsa_verify and CPubKey::Verify, BIP340 sign/verify grids, taproot and raw tweaks, '
            'ElligatorSwift decode of every (u,t), create, BIP324 ECDH; (a) groups of order 13 and 199: every secret key, every (key,message,nonce) signature, every (r,s) verdict '
            '(order 199 quick: boundary keys x 2 messages; thorough: all keys x 5 messages), BIP340 sign and (R.x,s) verdict maps, every x-only tweak, ElligatorSwift create/decode and x-only ECDH between every pair of keys. '
            'evaluations = individual verdicts/values compared with the reference; distinct = distinct case descriptors')
    return run.finish(rule=rule, exhaustive=not incomplete)


if __name__ == '__main__':
    sys.exit(main())
