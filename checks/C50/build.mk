LINK := small
# layer (a): the library sources compiled as one unit for tiny groups (like tests_exhaustive.c), all global symbols
# renamed so the objects can be linked next to the real libsecp256k1.a
.DEFAULT_GOAL := all
EXH_CFLAGS := -O2 -g0 -std=c99 -w -I$(REPO)/src/secp256k1/src -I$(REPO)/src/secp256k1 -I$(REPO)/src/secp256k1/include \
   -DECMULT_WINDOW_SIZE=15 -DENABLE_MODULE_ELLSWIFT=1 -DENABLE_MODULE_EXTRAKEYS=1 -DENABLE_MODULE_SCHNORRSIG=1 -DENABLE_MODULE_RECOVERY=1 \
   -DSECP256K1_NO_API_VISIBILITY_ATTRIBUTES
EXH_DEPS := $(SRC)/exh.c $(wildcard $(REPO)/src/secp256k1/src/*.h $(REPO)/src/secp256k1/src/*.c $(REPO)/src/secp256k1/src/modules/*/*.h $(REPO)/src/secp256k1/include/*.h)
$(OUT)/exh%.o: $(EXH_DEPS)
	@mkdir -p $(OUT)
	gcc $(EXH_CFLAGS) -DEXHAUSTIVE_TEST_ORDER=$* -c $(SRC)/exh.c -o $(OUT)/exh$*.raw.o
	nm -g --defined-only $(OUT)/exh$*.raw.o | awk '{print $$3 " exh$*_" $$3}' > $(OUT)/exh$*.syms
	objcopy --redefine-syms=$(OUT)/exh$*.syms $(OUT)/exh$*.raw.o $@
LDEXTRA += $(OUT)/exh13.o $(OUT)/exh199.o
$(OUT)/harness: $(OUT)/exh13.o $(OUT)/exh199.o
