"""Reference for libsecp256k1's exhaustive-test curves: y^2 = x^3 + b over the secp256k1 field, generator of a tiny
prime-order subgroup (n = 13 or 199). Written from the textbook formulas / BIP340 / the SwiftEC paper formulas as used
in BIP324; independent of the C test's internal reference (src/tests_exhaustive.c). Scalars are reduced mod n exactly
where the real algorithms reduce mod the group order."""
import hashlib

P = 2**256 - 2**32 - 977


def inv(a, m=P):
    return pow(a, -1, m)


def fsqrt(a):
    a %= P
    r = pow(a, (P + 1) // 4, P)
    return r if r * r % P == a else None


def add(p1, p2):
    """Affine addition on y^2 = x^3 + b (a = 0); None is the point at infinity."""
    if p1 is None: return p2
    if p2 is None: return p1
    x1, y1 = p1
    x2, y2 = p2
    if x1 == x2:
        if (y1 + y2) % P == 0: return None
        lam = 3 * x1 * x1 * inv(2 * y1) % P
    else:
        lam = (y2 - y1) * inv(x2 - x1) % P
    x3 = (lam * lam - x1 - x2) % P
    return (x3, (lam * (x1 - x3) - y1) % P)


def neg(p):
    return None if p is None else (p[0], (-p[1]) % P)


def mul(k, p):
    r = None
    while k:
        if k & 1: r = add(r, p)
        p = add(p, p)
        k >>= 1
    return r


def tagged(tag, data):
    t = hashlib.sha256(tag.encode()).digest()
    return hashlib.sha256(t + t + data).digest()


def b32(v):
    return v.to_bytes(32, 'big')


class Curve:
    def __init__(self, n, b, gx, gy):
        self.n, self.b, self.G = n, b, (gx, gy)
        assert gy * gy % P == (gx**3 + b) % P, 'generator not on the curve'
        self.pts = [None]
        for _ in range(1, n):
            self.pts.append(add(self.pts[-1], self.G))
        assert add(self.pts[-1], self.G) is None, 'generator does not have order n'
        assert len(set(self.pts[1:])) == n - 1
        self.index = {pt: k for k, pt in enumerate(self.pts)}
        self.minus3_sqrt = fsqrt(-3)

    def on_curve(self, x, y):
        return x < P and y < P and y * y % P == (x**3 + self.b) % P

    def lift_x(self, x):
        """Point with this x and even y, on the curve (any order) or None."""
        if x >= P: return None
        y = fsqrt(x**3 + self.b)
        if y is None: return None
        return (x, y if y % 2 == 0 else P - y)

    def in_group(self, pt):
        return pt in self.index

    def ser(self, pt, compressed=True):
        if compressed: return bytes([2 + (pt[1] & 1)]) + b32(pt[0])
        return b'\x04' + b32(pt[0]) + b32(pt[1])

    # ---- ECDSA with an explicit nonce (what secp256k1_ecdsa_sign computes for a nonce function returning k)
    def ecdsa_sign(self, d, m, k):
        n = self.n
        if not 0 < k < n: return None
        r = self.pts[k][0] % n
        if r == 0: return None
        s = inv(k, n) * (m + r * d) % n
        if s == 0: return None
        if s > n // 2: s = n - s
        return (r, s)

    def ecdsa_verify(self, d_pub, m, r, s, strict=True):
        """Verdict for public key d_pub*G. strict = the library's rule: only low-S signatures are valid."""
        n = self.n
        if not (0 < r < n and 0 < s < n): return False
        if strict and s > n // 2: return False
        w = inv(s, n)
        R = self.pts[(m * w + r * w * d_pub) % n]
        return R is not None and R[0] % n == r

    # ---- BIP340 with group order n (hashes are the real tagged SHA256, reduced mod n)
    def schnorr_sign(self, d, msg, aux):
        n = self.n
        if not 0 < d < n: return None
        Pt = self.pts[d]
        if Pt[1] & 1: d = n - d
        t = bytes(a ^ b for a, b in zip(b32(d), tagged('BIP0340/aux', aux)))
        k0 = int.from_bytes(tagged('BIP0340/nonce', t + b32(Pt[0]) + msg), 'big') % n
        if k0 == 0: return None
        R = self.pts[k0]
        k = k0 if R[1] % 2 == 0 else n - k0
        e = int.from_bytes(tagged('BIP0340/challenge', b32(R[0]) + b32(Pt[0]) + msg), 'big') % n
        return b32(R[0]) + b32((k + e * d) % n)

    def schnorr_verify(self, px, msg, rx, s):
        """px: x-only public key of a group element (int), rx: 32-byte value as int, s: int."""
        n = self.n
        Pt = self.lift_x(px)
        if Pt is None or not self.in_group(Pt): return False
        if rx >= P or s >= n: return False
        e = int.from_bytes(tagged('BIP0340/challenge', b32(rx) + b32(px) + msg), 'big') % n
        R = self.pts[(s - e * self.index[Pt]) % n]
        return R is not None and R[1] % 2 == 0 and R[0] == rx

    # ---- x-only tweak: (x-only key of d*G) + t*G
    def xonly_tweak(self, d, t):
        """Returns (x, parity, tweaked secret) or None."""
        n = self.n
        if t >= n: return None
        if self.pts[d][1] & 1: d = n - d
        q = (d + t) % n
        if q == 0: return None
        Q = self.pts[q]
        return (Q[0], Q[1] & 1, q)

    # ---- SwiftEC decoding for curve constant b
    def xswiftec(self, u, t):
        u %= P; t %= P
        if u == 0: u = 1
        if t == 0: t = 1
        if (u**3 + t**2 + self.b) % P == 0: t = 2 * t % P
        X = (u**3 + self.b - t**2) * inv(2 * t) % P
        Y = (X + t) * inv(self.minus3_sqrt * u) % P
        for f in (lambda: (u + 4 * Y * Y) % P, lambda: (-X * inv(Y) - u) * inv(2) % P, lambda: (X * inv(Y) - u) * inv(2) % P):
            x = f()
            if fsqrt(x**3 + self.b) is not None:
                return x
        raise AssertionError('xswiftec: no valid x')
