/* C50 layer (a): the real libsecp256k1 sources compiled as one unit for a tiny group (EXHAUSTIVE_TEST_ORDER = 13 or
 * 199, curve y^2 = x^3 + B over the real field, exactly like the library's own tests_exhaustive.c does), driven
 * through the PUBLIC API over the whole group. Every result is printed and recomputed by ref_smallcurve.py, which is
 * independent of the C test's internal reference. Built twice by build.mk; all global symbols of the object are
 * renamed with an exh<N>_ prefix (objcopy) so that it can live next to the real library in one executable. */
#include <stdio.h>
#include <stdlib.h>
#include <string.h>

#ifndef EXHAUSTIVE_TEST_ORDER
#error "EXHAUSTIVE_TEST_ORDER must be defined"
#endif
#include "secp256k1.c"
#include "../include/secp256k1.h"
#include "ecmult_compute_table_impl.h"
#include "ecmult_gen_compute_table_impl.h"

#define N EXHAUSTIVE_TEST_ORDER
typedef void (*exh_emit_fn)(const char* line);

static void b32(unsigned char* o, unsigned long v)
{
    memset(o, 0, 32);
    o[28] = (unsigned char)(v >> 24); o[29] = (unsigned char)(v >> 16); o[30] = (unsigned char)(v >> 8); o[31] = (unsigned char)v;
}
static char* hexs(char* o, const unsigned char* p, size_t n)
{
    static const char* d = "0123456789abcdef";
    size_t i;
    for (i = 0; i < n; i++) { *o++ = d[p[i] >> 4]; *o++ = d[p[i] & 15]; }
    *o = 0;
    return o;
}
static unsigned long small_of(const unsigned char* p) /* value of a 32-byte big endian number known to be < 2^32 */
{
    return ((unsigned long)p[28] << 24) | ((unsigned long)p[29] << 16) | ((unsigned long)p[30] << 8) | p[31];
}

int exh_order(void) { return N; }

int exh_init(void)
{
    /* Recreate the ecmult{,_gen} tables using the generator selected via EXHAUSTIVE_TEST_ORDER (as tests_exhaustive.c) */
    secp256k1_ecmult_gen_compute_table(&secp256k1_ecmult_gen_prec_table[0][0], &secp256k1_ge_const_g, COMB_BLOCKS, COMB_TEETH, COMB_SPACING);
    secp256k1_ecmult_compute_two_tables(secp256k1_pre_g, secp256k1_pre_g_128, WINDOW_G, &secp256k1_ge_const_g);
    return 1;
}

static int smallint_nonce(unsigned char* nonce32, const unsigned char* msg32, const unsigned char* key32, const unsigned char* algo16, void* data, unsigned int attempt)
{
    (void)msg32; (void)key32; (void)algo16;
    if (attempt > 0) return 0; /* no retry: an unusable nonce makes signing fail */
    b32(nonce32, *(unsigned long*)data);
    return 1;
}

/* ECDH "hash" that exposes the raw shared x coordinate */
static int exh_xdh_raw_x(unsigned char* output, const unsigned char* x32, const unsigned char* ell_a64, const unsigned char* ell_b64, void* data)
{
    (void)ell_a64; (void)ell_b64; (void)data;
    memcpy(output, x32, 32);
    return 1;
}

static const unsigned char* msg_pattern(int i, unsigned char* buf)
{
    int j;
    for (j = 0; j < 32; j++) buf[j] = (unsigned char)(i * 37 + j * 11 + 5);
    if (i == 0) memset(buf, 0, 32);
    return buf;
}

/* section: 0 pubkeys, 1 parse, 2 ecdsa sign, 3 ecdsa verify, 4 schnorr sign, 5 schnorr verify, 6 tweak, 7 ellswift, 8 ellswift xdh.
 * [lo,hi) is a range of the section's outer index; level 0 = quick, 1 = thorough. Thread safe after exh_init(). */
int exh_section(int section, int lo, int hi, int level, exh_emit_fn emit)
{
    secp256k1_context* ctx = secp256k1_context_create(SECP256K1_CONTEXT_NONE);
    size_t cap = (size_t)(N + 2) * (N + 2) * 2 + (size_t)(N + 3) * 160 + 4096;
    char* line = (char*)malloc(cap);
    int d;
    if (!ctx || !line) return 0;
    for (d = lo; d < hi; d++) {
        unsigned char sk[32], out[65], ser33[33];
        size_t len;
        char* p = line;
        if (section == 0) { /* d in 0..N+2: seckey -> pubkey; d == 0 also prints the generator */
            secp256k1_pubkey pk;
            int ok, okv;
            if (d == 0) {
                secp256k1_ge g = secp256k1_ge_const_g;
                unsigned char gx[32], gy[32];
                secp256k1_fe_normalize_var(&g.x); secp256k1_fe_normalize_var(&g.y);
                secp256k1_fe_get_b32(gx, &g.x); secp256k1_fe_get_b32(gy, &g.y);
                p += sprintf(p, "EG\t%d\t%d\t", N, SECP256K1_B); p = hexs(p, gx, 32); *p++ = '\t'; p = hexs(p, gy, 32);
                emit(line);
                p = line;
            }
            b32(sk, (unsigned long)d);
            if (d == N + 2) memset(sk, 0xff, 32);
            okv = secp256k1_ec_seckey_verify(ctx, sk);
            ok = secp256k1_ec_pubkey_create(ctx, &pk, sk);
            p += sprintf(p, "EP\t%d\t", N); p = hexs(p, sk, 32); p += sprintf(p, "\t%d\t%d\t", okv, ok);
            if (ok) {
                secp256k1_xonly_pubkey xp; int parity = -1; unsigned char x32[32];
                len = 33; secp256k1_ec_pubkey_serialize(ctx, out, &len, &pk, SECP256K1_EC_COMPRESSED); p = hexs(p, out, 33); *p++ = '\t';
                len = 65; secp256k1_ec_pubkey_serialize(ctx, out, &len, &pk, SECP256K1_EC_UNCOMPRESSED); p = hexs(p, out, 65); *p++ = '\t';
                secp256k1_xonly_pubkey_from_pubkey(ctx, &xp, &parity, &pk);
                secp256k1_xonly_pubkey_serialize(ctx, x32, &xp); p = hexs(p, x32, 32);
                p += sprintf(p, "\t%d", parity);
            } else p += sprintf(p, "-\t-\t-\t-1");
            emit(line);
        } else if (section == 1) { /* d = candidate index: x = small integers and the x of every group point */
            int par;
            unsigned char x[32];
            if (d < 300) b32(x, (unsigned long)d);
            else { /* x of (d-300+1)*G */
                secp256k1_pubkey pk; b32(sk, (unsigned long)(d - 300 + 1));
                if (!secp256k1_ec_pubkey_create(ctx, &pk, sk)) continue;
                len = 33; secp256k1_ec_pubkey_serialize(ctx, out, &len, &pk, SECP256K1_EC_COMPRESSED); memcpy(x, out + 1, 32);
            }
            for (par = 2; par <= 3; par++) {
                secp256k1_pubkey pk; secp256k1_xonly_pubkey xp;
                int ok, okx;
                ser33[0] = (unsigned char)par; memcpy(ser33 + 1, x, 32);
                ok = secp256k1_ec_pubkey_parse(ctx, &pk, ser33, 33);
                okx = secp256k1_xonly_pubkey_parse(ctx, &xp, x);
                p = line; p += sprintf(p, "EQ\t%d\t", N); p = hexs(p, ser33, 33); p += sprintf(p, "\t%d\t%d\t", ok, okx);
                if (ok) { len = 65; secp256k1_ec_pubkey_serialize(ctx, out, &len, &pk, SECP256K1_EC_UNCOMPRESSED); p = hexs(p, out, 65); } else { *p++ = '-'; *p = 0; }
                emit(line);
            }
        } else if (section == 2) { /* d in 1..N-1: sign every message scalar with every nonce */
            int m;
            b32(sk, (unsigned long)d);
            for (m = 0; m < N + (d == 1 ? 3 : 0); m++) {
                unsigned long k;
                unsigned char msg[32];
                b32(msg, (unsigned long)m); /* m >= N exercises the reduction of the message */
                if (m == N + 2) memset(msg, 0xff, 32);
                p = line; p += sprintf(p, "ES\t%d\t%d\t", N, d); p = hexs(p, msg, 32); *p++ = '\t';
                for (k = 0; k <= (unsigned long)N; k++) {
                    secp256k1_ecdsa_signature sig; unsigned char c64[64];
                    if (secp256k1_ecdsa_sign(ctx, &sig, msg, sk, smallint_nonce, &k)) {
                        secp256k1_ecdsa_signature_serialize_compact(ctx, c64, &sig);
                        p += sprintf(p, "%lu:%lu,", small_of(c64), small_of(c64 + 32));
                    } else p += sprintf(p, "x,");
                }
                emit(line);
            }
        } else if (section == 3) { /* d in 1..N-1: verification verdict for every (r,s) in 0..N x 0..N */
            static const int MS_q[] = {1, N - 1}, MS_t[] = {0, 1, 2, N / 2 + 1, N - 1};
            const int* ms = (level || N < 50) ? MS_t : MS_q;
            int nms = (level || N < 50) ? 5 : 2, mi, all_m = N < 50;
            secp256k1_pubkey pk;
            b32(sk, (unsigned long)d);
            if (!secp256k1_ec_pubkey_create(ctx, &pk, sk)) continue;
            for (mi = 0; mi < (all_m ? N : nms); mi++) {
                int m = all_m ? mi : ms[mi], r, s;
                unsigned char msg[32], c64[64];
                b32(msg, (unsigned long)m);
                p = line; p += sprintf(p, "EW\t%d\t%d\t%d\t", N, d, m);
                for (r = 0; r <= N; r++)
                    for (s = 0; s <= N; s++) {
                        secp256k1_ecdsa_signature sig;
                        int v = 0;
                        b32(c64, (unsigned long)r); b32(c64 + 32, (unsigned long)s);
                        if (secp256k1_ecdsa_signature_parse_compact(ctx, &sig, c64)) v = secp256k1_ecdsa_verify(ctx, &sig, msg, &pk);
                        *p++ = v ? '1' : '0';
                    }
                *p = 0;
                emit(line);
            }
        } else if (section == 4) { /* d in 0..N: BIP340 signing */
            int mi, ai;
            secp256k1_keypair kp;
            b32(sk, (unsigned long)d);
            if (!secp256k1_keypair_create(ctx, &kp, sk)) { p += sprintf(p, "EH\t%d\t%d\t-\t-\t0\t-", N, d); emit(line); continue; }
            for (mi = 0; mi < 3; mi++)
                for (ai = 0; ai < 2; ai++) {
                    unsigned char mb[32], ab[32], sig[64];
                    int ok;
                    msg_pattern(mi, mb); msg_pattern(ai * 7, ab);
                    ok = secp256k1_schnorrsig_sign32(ctx, sig, mb, &kp, ab);
                    p = line; p += sprintf(p, "EH\t%d\t%d\t", N, d); p = hexs(p, mb, 32); *p++ = '\t'; p = hexs(p, ab, 32); p += sprintf(p, "\t%d\t", ok);
                    if (ok) p = hexs(p, sig, 64); else { *p++ = '-'; *p = 0; }
                    emit(line);
                }
        } else if (section == 5) { /* d in 1..N-1: BIP340 verification for every (R.x candidate, s) */
            int mi;
            secp256k1_pubkey pk; secp256k1_xonly_pubkey xp; unsigned char px[32];
            b32(sk, (unsigned long)d);
            if (!secp256k1_ec_pubkey_create(ctx, &pk, sk)) continue;
            secp256k1_xonly_pubkey_from_pubkey(ctx, &xp, NULL, &pk);
            secp256k1_xonly_pubkey_serialize(ctx, px, &xp);
            for (mi = 0; mi < (level ? 2 : 1); mi++) {
                unsigned char mb[32], sig[64];
                int k, s;
                msg_pattern(mi + 1, mb);
                p = line; p += sprintf(p, "EV\t%d\t", N); p = hexs(p, px, 32); *p++ = '\t'; p = hexs(p, mb, 32); *p++ = '\t';
                /* candidates for R.x: x of k*G for k = 1..N-1 (each x twice), then the small integers 0..5 */
                for (k = 1; k < N + 6; k++) {
                    if (k < N) {
                        secp256k1_pubkey rk; unsigned char kk[32];
                        b32(kk, (unsigned long)k);
                        if (!secp256k1_ec_pubkey_create(ctx, &rk, kk)) continue;
                        len = 33; secp256k1_ec_pubkey_serialize(ctx, out, &len, &rk, SECP256K1_EC_COMPRESSED); memcpy(sig, out + 1, 32);
                    } else b32(sig, (unsigned long)(k - N));
                    for (s = 0; s <= N; s++) {
                        b32(sig + 32, (unsigned long)s);
                        *p++ = secp256k1_schnorrsig_verify(ctx, sig, mb, 32, &xp) ? '1' : '0';
                    }
                }
                *p = 0;
                emit(line);
            }
        } else if (section == 6) { /* d in 1..N-1: x-only tweak add (+check) with every tweak 0..N+1 */
            int t;
            secp256k1_pubkey pk; secp256k1_xonly_pubkey xp; unsigned char px[32];
            b32(sk, (unsigned long)d);
            if (!secp256k1_ec_pubkey_create(ctx, &pk, sk)) continue;
            secp256k1_xonly_pubkey_from_pubkey(ctx, &xp, NULL, &pk);
            secp256k1_xonly_pubkey_serialize(ctx, px, &xp);
            p += sprintf(p, "ET\t%d\t%d\t", N, d); p = hexs(p, px, 32); *p++ = '\t';
            for (t = 0; t <= N + 1; t++) {
                unsigned char tw[32], ox[32];
                secp256k1_pubkey o; secp256k1_xonly_pubkey oxp; int parity = -1;
                secp256k1_keypair kp; int kok = 0; unsigned char ksk[32];
                b32(tw, (unsigned long)t);
                if (secp256k1_keypair_create(ctx, &kp, sk) && secp256k1_keypair_xonly_tweak_add(ctx, &kp, tw)) { kok = 1; secp256k1_keypair_sec(ctx, ksk, &kp); }
                if (secp256k1_xonly_pubkey_tweak_add(ctx, &o, &xp, tw)) {
                    secp256k1_xonly_pubkey_from_pubkey(ctx, &oxp, &parity, &o);
                    secp256k1_xonly_pubkey_serialize(ctx, ox, &oxp);
                    p = hexs(p, ox, 32);
                    p += sprintf(p, ":%d:%d:%d:%ld,", parity, secp256k1_xonly_pubkey_tweak_add_check(ctx, ox, parity, &xp, tw),
                                 secp256k1_xonly_pubkey_tweak_add_check(ctx, ox, !parity, &xp, tw), kok ? (long)small_of(ksk) : -1L);
                } else p += sprintf(p, "x:%ld,", kok ? (long)small_of(ksk) : -1L);
            }
            emit(line);
        } else if (section == 7) { /* d in 1..N-1: ElligatorSwift create/decode; d in N..N+255: decode of small (u,t) */
            if (d < N) {
                int ai;
                secp256k1_pubkey pk;
                b32(sk, (unsigned long)d);
                if (!secp256k1_ec_pubkey_create(ctx, &pk, sk)) continue;
                len = 33; secp256k1_ec_pubkey_serialize(ctx, ser33, &len, &pk, SECP256K1_EC_COMPRESSED);
                for (ai = 0; ai < 3; ai++) {
                    unsigned char ab[32], ell[64]; secp256k1_pubkey dec;
                    msg_pattern(ai * 5, ab);
                    p = line; p += sprintf(p, "EL\t%d\t%d\t", N, d);
                    if (!secp256k1_ellswift_create(ctx, ell, sk, ai == 2 ? NULL : ab)) { p += sprintf(p, "-\t-\t-"); emit(line); continue; }
                    secp256k1_ellswift_decode(ctx, &dec, ell);
                    len = 33; secp256k1_ec_pubkey_serialize(ctx, out, &len, &dec, SECP256K1_EC_COMPRESSED);
                    p = hexs(p, ell, 64); *p++ = '\t'; p = hexs(p, out, 33); *p++ = '\t'; p = hexs(p, ser33, 33);
                    emit(line);
                }
            } else {
                int idx = d - N, uu = idx / 16, tt = idx % 16;
                unsigned char ell[64]; secp256k1_pubkey dec;
                b32(ell, (unsigned long)uu); b32(ell + 32, (unsigned long)tt);
                if (uu == 15) memset(ell, 0xff, 32);      /* u >= p: reduced */
                if (tt == 15) memset(ell + 32, 0xff, 32);
                secp256k1_ellswift_decode(ctx, &dec, ell);
                len = 33; secp256k1_ec_pubkey_serialize(ctx, out, &len, &dec, SECP256K1_EC_COMPRESSED);
                p += sprintf(p, "EL\t%d\t-1\t", N); p = hexs(p, ell, 64); *p++ = '\t'; p = hexs(p, out, 33); p += sprintf(p, "\t-");
                emit(line);
            }
        } else if (section == 8) { /* d in 1..N-1: ElligatorSwift x-only ECDH with every other key e in 1..N-1 (both roles) */
            int e;
            unsigned char ab[32], ell_d[64], skd[32];
            b32(skd, (unsigned long)d);
            msg_pattern(d, ab);
            p += sprintf(p, "EZ\t%d\t%d\t", N, d);
            if (!secp256k1_ellswift_create(ctx, ell_d, skd, ab)) { p += sprintf(p, "-"); emit(line); continue; }
            for (e = 1; e < N; e++) {
                unsigned char ske[32], ae[32], ell_e[64], x0[32], x1[32];
                int ok0, ok1;
                b32(ske, (unsigned long)e);
                msg_pattern(e + 3, ae);
                if (!secp256k1_ellswift_create(ctx, ell_e, ske, ae)) { p += sprintf(p, "x,"); continue; }
                ok0 = secp256k1_ellswift_xdh(ctx, x0, ell_d, ell_e, skd, 0, exh_xdh_raw_x, NULL);   /* we are party A */
                ok1 = secp256k1_ellswift_xdh(ctx, x1, ell_e, ell_d, skd, 1, exh_xdh_raw_x, NULL);   /* we are party B */
                if (!ok0 || !ok1) { p += sprintf(p, "x,"); continue; }
                p = hexs(p, x0, 32); p += sprintf(p, ":%d,", memcmp(x0, x1, 32) == 0);
            }
            emit(line);
        }
    }
    free(line);
    secp256k1_context_destroy(ctx);
    return 1;
}
