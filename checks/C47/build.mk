LINK := full
