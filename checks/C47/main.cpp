// C47 — PSBTs round-trip, combine and finalize correctly.  VX-ENUM, all in C++.
// The generator works at the BIP174 *map* level (global / input / output maps of key-value records), so field presence
// subsets, unions and duplicates are explicit; the references are: a 30-line generic map parser, record-multiset
// arithmetic (union / documented normalisation), the BIP370 locktime rule transcribed below, and script verification.
#include <vx/vx.h>

#include <key.h>
#include <key_io.h>
#include <policy/policy.h>
#include <primitives/transaction.h>
#include <psbt.h>
#include <pubkey.h>
#include <script/descriptor.h>
#include <script/interpreter.h>
#include <script/script.h>
#include <script/sign.h>
#include <script/signingprovider.h>
#include <streams.h>
#include <util/chaintype.h>
#include <chainparams.h>
#include <crypto/sha256.h>
#include <hash.h>
#include <util/strencodings.h>

namespace {

using Bytes = std::vector<unsigned char>;
struct Rec { Bytes k, v; bool operator<(const Rec& o) const { return std::tie(k, v) < std::tie(o.k, o.v); } bool operator==(const Rec& o) const { return k == o.k && v == o.v; } };
using Map = std::vector<Rec>;
struct Raw { Map g; std::vector<Map> in, out; };

// ---------------------------------------------------------------- byte helpers (generator side)
void put_cs(Bytes& b, uint64_t n)
{
    if (n < 253) b.push_back((unsigned char)n);
    else if (n <= 0xffff) { b.push_back(253); b.push_back(n & 0xff); b.push_back(n >> 8); }
    else { b.push_back(254); for (int i = 0; i < 4; i++) b.push_back((n >> (8 * i)) & 0xff); }
}
Bytes le32(uint32_t v) { return {(unsigned char)v, (unsigned char)(v >> 8), (unsigned char)(v >> 16), (unsigned char)(v >> 24)}; }
Bytes cat(std::initializer_list<Bytes> l) { Bytes o; for (auto& b : l) o.insert(o.end(), b.begin(), b.end()); return o; }
template <typename T> Bytes ser_obj(const T& t) { DataStream s; s << t; Bytes o(s.size()); memcpy(o.data(), s.data(), s.size()); return o; }
Bytes ser_map(const Map& m) { Bytes o; for (auto& r : m) { put_cs(o, r.k.size()); o.insert(o.end(), r.k.begin(), r.k.end()); put_cs(o, r.v.size()); o.insert(o.end(), r.v.begin(), r.v.end()); } o.push_back(0); return o; }
Bytes ser_raw(const Raw& r)
{
    Bytes o = {'p', 's', 'b', 't', 0xff};
    auto add = [&](const Map& m) { Bytes b = ser_map(m); o.insert(o.end(), b.begin(), b.end()); };
    add(r.g);
    for (auto& m : r.in) add(m);
    for (auto& m : r.out) add(m);
    return o;
}

// ---------------------------------------------------------------- generic reference parser (BIP174 container format only)
bool rd_cs(const Bytes& b, size_t& p, uint64_t& n)
{
    if (p >= b.size()) return false;
    unsigned char c = b[p++];
    int w = c < 253 ? 0 : (c == 253 ? 2 : (c == 254 ? 4 : 8));
    if (!w) { n = c; return true; }
    if (p + w > b.size()) return false;
    n = 0;
    for (int i = 0; i < w; i++) n |= (uint64_t)b[p + i] << (8 * i);
    p += w;
    return true;
}
bool rd_map(const Bytes& b, size_t& p, Map& m)
{
    for (;;) {
        uint64_t kl, vl;
        if (!rd_cs(b, p, kl)) return false;
        if (kl == 0) return true;
        if (p + kl > b.size()) return false;
        Rec r;
        r.k.assign(b.begin() + p, b.begin() + p + kl); p += kl;
        if (!rd_cs(b, p, vl) || p + vl > b.size()) return false;
        r.v.assign(b.begin() + p, b.begin() + p + vl); p += vl;
        m.push_back(std::move(r));
    }
}
bool parse_raw(const Bytes& b, Raw& r)
{
    if (b.size() < 5 || memcmp(b.data(), "psbt\xff", 5) != 0) return false;
    size_t p = 5;
    if (!rd_map(b, p, r.g)) return false;
    uint64_t nin = 0, nout = 0;
    bool have = false;
    for (auto& rec : r.g) {
        if (rec.k == Bytes{0x00}) { // unsigned transaction: count inputs/outputs (legacy serialization, no witness)
            size_t q = 4;
            if (!rd_cs(rec.v, q, nin)) return false;
            for (uint64_t i = 0; i < nin; i++) { q += 36; uint64_t sl; if (!rd_cs(rec.v, q, sl)) return false; q += sl + 4; }
            if (!rd_cs(rec.v, q, nout)) return false;
            have = true;
        }
        if (rec.k == Bytes{0x04}) { size_t q = 0; if (!rd_cs(rec.v, q, nin)) return false; have = true; }
        if (rec.k == Bytes{0x05}) { size_t q = 0; if (!rd_cs(rec.v, q, nout)) return false; }
    }
    if (!have) return false;
    for (uint64_t i = 0; i < nin; i++) { r.in.emplace_back(); if (!rd_map(b, p, r.in.back())) return false; }
    for (uint64_t i = 0; i < nout; i++) { r.out.emplace_back(); if (!rd_map(b, p, r.out.back())) return false; }
    return p == b.size();
}
Map sorted(Map m) { std::sort(m.begin(), m.end()); return m; }
std::string map_str(const Map& m)
{
    std::string s;
    for (auto& r : m) s += HexStr(r.k).substr(0, 24) + "=" + HexStr(r.v).substr(0, 16) + (r.v.size() > 8 ? ".." : "") + " ";
    return s;
}

// record types (first key byte) present in `a` but not in `b` (as records), e.g. "03,15"
std::string missing_types(const Map& a, const Map& b)
{
    Map sb = sorted(b);
    std::set<unsigned> t;
    for (auto& r : a) if (!std::binary_search(sb.begin(), sb.end(), r)) t.insert(r.k.empty() ? 256 : r.k[0]);
    std::string s;
    for (unsigned x : t) { char buf[8]; snprintf(buf, sizeof buf, "%s%02x", s.empty() ? "" : ",", x); s += buf; }
    return s;
}
// one key per (map kind, record type) that differs: e.g. "input:03" -- stable, whitespace-free identifiers of WHAT is lost/added
std::vector<std::string> diff_keys(const Raw& want, const Raw& got)
{
    std::set<std::string> k;
    auto one = [&](const char* where, const Map& w, const Map& g) {
        for (const std::string& m : {missing_types(w, g), missing_types(g, w)}) {
            for (size_t p = 0; p < m.size(); p += 3) k.insert(std::string(where) + ":" + m.substr(p, 2));
        }
    };
    one("global", want.g, got.g);
    for (size_t i = 0; i < want.in.size() && i < got.in.size(); i++) one("input", want.in[i], got.in[i]);
    for (size_t i = 0; i < want.out.size() && i < got.out.size(); i++) one("output", want.out[i], got.out[i]);
    if (k.empty()) k.insert("other");
    return {k.begin(), k.end()};
}

// ---------------------------------------------------------------- fixture: keys, transactions, records
struct Fix {
    CKey k[3];
    CPubKey pk[3];
    XOnlyPubKey xo[3];
    CMutableTransaction prev; // funding transaction with several outputs
    Txid prev_id;
    Bytes dersig[3];
};
Fix& F = *new Fix; // never destroyed: CKey's secure allocator pool is gone by the time static destructors run

void init_fixture()
{
    for (int i = 0; i < 3; i++) {
        Bytes v(32, (unsigned char)(0x21 + i)); v[31] = 7;
        F.k[i].Set(v.begin(), v.end(), true);
        F.pk[i] = F.k[i].GetPubKey();
        F.xo[i] = XOnlyPubKey(F.pk[i]);
        Bytes sig;
        if (!F.k[i].Sign(uint256{(uint8_t)(5 + i)}, sig)) { printf("HARNESS-ERROR sign\n"); exit(2); }
        sig.push_back(SIGHASH_ALL);
        F.dersig[i] = sig;
    }
    F.prev.version = 2;
    F.prev.vin.resize(1);
    F.prev.vin[0].prevout = COutPoint(Txid::FromUint256(uint256{9}), 3);
    F.prev.vout.emplace_back(100000000, GetScriptForDestination(WitnessV0KeyHash(F.pk[0])));
    F.prev.vout.emplace_back(200000000, GetScriptForDestination(PKHash(F.pk[1])));
    F.prev.vout.emplace_back(300000000, GetScriptForDestination(WitnessV1Taproot(F.xo[2])));
    F.prev_id = F.prev.GetHash();
}

Bytes script_bytes(const CScript& s) { return Bytes(s.begin(), s.end()); }
Bytes keypath_val(uint32_t fp, std::vector<uint32_t> path) { Bytes v = {(unsigned char)(fp >> 24), (unsigned char)(fp >> 16), (unsigned char)(fp >> 8), (unsigned char)fp}; for (auto p : path) { auto l = le32(p); v.insert(v.end(), l.begin(), l.end()); } return v; }
Bytes sha256_of(const Bytes& b) { Bytes h(32); CSHA256().Write(b.data(), b.size()).Finalize(h.data()); return h; }

// an "item" = one or more records of one input/output/global field kind
struct Item { std::string name; Map recs; bool final_field = false; bool dropped_when_final = false; };

std::vector<Item> input_items(int n /* which prevout */)
{
    std::vector<Item> v;
    const CScript redeem = CScript() << OP_0 << ToByteVector(F.pk[0].GetID());
    const CScript wscript = CScript() << OP_2 << ToByteVector(F.pk[0]) << ToByteVector(F.pk[1]) << OP_2 << OP_CHECKMULTISIG;
    const Bytes pre = {'p', 'r', 'e', (unsigned char)n};
    Bytes h160(20), r160(20), h256(32);
    CHash160().Write(pre).Finalize(h160); CRIPEMD160().Write(pre.data(), pre.size()).Finalize(r160.data()); CHash256().Write(pre).Finalize(h256);
    const Bytes leaf_script = {0x51};
    Bytes cb1(33, 0x11), cb2(65, 0x22); cb1[0] = 0xc0; cb2[0] = 0xc1;
    const uint256 leaf_hash = uint256{0x77};
    Bytes tapbip = {1}; tapbip.insert(tapbip.end(), leaf_hash.begin(), leaf_hash.end()); { Bytes kp = keypath_val(0xaabbccdd, {0x80000056, 1}); tapbip.insert(tapbip.end(), kp.begin(), kp.end()); }
    Bytes tapbip0 = {0}; { Bytes kp = keypath_val(0x01020304, {}); tapbip0.insert(tapbip0.end(), kp.begin(), kp.end()); }
    std::vector<std::vector<unsigned char>> stack = {F.dersig[0], Bytes(F.pk[0].begin(), F.pk[0].end())};
    v.push_back({"non_witness_utxo", {{{0x00}, ser_obj(TX_NO_WITNESS(F.prev))}}});
    v.push_back({"witness_utxo", {{{0x01}, ser_obj(F.prev.vout[n])}}});
    v.push_back({"partial_sig_a", {{cat({{0x02}, Bytes(F.pk[0].begin(), F.pk[0].end())}), F.dersig[0]}}, false, true});
    v.push_back({"sighash", {{{0x03}, le32(SIGHASH_ALL)}}, false, true});
    v.push_back({"redeem_script", {{{0x04}, script_bytes(redeem)}}, false, true});
    v.push_back({"witness_script", {{{0x05}, script_bytes(wscript)}}, false, true});
    v.push_back({"bip32_a", {{cat({{0x06}, Bytes(F.pk[0].begin(), F.pk[0].end())}), keypath_val(0xd34db33f, {0x8000002c, 0, 5})}}, false, true});
    v.push_back({"final_scriptsig", {{{0x07}, script_bytes(CScript() << F.dersig[1] << ToByteVector(F.pk[1]))}}, true});
    v.push_back({"final_scriptwitness", {{{0x08}, ser_obj(stack)}}, true});
    v.push_back({"sha256_preimage", {{cat({{0x0b}, sha256_of(pre)}), pre}}, false, true});
    v.push_back({"taproot_key_fields", {{{0x13}, Bytes(64, 0x42)}, {{0x17}, Bytes(F.xo[2].begin(), F.xo[2].end())}, {{0x18}, Bytes(32, 0x19)}}, false, true});
    // ---- further multi-record kinds (used by the combine part and as extras)
    v.push_back({"partial_sig_b", {{cat({{0x02}, Bytes(F.pk[1].begin(), F.pk[1].end())}), F.dersig[1]}}, false, true});
    v.push_back({"bip32_b", {{cat({{0x06}, Bytes(F.pk[1].begin(), F.pk[1].end())}), keypath_val(0x00000001, {})}}, false, true});
    v.push_back({"ripemd160_preimage", {{cat({{0x0a}, r160}), pre}}, false, true});
    v.push_back({"hash160_preimage", {{cat({{0x0c}, h160}), pre}}, false, true});
    v.push_back({"hash256_preimage", {{cat({{0x0d}, h256}), pre}}, false, true});
    v.push_back({"tap_script_sig_a", {{cat({{0x14}, Bytes(F.xo[0].begin(), F.xo[0].end()), Bytes(leaf_hash.begin(), leaf_hash.end())}), Bytes(64, 0x43)}}, false, true});
    v.push_back({"tap_script_sig_b", {{cat({{0x14}, Bytes(F.xo[1].begin(), F.xo[1].end()), Bytes(leaf_hash.begin(), leaf_hash.end())}), Bytes(65, 0x44)}}, false, true});
    v.push_back({"tap_leaf_script_cb1", {{cat({{0x15}, cb1}), cat({leaf_script, {0xc0}})}}, false, true});
    v.push_back({"tap_leaf_script_cb2", {{cat({{0x15}, cb2}), cat({leaf_script, {0xc0}})}}, false, true});
    v.push_back({"tap_bip32_a", {{cat({{0x16}, Bytes(F.xo[0].begin(), F.xo[0].end())}), tapbip}}, false, true});
    v.push_back({"tap_bip32_b", {{cat({{0x16}, Bytes(F.xo[1].begin(), F.xo[1].end())}), tapbip0}}, false, true});
    v.push_back({"unknown_a", {{{0xf0, 0x01}, {0xde, 0xad}}}});
    v.push_back({"unknown_b", {{{0xf0, 0x02, 0x03}, {}}}});
    v.push_back({"proprietary_a", {{{0xfc, 0x04, 't', 'e', 's', 't', 0x01, 0xaa}, {0x01, 0x02}}}});
    v.push_back({"proprietary_b", {{{0xfc, 0x04, 't', 'e', 's', 't', 0x02}, {0x03}}}});
    return v;
}
constexpr int N_BASE_INPUT_KINDS = 11; // the first 11 items are the field kinds of the every-subset enumeration

std::vector<Item> output_items()
{
    std::vector<Item> v;
    Bytes tapbip0 = {0}; { Bytes kp = keypath_val(0x01020304, {7}); tapbip0.insert(tapbip0.end(), kp.begin(), kp.end()); }
    v.push_back({"redeem_script", {{{0x00}, script_bytes(CScript() << OP_0 << ToByteVector(F.pk[2].GetID()))}}});
    v.push_back({"witness_script", {{{0x01}, script_bytes(CScript() << ToByteVector(F.pk[2]) << OP_CHECKSIG)}}});
    v.push_back({"bip32_a", {{cat({{0x02}, Bytes(F.pk[2].begin(), F.pk[2].end())}), keypath_val(0xd34db33f, {1, 2})}}});
    v.push_back({"tap_internal_key", {{{0x05}, Bytes(F.xo[1].begin(), F.xo[1].end())}}});
    v.push_back({"tap_tree", {{{0x06}, {0x00, 0xc0, 0x01, 0x51}}}});
    v.push_back({"tap_bip32", {{cat({{0x07}, Bytes(F.xo[1].begin(), F.xo[1].end())}), tapbip0}}});
    v.push_back({"bip32_b", {{cat({{0x02}, Bytes(F.pk[0].begin(), F.pk[0].end())}), keypath_val(0x0, {})}}});
    v.push_back({"unknown", {{{0xf1}, {0x00}}}});
    v.push_back({"proprietary", {{{0xfc, 0x02, 'v', 'x', 0x00}, {}}}});
    return v;
}

std::vector<Item> global_items()
{
    std::vector<Item> v;
    auto xpub_rec = [](const char* seedhex, std::vector<uint32_t> path) {
        auto seed = ParseHex(seedhex);
        CExtKey k; k.SetSeed(MakeByteSpan(seed));
        uint32_t fp = 0;
        CExtKey cur = k;
        if (!path.empty()) { CKeyID id = k.key.GetPubKey().GetID(); fp = (id.begin()[0] << 24) | (id.begin()[1] << 16) | (id.begin()[2] << 8) | id.begin()[3]; }
        for (auto p : path) { CExtKey c; if (!cur.Derive(c, p)) exit(2); cur = c; }
        unsigned char b[BIP32_EXTKEY_WITH_VERSION_SIZE];
        cur.Neuter().EncodeWithVersion(b);
        Rec r; r.k = {0x01}; r.k.insert(r.k.end(), b, b + sizeof b); r.v = keypath_val(fp, path);
        return r;
    };
    v.push_back({"xpub_a", {xpub_rec("000102030405060708090a0b0c0d0e0f", {})}});
    v.push_back({"xpub_b", {xpub_rec("0f0e0d0c0b0a09080706050403020100", {})}});
    v.push_back({"xpub_c", {xpub_rec("000102030405060708090a0b0c0d0e0f", {0x80000000})}});
    v.push_back({"unknown", {{{0xf2, 0xff}, {0x01}}}});
    v.push_back({"proprietary", {{{0xfc, 0x01, 'g', 0x05, 0x06}, {0x07}}}});
    return v;
}

// base PSBT (no optional fields) for nin inputs (prevouts 0..nin-1 of F.prev) and nout outputs
Raw base_psbt(int version, int nin, int nout, std::optional<uint32_t> fallback = std::nullopt)
{
    Raw r;
    CMutableTransaction tx;
    tx.version = 2;
    tx.nLockTime = fallback.value_or(0);
    for (int i = 0; i < nin; i++) tx.vin.emplace_back(COutPoint(F.prev_id, i), CScript(), 0xfffffffd);
    for (int i = 0; i < nout; i++) tx.vout.emplace_back(40000000 + i, GetScriptForDestination(WitnessV0KeyHash(F.pk[2])));
    if (version == 0) {
        r.g.push_back({{0x00}, ser_obj(TX_NO_WITNESS(tx))});
    } else {
        r.g.push_back({{0x02}, le32(2)});
        if (fallback) r.g.push_back({{0x03}, le32(*fallback)});
        Bytes c; put_cs(c, nin); r.g.push_back({{0x04}, c});
        c.clear(); put_cs(c, nout); r.g.push_back({{0x05}, c});
        r.g.push_back({{0xfb}, le32(2)});
    }
    for (int i = 0; i < nin; i++) {
        r.in.emplace_back();
        if (version == 2) {
            r.in.back().push_back({{0x0e}, Bytes(F.prev_id.ToUint256().begin(), F.prev_id.ToUint256().end())});
            r.in.back().push_back({{0x0f}, le32(i)});
            r.in.back().push_back({{0x10}, le32(0xfffffffd)});
        }
    }
    for (int i = 0; i < nout; i++) {
        r.out.emplace_back();
        if (version == 2) {
            r.out.back().push_back({{0x03}, ser_obj(tx.vout[i].nValue)});
            r.out.back().push_back({{0x04}, script_bytes(tx.vout[i].scriptPubKey)});
        }
    }
    return r;
}
void add_item(Map& m, const Item& it) { m.insert(m.end(), it.recs.begin(), it.recs.end()); }

// ---------------------------------------------------------------- counters
struct Counters {
    std::atomic<uint64_t> roundtrips{0}, accepted{0}, rejected{0}, maplevel{0}, finalized_norm{0}, selfmerge{0}, combines{0}, locktime_cases{0}, locktime_undetermined{0}, locktime_height{0}, locktime_time{0}, locktime_fallback{0},
        locktime_decode{0}, locktime_decode_rejected{0}, mutations{0}, mutations_accepted{0}, finalize_cases{0}, inputs_verified{0}, dup_cases{0}, dup_rejected{0};
} C;
vx::Distinct g_distinct;

// Same steps as DecodeRawPSBT, but the (header-inline) deserialisation templates are instantiated in this translation unit.
std::optional<PartiallySignedTransaction> decode(const Bytes& b)
{
    SpanReader ss{MakeByteSpan(b)};
    try {
        PartiallySignedTransaction psbt(deserialize, ss);
        if (!ss.empty()) return std::nullopt; // extra data after PSBT
        return psbt;
    } catch (const std::exception&) {
        return std::nullopt;
    }
}
Bytes encode(const PartiallySignedTransaction& p) { DataStream s; s << p; Bytes o(s.size()); memcpy(o.data(), s.data(), s.size()); return o; }

// expected records of an input map after decode+encode: a finalized input keeps only UTXOs, final scripts, v2 fields, unknown/proprietary
Map normalise_input(const Map& m, const std::vector<Item>& items)
{
    bool fin = false;
    for (auto& r : m) if (r.k == Bytes{0x07} || r.k == Bytes{0x08}) fin = true;
    if (!fin) return m;
    Map o;
    for (auto& r : m) {
        bool drop = false;
        for (auto& it : items) if (it.dropped_when_final) for (auto& ir : it.recs) if (ir.k == r.k) drop = true;
        if (!drop) o.push_back(r);
    }
    return o;
}

// PSBTInput::operator== compares the non_witness_utxo *pointers*; compare the transactions instead.
bool input_equal(PSBTInput a, PSBTInput b)
{
    if ((bool)a.non_witness_utxo != (bool)b.non_witness_utxo) return false;
    if (a.non_witness_utxo && a.non_witness_utxo->GetWitnessHash() != b.non_witness_utxo->GetWitnessHash()) return false;
    a.non_witness_utxo = nullptr; b.non_witness_utxo = nullptr;
    return a == b;
}
bool inputs_equal(const std::vector<PSBTInput>& a, const std::vector<PSBTInput>& b)
{
    if (a.size() != b.size()) return false;
    for (size_t i = 0; i < a.size(); i++) if (!input_equal(a[i], b[i])) return false;
    return true;
}

// Round trip of one byte string. structured: `x_raw` is the generator's map view of x (compared at record level).
// Returns whether x was accepted.
bool check_roundtrip(const std::string& what, const Bytes& x, const Raw* x_raw, const std::vector<Item>* in_items, bool expect_accept)
{
    C.roundtrips++;
    auto p = decode(x);
    if (!p) {
        C.rejected++;
        if (expect_accept) vx::violation("valid-psbt-rejected " + what, "a PSBT built from valid BIP174/370 fields is rejected by the decoder", HexStr(x));
        return false;
    }
    C.accepted++;
    const Bytes y = encode(*p);
    auto q = decode(y);
    if (!q) { vx::violation("reencoded-psbt-rejected " + what, "decode(x) re-encodes to bytes the decoder rejects", HexStr(x)); return true; }
    const Bytes z = encode(*q);
    if (z != y) vx::violation("reencode-not-fixpoint " + what, "encode(decode(encode(decode(x)))) differs from encode(decode(x))", HexStr(x));
    // same content, object level
    bool same = p->inputs.size() == q->inputs.size() && p->outputs.size() == q->outputs.size() && p->GetVersion() == q->GetVersion() && p->tx_version == q->tx_version &&
                p->fallback_locktime == q->fallback_locktime && p->m_xpubs == q->m_xpubs && p->m_tx_modifiable == q->m_tx_modifiable && p->unknown == q->unknown &&
                p->ComputeTimeLock() == q->ComputeTimeLock();
    if (same) {
        // after one encode/decode pass a finalized input has dropped its signer fields (documented serializer rule), so compare q with decode(z)
        auto q2 = decode(z);
        same = q2 && inputs_equal(q->inputs, q2->inputs) && q->outputs == q2->outputs;
        for (size_t i = 0; same && i < p->inputs.size(); i++) {
            const bool fin = !p->inputs[i].final_script_sig.empty() || !p->inputs[i].final_script_witness.IsNull();
            if (!fin && !input_equal(p->inputs[i], q->inputs[i])) same = false;
            if (fin && !(p->inputs[i].final_script_sig == q->inputs[i].final_script_sig && p->inputs[i].final_script_witness.stack == q->inputs[i].final_script_witness.stack &&
                         p->inputs[i].witness_utxo == q->inputs[i].witness_utxo && p->inputs[i].unknown == q->inputs[i].unknown)) same = false;
        }
        for (size_t i = 0; same && i < p->outputs.size(); i++) if (!(p->outputs[i] == q->outputs[i])) same = false;
    }
    if (!same) vx::violation("roundtrip-content-differs " + what, "decode(encode(decode(x))) does not have the content of decode(x)", HexStr(x));
    // Merge(x, x) == x
    {
        PartiallySignedTransaction m = *q;
        C.selfmerge++;
        const bool merged = m.Merge(*q);
        // a PSBTv2 whose locktime cannot be determined has no transaction identity; Merge refuses it (and must then leave it alone)
        if (!merged && q->ComputeTimeLock().has_value()) vx::violation("self-merge-fails " + what, "Merge of a PSBT with itself returns false", HexStr(x));
        if (encode(m) != y) vx::violation("self-merge-changes " + what, "Merge of a PSBT with itself changes it", HexStr(x));
    }
    // record level
    if (x_raw) {
        C.maplevel++;
        Raw ry;
        if (!parse_raw(y, ry) || ry.in.size() != x_raw->in.size() || ry.out.size() != x_raw->out.size()) { vx::violation("reencoded-container-malformed " + what, "re-encoded PSBT is not a well-formed BIP174 container with the same map count", HexStr(x)); return true; }
        bool ok = sorted(ry.g) == sorted(x_raw->g);
        std::string diff = ok ? "" : "global: " + map_str(sorted(x_raw->g)) + " -> " + map_str(sorted(ry.g));
        for (size_t i = 0; i < ry.in.size(); i++) {
            Map want = in_items ? normalise_input(x_raw->in[i], *in_items) : x_raw->in[i];
            if (want.size() != x_raw->in[i].size()) C.finalized_norm++;
            if (sorted(ry.in[i]) != sorted(want)) { ok = false; diff += " input " + std::to_string(i) + ": " + map_str(sorted(want)) + " -> " + map_str(sorted(ry.in[i])); }
        }
        for (size_t i = 0; i < ry.out.size(); i++)
            if (sorted(ry.out[i]) != sorted(x_raw->out[i])) { ok = false; diff += " output " + std::to_string(i) + ": " + map_str(sorted(x_raw->out[i])) + " -> " + map_str(sorted(ry.out[i])); }
        if (!ok) {
            Raw want = *x_raw;
            if (in_items) for (auto& m : want.in) m = normalise_input(m, *in_items);
            for (auto& dk : diff_keys(want, ry)) vx::violation("roundtrip-records-differ:" + dk, what + ": key-value records change across decode+encode: " + diff, HexStr(x));
        }
    }
    return true;
}

// ---------------------------------------------------------------- BIP370 locktime rule (transcribed from the BIP text)
// "If none of the inputs have a required time/height locktime, the fallback locktime (or 0) must be used. Otherwise the field chosen is
//  the one supported by all inputs that specify a locktime (inputs with both support both); if both are possible, height is chosen; the
//  value is the maximum of the chosen type. If no type is supported by all, the locktime cannot be determined."
std::optional<uint32_t> ref_locktime(const std::vector<std::pair<std::optional<uint32_t>, std::optional<uint32_t>>>& in /* (time, height) */, std::optional<uint32_t> fallback)
{
    bool any = false, time_ok = true, height_ok = true;
    uint32_t tmax = 0, hmax = 0;
    for (auto& [t, h] : in) {
        if (!t && !h) continue;
        any = true;
        if (!t) time_ok = false; else tmax = std::max(tmax, *t);
        if (!h) height_ok = false; else hmax = std::max(hmax, *h);
    }
    if (!any) return fallback.value_or(0);
    if (height_ok) return hmax;
    if (time_ok) return tmax;
    return std::nullopt;
}

// ---------------------------------------------------------------- finalize + extract
struct Spend { std::string name, desc; bool segwit_native; int signers; };

bool verify_input(const CMutableTransaction& tx, size_t i, const CTxOut& utxo, const PrecomputedTransactionData& txdata)
{
    ScriptError err;
    return VerifyScript(tx.vin[i].scriptSig, utxo.scriptPubKey, &tx.vin[i].scriptWitness, STANDARD_SCRIPT_VERIFY_FLAGS,
                        MutableTransactionSignatureChecker(&tx, i, utxo.nValue, txdata, MissingDataBehavior::FAIL), &err);
}

void finalize_part(bool big)
{
    const std::string w0 = EncodeSecret(F.k[0]), w1 = EncodeSecret(F.k[1]), w2 = EncodeSecret(F.k[2]);
    const std::vector<Spend> spends = {{"p2pkh", "pkh(" + w0 + ")", false, 1}, {"p2wpkh", "wpkh(" + w0 + ")", true, 1}, {"p2sh-p2wpkh", "sh(wpkh(" + w0 + "))", false, 1},
                                       {"p2wsh-multi", "wsh(multi(2," + w0 + "," + w1 + "))", true, 2}, {"p2sh-multi", "sh(multi(2," + w0 + "," + w1 + "))", false, 2},
                                       {"p2sh-p2wsh-multi", "sh(wsh(sortedmulti(2," + w1 + "," + w0 + "," + w2 + ")))", false, 2}, {"p2tr-key", "tr(" + w0 + ")", true, 1},
                                       {"p2tr-key-with-tree", "tr(" + w0 + ",pk(" + w1 + "))", true, 1}, {"p2pk", "pk(" + w2 + ")", false, 1}};
    struct Prepared { CScript spk; FlatSigningProvider full; std::vector<FlatSigningProvider> per_signer; };
    std::vector<Prepared> prep;
    for (auto& s : spends) {
        FlatSigningProvider keys, out;
        std::string err;
        auto d = Parse(s.desc, keys, err);
        std::vector<CScript> scripts;
        if (d.size() != 1 || !d[0]->Expand(0, keys, scripts, out) || scripts.size() != 1) { printf("HARNESS-ERROR descriptor %s: %s\n", s.desc.c_str(), err.c_str()); exit(2); }
        Prepared p;
        p.spk = scripts[0];
        FlatSigningProvider o1 = out;
        p.full = keys; p.full.Merge(std::move(o1));
        for (auto& [id, key] : keys.keys) { // one provider per private key (all public data, a single private key)
            FlatSigningProvider one = out;
            one.keys.emplace(id, key);
            p.per_signer.push_back(std::move(one));
        }
        prep.push_back(std::move(p));
    }
    // funding transaction: one output per spend type
    CMutableTransaction fund;
    fund.version = 2;
    fund.vin.resize(1);
    fund.vin[0].prevout = COutPoint(Txid::FromUint256(uint256{0x55}), 0);
    for (size_t i = 0; i < prep.size(); i++) fund.vout.emplace_back(10000000 + (CAmount)i, prep[i].spk);
    const CTransactionRef fundref = MakeTransactionRef(fund);
    const Txid fund_id = fund.GetHash();

    // spends: every single type, and every ordered pair of types as a 2-input transaction; PSBT v0 and v2; signing order variants
    std::vector<std::vector<size_t>> cases;
    for (size_t i = 0; i < prep.size(); i++) cases.push_back({i});
    for (size_t i = 0; i < prep.size(); i++) for (size_t j = 0; j < prep.size(); j++) if (i != j && (big || (i + j) % 3 == 0)) cases.push_back({i, j});
    for (auto& cs : cases) {
        for (uint32_t ver : {0u, 2u}) {
            for (uint32_t locktime : {0u, 500000u}) {
                if (locktime && cs.size() == 2 && !big) continue;
                std::string name = "finalize v" + std::to_string(ver) + " lt" + std::to_string(locktime);
                CMutableTransaction tx;
                tx.version = 2;
                tx.nLockTime = locktime;
                bool all_native = true;
                for (size_t t : cs) { tx.vin.emplace_back(COutPoint(fund_id, (uint32_t)t), CScript(), 0xfffffffd); name += " " + spends[t].name; all_native &= spends[t].segwit_native; }
                tx.vout.emplace_back(15000000, GetScriptForDestination(WitnessV0KeyHash(F.pk[2])));
                PartiallySignedTransaction base(tx, ver);
                for (size_t i = 0; i < cs.size(); i++) {
                    base.inputs[i].non_witness_utxo = fundref;
                    if (spends[cs[i]].name != "p2pkh" && spends[cs[i]].name != "p2sh-multi" && spends[cs[i]].name != "p2pk") base.inputs[i].witness_utxo = fund.vout[cs[i]];
                }
                C.finalize_cases++;
                g_distinct.add("F" + name);
                // each signer signs its own copy (only its key), copies are combined in both orders
                std::vector<PartiallySignedTransaction> parts;
                size_t max_signers = 1;
                for (size_t t : cs) max_signers = std::max(max_signers, prep[t].per_signer.size());
                bool sign_ok = true;
                for (size_t s = 0; s < max_signers; s++) {
                    PartiallySignedTransaction p = base;
                    auto txdata = PrecomputePSBTData(p);
                    if (!txdata) { sign_ok = false; break; }
                    for (size_t i = 0; i < cs.size(); i++) {
                        const auto& ps = prep[cs[i]].per_signer;
                        const FlatSigningProvider& prov = ps[std::min(s, ps.size() - 1)];
                        (void)SignPSBTInput(prov, p, (int)i, &*txdata, {.sign = true, .sighash_type = std::nullopt, .finalize = false});
                    }
                    // every signer's PSBT must survive a round trip unchanged
                    Bytes b = encode(p);
                    auto back = decode(b);
                    if (!back || encode(*back) != b) vx::violation("signed-psbt-roundtrip " + name, "a PSBT produced by SignPSBTInput does not round-trip byte-identically", HexStr(b));
                    parts.push_back(std::move(p));
                }
                if (!sign_ok) { vx::violation("precompute-fails " + name, "PrecomputePSBTData fails for a PSBT with all UTXOs", name); continue; }
                std::vector<PartiallySignedTransaction> rev(parts.rbegin(), parts.rend());
                auto comb = CombinePSBTs(parts), comb_r = CombinePSBTs(rev);
                if (!comb || !comb_r) { vx::violation("combine-fails " + name, "CombinePSBTs of signer copies of one transaction fails", name); continue; }
                if (encode(*comb) != encode(*comb_r)) vx::violation("combine-order " + name, "combining the signer copies in reverse order gives a different PSBT", HexStr(encode(*comb)) + "\n" + HexStr(encode(*comb_r)));
                CMutableTransaction ext;
                PartiallySignedTransaction fin = *comb;
                const auto unsigned_tx = fin.GetUnsignedTx();
                if (!FinalizeAndExtractPSBT(fin, ext)) { vx::violation("finalize-fails " + name, "FinalizeAndExtractPSBT fails although every required signature is present", HexStr(encode(*comb))); continue; }
                // same transaction as the unsigned one
                CMutableTransaction stripped = ext;
                for (auto& in : stripped.vin) { in.scriptSig.clear(); in.scriptWitness.SetNull(); }
                if (!unsigned_tx || stripped.GetHash() != unsigned_tx->GetHash() || unsigned_tx->GetHash() != tx.GetHash())
                    vx::violation("extract-other-tx " + name, "extracted transaction (signatures stripped) is not the PSBT's unsigned transaction", HexStr(encode(*comb)));
                if (all_native && ext.GetHash() != tx.GetHash()) vx::violation("extract-txid " + name, "txid of the extracted all-segwit transaction differs from the unsigned transaction's", HexStr(encode(*comb)));
                if (ext.nLockTime != locktime) vx::violation("extract-locktime " + name, "extracted nLockTime " + std::to_string(ext.nLockTime) + " != " + std::to_string(locktime), name);
                PrecomputedTransactionData txdata;
                std::vector<CTxOut> spent;
                for (size_t t : cs) spent.push_back(fund.vout[t]);
                txdata.Init(ext, std::move(spent), true);
                for (size_t i = 0; i < cs.size(); i++) {
                    C.inputs_verified++;
                    if (!verify_input(ext, i, fund.vout[cs[i]], txdata)) vx::violation("extract-verify " + name + " input " + std::to_string(i), "input of the extracted transaction fails script verification against the PSBT's spent output", HexStr(encode(*comb)));
                }
                // the finalized PSBT round-trips too
                check_roundtrip("finalized " + name, encode(fin), nullptr, nullptr, true);
            }
        }
    }
}

} // namespace

int main(int argc, char** argv)
{
    vx::init(argc, argv, "C47", "exploration");
    auto& E = vx::ev();
    const bool big = vx::thorough();
    ECC_Context ecc;
    SelectParams(ChainType::MAIN);
    init_fixture();

    if (!vx::ctx().replay.empty()) {
        std::ifstream f(vx::ctx().replay);
        std::string line;
        while (std::getline(f, line)) if (!line.empty() && line[0] != '#') break;
        Bytes x = ParseHex(line);
        bool acc = check_roundtrip("replay", x, nullptr, nullptr, false);
        printf("replayed: accepted=%d violations=%d\n", acc, vx::rep().violations);
        return vx::rep().violations ? 1 : 0;
    }

    const auto IN0 = input_items(0), IN1 = input_items(1), OUT = output_items(), GL = global_items();

    // ---- (1) every subset of the 11 input field kinds, 1 input, v0 and v2; extras toggled in a second dimension
    {
        const uint32_t nsub = 1u << N_BASE_INPUT_KINDS;
        vx::par_for(nsub * 2, 64, [&](uint64_t lo, uint64_t hi, unsigned) {
            for (uint64_t c = lo; c < hi; c++) {
                const int ver = (c & 1) ? 2 : 0;
                const uint32_t mask = (uint32_t)(c >> 1);
                Raw r = base_psbt(ver, 1, 1);
                std::string name = "subset v" + std::to_string(ver);
                for (int b = 0; b < N_BASE_INPUT_KINDS; b++) if (mask >> b & 1) { add_item(r.in[0], IN0[b]); name += " " + IN0[b].name; }
                if (mask % 3 == 0) { add_item(r.in[0], IN0[21]); add_item(r.in[0], IN0[23]); } // unknown + proprietary on a third of the subsets
                if (ver == 2 && mask % 5 == 0) { r.in[0].push_back({{0x11}, le32(500000007)}); }
                if (ver == 2 && mask % 7 == 0) { r.in[0].push_back({{0x12}, le32(499999999)}); }
                check_roundtrip(name, ser_raw(r), &r, &IN0, true);
                g_distinct.add("S" + std::to_string(c));
            }
        });
    }
    // ---- (2) two inputs: every pair (kind i on input 0, kind j on input 1) over all item kinds; outputs: every subset of the output kinds; globals: every subset
    {
        for (int ver : {0, 2})
            for (size_t i = 0; i < IN0.size(); i++)
                for (size_t j = 0; j < IN1.size(); j++) {
                    Raw r = base_psbt(ver, 2, 2);
                    add_item(r.in[0], IN0[i]); add_item(r.in[1], IN1[j]);
                    check_roundtrip("pair v" + std::to_string(ver) + " " + IN0[i].name + "/" + IN1[j].name, ser_raw(r), &r, &IN0, true);
                    g_distinct.add("P" + std::to_string(ver) + "," + std::to_string(i) + "," + std::to_string(j));
                }
        for (int ver : {0, 2})
            for (uint32_t mask = 0; mask < (1u << OUT.size()); mask++) {
                Raw r = base_psbt(ver, 1, 2);
                for (size_t b = 0; b < OUT.size(); b++) if (mask >> b & 1) add_item(r.out[mask & 1], OUT[b]);
                check_roundtrip("outputs v" + std::to_string(ver) + " mask " + std::to_string(mask), ser_raw(r), &r, nullptr, true);
                g_distinct.add("O" + std::to_string(ver) + "," + std::to_string(mask));
            }
        for (int ver : {0, 2})
            for (uint32_t mask = 0; mask < (1u << GL.size()); mask++)
                for (int fb = 0; fb < (ver == 2 ? 3 : 1); fb++)
                    for (int mod = 0; mod < (ver == 2 ? 3 : 1); mod++) {
                        Raw r = base_psbt(ver, 1, 1, fb == 0 ? std::nullopt : std::optional<uint32_t>(fb == 1 ? 0 : 7));
                        for (size_t b = 0; b < GL.size(); b++) if (mask >> b & 1) add_item(r.g, GL[b]);
                        if (mod) r.g.push_back({{0x06}, {(unsigned char)(mod == 1 ? 0 : 7)}});
                        check_roundtrip("globals v" + std::to_string(ver) + " mask " + std::to_string(mask), ser_raw(r), &r, nullptr, true);
                        g_distinct.add("G" + std::to_string(ver) + "," + std::to_string(mask) + "," + std::to_string(fb) + "," + std::to_string(mod));
                    }
    }
    // ---- (3) duplicate keys in any map must not be accepted (BIP174) — if accepted, the record-level comparison fails
    {
        for (int ver : {0, 2}) {
            auto try_dup = [&](const std::string& where, Raw r) {
                C.dup_cases++;
                Bytes x = ser_raw(r);
                if (decode(x)) vx::violation("duplicate-key-accepted " + where + " v" + std::to_string(ver), "a PSBT with a duplicated key in one map is accepted", HexStr(x));
                else C.dup_rejected++;
            };
            for (auto& it : IN0) { Raw r = base_psbt(ver, 1, 1); add_item(r.in[0], it); r.in[0].push_back(it.recs[0]); try_dup("input " + it.name, r); }
            for (auto& it : OUT) { Raw r = base_psbt(ver, 1, 1); add_item(r.out[0], it); r.out[0].push_back(it.recs[0]); try_dup("output " + it.name, r); }
            for (auto& it : GL) { Raw r = base_psbt(ver, 1, 1); add_item(r.g, it); r.g.push_back(it.recs[0]); try_dup("global " + it.name, r); }
            { Raw r = base_psbt(ver, 1, 1); r.g.push_back(r.g[0]); try_dup("global first record", r); }
            if (ver == 2) { Raw r = base_psbt(ver, 1, 1); r.in[0].push_back(r.in[0][0]); try_dup("input prev_txid", r); Raw q = base_psbt(ver, 1, 1); q.out[0].push_back(q.out[0][1]); try_dup("output script", q); }
        }
    }
    // ---- (4) combine: A and B carry one or two items each (same transaction, equal values where they overlap); both orders; field-wise union
    {
        std::vector<std::vector<size_t>> sets;
        std::vector<size_t> usable;
        for (size_t i = 0; i < IN0.size(); i++) if (!IN0[i].final_field) usable.push_back(i);
        for (size_t a = 0; a < usable.size(); a++) { sets.push_back({usable[a]}); for (size_t b = a + 1; b < usable.size(); b++) sets.push_back({usable[a], usable[b]}); }
        sets.push_back({});
        vx::par_for(sets.size(), 4, [&](uint64_t lo, uint64_t hi, unsigned) {
            for (uint64_t ai = lo; ai < hi; ai++) {
                for (int ver : {0, 2}) {
                    for (size_t bi = 0; bi < sets.size(); bi++) {
                        if (!big && (ai + 3 * bi + ver) % 4 != 0 && sets[ai].size() + sets[bi].size() > 2) continue; // quick: all single/single pairs, a quarter of the rest
                        Raw ra = base_psbt(ver, 1, 1), rb = base_psbt(ver, 1, 1), ru = base_psbt(ver, 1, 1);
                        std::set<size_t> un(sets[ai].begin(), sets[ai].end()); un.insert(sets[bi].begin(), sets[bi].end());
                        std::string name = "combine v" + std::to_string(ver) + " A{";
                        for (size_t i : sets[ai]) { add_item(ra.in[0], IN0[i]); name += IN0[i].name + " "; }
                        name += "} B{";
                        for (size_t i : sets[bi]) { add_item(rb.in[0], IN0[i]); name += IN0[i].name + " "; }
                        name += "}";
                        for (size_t i : un) add_item(ru.in[0], IN0[i]);
                        // outputs / globals: the items are split between A and B (one shared), multi-record kinds (bip32, xpubs) on both sides
                        for (size_t i = 0; i < OUT.size(); i++) { const bool in_b = i % 2 == 1 || i == 6; /* bip32_a only in A, bip32_b only in B, item 1 in both */ if (!in_b || i == 1) add_item(ra.out[0], OUT[i]); if (in_b) add_item(rb.out[0], OUT[i]); add_item(ru.out[0], OUT[i]); }
                        for (size_t i = 0; i < GL.size(); i++) { if (i % 2 == 0) add_item(ra.g, GL[i]); if (i % 2 == 1 || i == 0) add_item(rb.g, GL[i]); add_item(ru.g, GL[i]); }
                        auto pa = decode(ser_raw(ra)), pb = decode(ser_raw(rb));
                        C.combines++;
                        if (!pa || !pb) { vx::violation("valid-psbt-rejected " + name, "combine operand rejected by the decoder", HexStr(ser_raw(pa ? rb : ra))); continue; }
                        auto ab = CombinePSBTs({*pa, *pb}), ba = CombinePSBTs({*pb, *pa});
                        if (!ab || !ba) { vx::violation("combine-fails " + name, "CombinePSBTs fails for two PSBTs of the same transaction", HexStr(ser_raw(ra)) + "\n" + HexStr(ser_raw(rb))); continue; }
                        const Bytes eab = encode(*ab), eba = encode(*ba);
                        Raw rab, rba;
                        if (!parse_raw(eab, rab) || rab.in.size() != 1 || rab.out.size() != 1 || !parse_raw(eba, rba) || rba.in.size() != 1 || rba.out.size() != 1) { vx::violation("combine-container", name + ": combined PSBT is not a well-formed container", HexStr(eab)); continue; }
                        const std::string replay = "# A, B (hex), combine in both orders\n" + HexStr(ser_raw(ra)) + "\n" + HexStr(ser_raw(rb));
                        if (eab != eba) for (auto& dk : diff_keys(rab, rba)) vx::violation("combine-order-dependent:" + dk, name + ": Combine(A,B) != Combine(B,A): input records " + map_str(sorted(rab.in[0])) + " vs " + map_str(sorted(rba.in[0])), replay);
                        for (int o = 0; o < 2; o++) {
                            const Raw& got = o ? rba : rab;
                            if (sorted(got.in[0]) != sorted(ru.in[0]) || sorted(got.out[0]) != sorted(ru.out[0]) || sorted(got.g) != sorted(ru.g))
                                for (auto& dk : diff_keys(ru, got)) vx::violation("combine-not-union:" + dk, name + (o ? ": Combine(B,A)" : ": Combine(A,B)") + " is not the field-wise union: input want " + map_str(sorted(ru.in[0])) + " got " + map_str(sorted(got.in[0])), replay);
                        }
                        g_distinct.add("C" + name);
                    }
                }
            }
        });
        // triples over a smaller item set: all 6 orders agree
        const std::vector<size_t> small = {2, 6, 11, 12, 21, 23};
        for (uint32_t ma = 0; ma < 64; ma++) for (uint32_t mb = 0; mb < 64; mb++) for (uint32_t mc = 0; mc < 64; mc++) {
            if (!big && (ma * 7 + mb * 3 + mc) % 16 != 0) continue;
            if (big && (ma + mb + mc) % 2 != 0) continue;
            Raw r[3] = {base_psbt(2, 1, 1), base_psbt(2, 1, 1), base_psbt(2, 1, 1)};
            uint32_t m[3] = {ma, mb, mc};
            std::vector<PartiallySignedTransaction> ps;
            for (int t = 0; t < 3; t++) { for (size_t b = 0; b < small.size(); b++) if (m[t] >> b & 1) add_item(r[t].in[0], IN0[small[b]]); auto p = decode(ser_raw(r[t])); if (p) ps.push_back(*p); }
            if (ps.size() != 3) { vx::violation("valid-psbt-rejected triple", "combine operand rejected", ""); continue; }
            C.combines++;
            Bytes first;
            int perm[6][3] = {{0, 1, 2}, {0, 2, 1}, {1, 0, 2}, {1, 2, 0}, {2, 0, 1}, {2, 1, 0}};
            for (auto& pm : perm) {
                auto c = CombinePSBTs({ps[pm[0]], ps[pm[1]], ps[pm[2]]});
                if (!c) { vx::violation("combine-fails triple", "CombinePSBTs fails", ""); break; }
                Bytes e = encode(*c);
                if (first.empty()) first = e;
                else if (e != first) {
                    Raw r1, r2;
                    parse_raw(first, r1); parse_raw(e, r2);
                    for (auto& dk : diff_keys(r1, r2)) vx::violation("combine-order-dependent-triple:" + dk, "masks " + std::to_string(ma) + "," + std::to_string(mb) + "," + std::to_string(mc) + ": combining three PSBTs gives different results in different orders", HexStr(ser_raw(r[0])) + "\n" + HexStr(ser_raw(r[1])) + "\n" + HexStr(ser_raw(r[2])));
                    break;
                }
            }
        }
    }
    // ---- (5) BIP370 locktime: all combinations for <= 3 inputs
    {
        const std::vector<std::optional<uint32_t>> TV = {std::nullopt, 500000000u, 500000007u}, HV = {std::nullopt, 1u, 499999999u}, FB = {std::nullopt, 0u, 7u};
        for (int n = 0; n <= 3; n++) {
            uint32_t combos = 1; for (int i = 0; i < n; i++) combos *= 9;
            for (uint32_t c = 0; c < combos; c++)
                for (auto& fb : FB) {
                    std::vector<std::pair<std::optional<uint32_t>, std::optional<uint32_t>>> in;
                    uint32_t x = c;
                    Raw r = base_psbt(2, n, 1, fb);
                    std::string name = "locktime fb=" + (fb ? std::to_string(*fb) : std::string("-"));
                    for (int i = 0; i < n; i++) {
                        auto t = TV[x % 3], h = HV[(x / 3) % 3]; x /= 9;
                        in.emplace_back(t, h);
                        if (t) r.in[i].push_back({{0x11}, le32(*t)});
                        if (h) r.in[i].push_back({{0x12}, le32(*h)});
                        name += " (" + (t ? std::to_string(*t) : std::string("-")) + "," + (h ? std::to_string(*h) : std::string("-")) + ")";
                    }
                    C.locktime_cases++;
                    const auto want = ref_locktime(in, fb);
                    auto p = decode(ser_raw(r));
                    if (!p) { vx::violation("valid-psbt-rejected " + name, "PSBTv2 with valid locktime fields rejected", HexStr(ser_raw(r))); continue; }
                    const auto got = p->ComputeTimeLock();
                    const auto utx = p->GetUnsignedTx();
                    if (got != want) vx::violation("bip370-locktime " + name, "ComputeTimeLock gives " + (got ? std::to_string(*got) : std::string("undetermined")) + ", BIP370 gives " + (want ? std::to_string(*want) : std::string("undetermined")), HexStr(ser_raw(r)));
                    if (utx.has_value() != want.has_value() || (utx && utx->nLockTime != *want)) vx::violation("bip370-unsigned-tx " + name, "GetUnsignedTx does not carry the BIP370 locktime", HexStr(ser_raw(r)));
                    if (!want) C.locktime_undetermined++;
                    else if (in.empty() || std::all_of(in.begin(), in.end(), [](auto& p) { return !p.first && !p.second; })) C.locktime_fallback++;
                    else if (*want < 500000000) C.locktime_height++;
                    else C.locktime_time++;
                    g_distinct.add("L" + name);
                    check_roundtrip(name, ser_raw(r), &r, nullptr, true);
                }
        }
        // value ranges of the two fields (BIP370: time >= 500000000, 0 < height < 500000000)
        for (uint32_t v : {0u, 1u, 499999999u, 500000000u, 500000001u, 0xffffffffu})
            for (int field : {0x11, 0x12}) {
                Raw r = base_psbt(2, 1, 1);
                r.in[0].push_back({{(unsigned char)field}, le32(v)});
                const bool valid = field == 0x11 ? v >= 500000000u : (v > 0 && v < 500000000u);
                C.locktime_decode++;
                auto p = decode(ser_raw(r));
                if (!p) C.locktime_decode_rejected++;
                if ((bool)p != valid) vx::violation("bip370-field-range field " + std::to_string(field) + " value " + std::to_string(v), std::string("locktime field value is ") + (p ? "accepted" : "rejected") + " but BIP370 says it is " + (valid ? "valid" : "invalid"), HexStr(ser_raw(r)));
            }
    }
    // ---- (6) finalize + extract with real signatures
    finalize_part(big);

    // ---- (7) byte-level mutations of three small valid PSBTs: every byte x 2 bit flips (x 8 in thorough), every truncation
    {
        std::vector<Bytes> seeds;
        { Raw r = base_psbt(0, 1, 1); add_item(r.in[0], IN0[1]); add_item(r.in[0], IN0[2]); add_item(r.out[0], OUT[2]); seeds.push_back(ser_raw(r)); }
        { Raw r = base_psbt(2, 1, 1, 7); add_item(r.in[0], IN0[1]); add_item(r.in[0], IN0[6]); r.in[0].push_back({{0x12}, le32(100)}); add_item(r.g, GL[0]); add_item(r.out[0], OUT[4]); seeds.push_back(ser_raw(r)); }
        { Raw r = base_psbt(2, 2, 1); add_item(r.in[0], IN0[10]); add_item(r.in[1], IN1[8]); add_item(r.in[1], IN1[21]); add_item(r.in[0], IN0[23]); seeds.push_back(ser_raw(r)); }
        for (size_t si = 0; si < seeds.size(); si++) {
            const Bytes& s = seeds[si];
            if (!decode(s)) { vx::violation("valid-psbt-rejected mutation seed " + std::to_string(si), "seed rejected", HexStr(s)); continue; }
            std::atomic<uint64_t> acc{0};
            vx::par_for(s.size(), 16, [&](uint64_t lo, uint64_t hi, unsigned) {
                for (uint64_t i = lo; i < hi; i++) {
                    for (int bit = 0; bit < 8; bit++) {
                        if (!big && bit != 0 && bit != 7) continue;
                        Bytes m = s; m[i] ^= (unsigned char)(1 << bit);
                        C.mutations++;
                        if (check_roundtrip("mutation seed " + std::to_string(si) + " byte " + std::to_string(i) + " bit " + std::to_string(bit), m, nullptr, nullptr, false)) acc++;
                    }
                    Bytes t(s.begin(), s.begin() + i);
                    C.mutations++;
                    if (check_roundtrip("truncation seed " + std::to_string(si) + " at " + std::to_string(i), t, nullptr, nullptr, false)) acc++;
                }
            });
            C.mutations_accepted += acc;
        }
    }

    E.evaluations = C.roundtrips + C.combines + C.locktime_cases + C.locktime_decode + C.dup_cases + C.finalize_cases;
    E.distinct_nontrivial = g_distinct.size();
    for (auto [k, v] : std::initializer_list<std::pair<const char*, uint64_t>>{{"roundtrips", C.roundtrips}, {"decoder_accepted", C.accepted}, {"decoder_rejected", C.rejected}, {"record_level_comparisons", C.maplevel},
             {"finalized_inputs_normalised", C.finalized_norm}, {"self_merges", C.selfmerge}, {"combines", C.combines}, {"locktime_cases", C.locktime_cases}, {"locktime_undetermined", C.locktime_undetermined},
             {"locktime_height", C.locktime_height}, {"locktime_time", C.locktime_time}, {"locktime_fallback", C.locktime_fallback}, {"locktime_range_cases", C.locktime_decode}, {"locktime_range_rejected", C.locktime_decode_rejected},
             {"duplicate_key_cases", C.dup_cases}, {"duplicate_key_rejected", C.dup_rejected}, {"finalize_cases", C.finalize_cases}, {"inputs_script_verified", C.inputs_verified}, {"byte_mutations", C.mutations}, {"byte_mutations_accepted", C.mutations_accepted}})
        E.set(k, v);
    E.rule = "map-level generator: (1) every subset of 11 input field kinds x {v0,v2} (+unknown/proprietary/v2 locktime fields on fixed residues); (2) 2 inputs: every ordered pair of 25 input items, every subset of 9 output items, every subset of 5 global items x fallback {-,0,7} x modifiable {-,0,7}; "
             "(3) each item duplicated in its map must be rejected; (4) combine: A,B in {<=2 of 23 non-final input items} (quick: all single/single pairs + 1/4 of the rest) with split output/global items, both orders, record-level union; triples over 6 items in all 6 orders; "
             "(5) BIP370: all (time in {-,5e8,5e8+7}) x (height in {-,1,499999999}) per input for 0..3 inputs x fallback {-,0,7}, field range boundaries; (6) finalize+extract: 9 script types singly and in ordered pairs (quick: a third), v0/v2, one PSBT copy per signer combined in both orders, every input script-verified; "
             "(7) every byte x 2 (thorough 8) bit flips and every truncation of 3 PSBTs; each accepted PSBT: re-encode fixpoint, same content, Merge(x,x)==x, and for generated PSBTs record-multiset equality; distinct = distinct generated cases";
    E.assume("a finalized input (final scriptSig / scriptWitness present) legitimately loses its signer fields when re-encoded (serializer applies the BIP174 finalizer rule); everything else must be preserved record by record");
    E.assume("musig2 fields are not generated");
    if (!vx::rep().violations) {
        if (!C.rejected || !C.mutations_accepted || !C.finalized_norm || !C.locktime_undetermined || !C.locktime_height || !C.locktime_time || !C.locktime_fallback || C.dup_rejected != C.dup_cases || !C.inputs_verified || !C.locktime_decode_rejected) {
            printf("HARNESS-ERROR vacuous outcome class (see evidence counters)\n");
            vx::write_evidence();
            return 2;
        }
    }
    E.sample("subset cases: " + std::to_string(2u << N_BASE_INPUT_KINDS) + ", combines: " + std::to_string(C.combines.load()) + ", locktime cases: " + std::to_string(C.locktime_cases.load()) + " (undetermined " + std::to_string(C.locktime_undetermined.load()) + ")");
    E.sample("finalize cases: " + std::to_string(C.finalize_cases.load()) + " inputs verified: " + std::to_string(C.inputs_verified.load()) + "; byte mutations: " + std::to_string(C.mutations.load()) + " accepted " + std::to_string(C.mutations_accepted.load()));
    return vx::finish();
}
