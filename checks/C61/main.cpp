// C61 — Core containers and allocators behave like their standard counterparts.
//
// Engine VX-STATE (history replay, kits/histbfs.h): for each container a breadth-first search over ALL operation
// histories up to a depth bound; every history is replayed on a fresh real object and a fresh std:: model, states
// are merged on (contents + every internal quantity that influences later behaviour: capacity, storage mode,
// ring offset, padding, free lists).  After every transition the complete public read API is compared with the
// model.
//
//   prevector<4,uint8_t>, prevector<8,int>   vs std::vector      (sizes straddle the inline capacity N)
//   bitdeque<8>                              vs std::deque<bool> (8-bit words: word edges every few operations)
//   VecDeque<int> (memcpy paths), VecDeque<Tracked> (construct/destroy paths, live-instance registry)
//                                            vs std::deque
//   PoolResource<128,8> with 160-byte chunks vs a reference allocator (counts per size class, bump pointer)
//
// The harness is built with AddressSanitizer and -DABORT_ON_FAILED_ASSUME: an out-of-bounds access, a double
// free, a use of pool memory after Deallocate, or a failed Assume()/assert() inside the containers kills the
// (fork()ed) exploration process, which hb::guarded reports as a VIOLATION with the history.
// "Fresh" element values are 1 + the largest value currently stored, so all elements of a container are
// pairwise distinct (order/shift bugs are visible) while equal contents reached on different paths still merge.
#include <sanitizer/asan_interface.h> // first: activates the ASAN_POISON_MEMORY_REGION annotations in pool.h (gcc 12 has no __has_feature)
#include <vx/vx.h>
#include <kits/histbfs.h>

#include <prevector.h>
#include <support/allocators/pool.h>
#include <test/util/poolresourcetester.h>
#include <util/bitdeque.h>
#include <util/vecdeque.h>

#include <deque>
#include <malloc.h>
#include <source_location>
#include <string_view>
#include <unordered_set>

// The only out-of-line symbol the four headers need (normally in util/check.cpp); this harness links no repo library.
void assertion_fail(const std::source_location& loc, std::string_view assertion)
{
    fprintf(stderr, "%s:%d %s: Assertion `%.*s' failed.\n", loc.file_name(), (int)loc.line(), loc.function_name(), (int)assertion.size(), assertion.data());
    std::abort();
}
extern "C" const char* __asan_default_options()
{
    // small quarantine: freed memory is reused (and stays mapped) instead of page-faulting in fresh memory for every replay
    return "abort_on_error=1:detect_leaks=0:quarantine_size_mb=1:thread_local_quarantine_size_kb=16";
}

namespace {

// ------------------------------------------------------------------------------------------------ shared plumbing
struct OpDesc { int kind, x, y; std::string name; };

struct Section {
    std::string name;
    std::vector<OpDesc> ops;
    int depth_quick, depth_thorough;
    std::function<bool(const Section&, const std::string& hist, std::string& key)> replay;
};

struct FailCtx { const Section* sec = nullptr; const std::string* hist = nullptr; };
thread_local FailCtx t_ctx;

std::string HistText(const Section& sec, const std::string& h)
{
    std::string s = "section " + sec.name + "\n";
    for (unsigned char o : h) s += sec.ops[o].name + "\n";
    return s;
}
void Fail(const std::string& cls, const std::string& what)
{
    const Section& sec = *t_ctx.sec;
    const std::string& h = *t_ctx.hist;
    const std::string last = h.empty() ? "(initial)" : sec.ops[(unsigned char)h.back()].name;
    vx::violation(sec.name + ":" + cls + ":" + last, what + " [after " + std::to_string(h.size()) + " operations, last " + last + "]", HistText(sec, h));
}
#define EXPECT(cond, cls, what) do { if (!(cond)) Fail(cls, what); } while (0)

// things that must have been seen, per section (sanity gates against vacuous alphabets)
struct Seen { std::atomic<uint64_t> n[8]{}; };
Seen g_prevector, g_bitdeque, g_vecdeque, g_pool;

// Position selectors shared by the sequence containers. A selector is enabled only where it denotes a position
// different from the lower-numbered selectors, so no transition is explored twice.
int InsertPos(int sel, size_t size) // 0 = begin, 1 = middle, 2 = end
{
    if (sel == 0) return 0;
    if (sel == 1) return size >= 2 ? (int)(size / 2) : -1;
    return size >= 1 ? (int)size : -1;
}
int ErasePos(int sel, size_t size) // 0 = first, 1 = middle, 2 = last
{
    if (sel == 0) return size >= 1 ? 0 : -1;
    if (sel == 1) return size >= 3 ? (int)(size / 2) : -1;
    return size >= 2 ? (int)size - 1 : -1;
}
bool EraseRange(int sel, size_t size, int& first, int& last)
{
    switch (sel) {
    case 0: first = 0; last = 1; return size >= 1;
    case 1: first = 0; last = (int)size; return size >= 2;
    case 2: first = (int)(size / 2); last = (int)size; return size >= 2;
    case 3: first = 1; last = (int)size - 1; return size >= 3;
    default: first = last = (int)(size / 2); return true; // empty range
    }
}

// ================================================================================================ 1. prevector
template <unsigned N, typename T>
struct PrevectorSection {
    using PV = prevector<N, T>;
    enum Kind { PUSH, POP, INS1, INSN, INSR, ERASE1, ERASER, RESIZE, ASSIGN_N, ASSIGN_R, ASSIGN_B, RESERVE, SHRINK, CLEAR, RESIZE_UNINIT, COPY_AB, COPY_BA, MOVE_AB, MOVE_BA, SWAP, SELF };
    struct World { PV a, b; std::vector<T> ma, mb; };

    static std::vector<OpDesc> Ops()
    {
        std::vector<OpDesc> o;
        const char* P[] = {"begin", "mid", "end"};
        const char* E[] = {"first", "mid", "last"};
        const std::string n = std::to_string(N);
        o.push_back({PUSH, 0, 0, "push_back(fresh)"});
        o.push_back({POP, 0, 0, "pop_back()"});
        for (int p = 0; p < 3; p++) o.push_back({INS1, p, 0, std::string("insert(") + P[p] + ",fresh)"});
        for (int p = 0; p < 3; p++) for (int c : {0, 2, (int)N}) o.push_back({INSN, p, c, std::string("insert(") + P[p] + "," + std::to_string(c) + ",fresh)"});
        for (int p = 0; p < 3; p++) for (int c : {0, 3}) o.push_back({INSR, p, c, std::string("insert(") + P[p] + ",range" + std::to_string(c) + ")"});
        for (int p = 0; p < 3; p++) o.push_back({ERASE1, p, 0, std::string("erase(") + E[p] + ")"});
        for (int r = 0; r < 5; r++) o.push_back({ERASER, r, 0, "erase(range" + std::to_string(r) + ")"});
        for (int t = 0; t < 6; t++) o.push_back({RESIZE, t, 0, "resize(t" + std::to_string(t) + ")"});
        for (int c : {0, (int)N, (int)N + 1}) o.push_back({ASSIGN_N, c, 0, "assign(" + std::to_string(c) + ",fresh)"});
        for (int c : {0, (int)N, (int)N + 1}) o.push_back({ASSIGN_R, c, 0, "assign(range" + std::to_string(c) + ")"});
        o.push_back({ASSIGN_B, 0, 0, "assign(b.begin,b.end)"});
        for (int c : {(int)N, (int)N + 1, 2 * (int)N + 2}) o.push_back({RESERVE, c, 0, "reserve(" + std::to_string(c) + ")"});
        o.push_back({SHRINK, 0, 0, "shrink_to_fit()"});
        o.push_back({CLEAR, 0, 0, "clear()"});
        for (int t = 0; t < 4; t++) o.push_back({RESIZE_UNINIT, t, 0, "resize_uninitialized(u" + std::to_string(t) + ")+fill"});
        o.push_back({COPY_AB, 0, 0, "b=a"});
        o.push_back({COPY_BA, 0, 0, "a=b"});
        o.push_back({MOVE_AB, 0, 0, "b=move(a);a.clear()"});
        o.push_back({MOVE_BA, 0, 0, "a=move(b);b.clear()"});
        o.push_back({SWAP, 0, 0, "a.swap(b)"});
        o.push_back({SELF, 0, 0, "a=a"});
        return o;
    }

    static T Fresh(const World& w)
    {
        T m = 0;
        for (T x : w.ma) m = std::max(m, x);
        for (T x : w.mb) m = std::max(m, x);
        return T(m + 1);
    }
    static int ResizeTarget(int t, size_t size)
    {
        switch (t) {
        case 0: return 0;
        case 1: return (int)size - 1;
        case 2: return (int)size + 1;
        case 3: return N;
        case 4: return N + 1;
        default: return 2 * N + 1;
        }
    }

    // one operation on both sides; false = not enabled in this state
    static bool Apply(World& w, const OpDesc& op)
    {
        PV& a = w.a;
        std::vector<T>& m = w.ma;
        const size_t size = m.size(), cap = a.capacity();
        const T v = Fresh(w);
        bool cap_must_stay = false;
        switch (op.kind) {
        case PUSH: a.push_back(v); m.push_back(v); break;
        case POP: if (!size) return false; a.pop_back(); m.pop_back(); cap_must_stay = true; break;
        case INS1: {
            const int p = InsertPos(op.x, size);
            if (p < 0) return false;
            auto it = a.insert(a.begin() + p, v);
            m.insert(m.begin() + p, v);
            EXPECT(it - a.begin() == p && *it == v, "insert-ret", "insert(pos,value) returned an iterator that is not the inserted element");
            break;
        }
        case INSN: {
            const int p = InsertPos(op.x, size);
            if (p < 0) return false;
            a.insert(a.begin() + p, (typename PV::size_type)op.y, v);
            m.insert(m.begin() + p, (size_t)op.y, v);
            break;
        }
        case INSR: {
            const int p = InsertPos(op.x, size);
            if (p < 0) return false;
            const T src[3] = {v, T(v + 1), T(v + 2)};
            a.insert(a.begin() + p, src, src + op.y);
            m.insert(m.begin() + p, src, src + op.y);
            break;
        }
        case ERASE1: {
            const int p = ErasePos(op.x, size);
            if (p < 0) return false;
            auto it = a.erase(a.begin() + p);
            m.erase(m.begin() + p);
            EXPECT(it - a.begin() == p, "erase-ret", "erase(pos) returned a wrong iterator");
            cap_must_stay = true;
            break;
        }
        case ERASER: {
            int f, l;
            if (!EraseRange(op.x, size, f, l)) return false;
            auto it = a.erase(a.begin() + f, a.begin() + l);
            m.erase(m.begin() + f, m.begin() + l);
            EXPECT(it - a.begin() == f, "erase-ret", "erase(first,last) returned a wrong iterator");
            cap_must_stay = true;
            break;
        }
        case RESIZE: {
            const int t = ResizeTarget(op.x, size);
            if (t < 0) return false;
            a.resize(t);
            m.resize(t);
            cap_must_stay = (size_t)t <= size;
            break;
        }
        case ASSIGN_N: a.assign((typename PV::size_type)op.x, v); m.assign((size_t)op.x, v); break;
        case ASSIGN_R: {
            T src[N + 1];
            for (unsigned i = 0; i <= N; i++) src[i] = T(v + i);
            a.assign(src, src + op.x);
            m.assign(src, src + op.x);
            break;
        }
        case ASSIGN_B: a.assign(w.b.begin(), w.b.end()); m = w.mb; break;
        case RESERVE:
            a.reserve(op.x);
            EXPECT(a.capacity() >= (size_t)op.x && a.capacity() >= cap, "reserve", "capacity after reserve(n) is below n or shrank");
            break;
        case SHRINK:
            a.shrink_to_fit();
            EXPECT(a.capacity() == std::max<size_t>(N, size), "shrink", "capacity after shrink_to_fit is not max(N,size)");
            if (cap > N && size <= N) g_prevector.n[2]++; // indirect -> direct
            break;
        case CLEAR: a.clear(); m.clear(); cap_must_stay = true; break;
        case RESIZE_UNINIT: {
            const int t = op.x == 0 ? (int)size - 1 : op.x == 1 ? (int)size + 1 : op.x == 2 ? (int)N + 1 : 2 * (int)N + 1;
            if (t < 0) return false;
            a.resize_uninitialized(t);
            m.resize(t);
            for (size_t i = size; i < (size_t)t; i++) { a[i] = T(v + (i - size)); m[i] = T(v + (i - size)); }
            break;
        }
        case COPY_AB: w.b = a; w.mb = m; break;
        case COPY_BA: a = w.b; m = w.mb; break;
        case MOVE_AB: w.b = std::move(a); w.mb = std::move(m); a.clear(); m.clear(); break;
        case MOVE_BA: a = std::move(w.b); m = std::move(w.mb); w.b.clear(); w.mb.clear(); break;
        case SWAP: a.swap(w.b); m.swap(w.mb); break;
        case SELF: { PV& alias = a; a = alias; break; }
        }
        if (cap_must_stay) EXPECT(a.capacity() == cap, "capacity-changed", "an erasing operation changed the capacity");
        if (cap == N && a.capacity() > N) g_prevector.n[1]++; // direct -> indirect
        return true;
    }

    static void Compare(const char* which, PV& v, const std::vector<T>& m)
    {
        const std::string W = which;
        EXPECT(v.size() == m.size() && v.empty() == m.empty(), "size", W + ".size() " + std::to_string(v.size()) + " != model " + std::to_string(m.size()));
        if (v.size() != m.size()) return;
        const PV& cv = v;
        bool same = true;
        for (size_t i = 0; i < m.size(); i++) same &= v[i] == m[i] && cv[i] == m[i] && v.data()[i] == m[i] && *(v.begin() + i) == m[i] && *(cv.end() - (m.size() - i)) == m[i];
        same &= (size_t)(v.end() - v.begin()) == m.size() && std::equal(cv.begin(), cv.end(), m.begin(), m.end());
        if (!m.empty()) same &= v.front() == m.front() && v.back() == m.back() && cv.front() == m.front() && cv.back() == m.back();
        if (!same) {
            std::string got, want;
            for (size_t i = 0; i < m.size(); i++) { got += std::to_string(+v[i]) + " "; want += std::to_string(+m[i]) + " "; }
            Fail("contents", W + " holds [ " + got + "], model [ " + want + "]");
        }
        // storage mode and memory accounting
        EXPECT(v.capacity() >= v.size() && v.capacity() >= N, "capacity", W + ".capacity() below size or below N");
        if (v.is_direct()) {
            EXPECT(v.capacity() == N && v.allocated_memory() == 0, "accounting", W + " is in direct mode but reports capacity != N or allocated memory");
            g_prevector.n[3]++;
        } else {
            EXPECT(v.allocated_memory() == v.capacity() * sizeof(T), "accounting", W + ".allocated_memory() is not capacity*sizeof(T)");
            EXPECT(malloc_usable_size(v._union.indirect_contents.indirect) >= v.capacity() * sizeof(T), "accounting", W + " claims more capacity than its heap block holds");
            g_prevector.n[4]++;
        }
        // copy / move construction and comparison
        PV copy(v);
        EXPECT(copy == v && v == copy && copy.size() == m.size() && std::equal(copy.begin(), copy.end(), m.begin(), m.end()), "copy-ctor", "copy-constructed " + W + " differs");
        PV moved(std::move(copy));
        EXPECT(moved.size() == m.size() && std::equal(moved.begin(), moved.end(), m.begin(), m.end()), "move-ctor", "move-constructed " + W + " differs");
        PV ranged(m.begin(), m.end());
        EXPECT(ranged == v, "range-ctor", "prevector(first,last) differs from " + W);
    }

    static bool Replay(const Section& sec, const std::string& hist, std::string& key)
    {
        t_ctx = {&sec, &hist};
        World w;
        for (size_t i = 0; i < hist.size(); i++) {
            if (!Apply(w, sec.ops[(unsigned char)hist[i]])) return false;
        }
        Compare("a", w.a, w.ma);
        Compare("b", w.b, w.mb);
        EXPECT((w.a == w.b) == (w.ma == w.mb), "operator==", "a==b disagrees with the models");
        EXPECT((int)(w.a < w.b) + (int)(w.b < w.a) + (int)(w.a == w.b) == 1 && !(w.a < w.a), "operator<", "operator< is not a strict total order consistent with ==");
        for (const auto* p : {&w.ma, &w.mb}) { key += (char)p->size(); for (T x : *p) key += (char)x; }
        key += (char)w.a.capacity();
        key += (char)w.b.capacity();
        g_prevector.n[0]++;
        return true;
    }

    static Section Make(const std::string& name, int dq, int dt)
    {
        return Section{name, Ops(), dq, dt, [](const Section& s, const std::string& h, std::string& k) { return Replay(s, h, k); }};
    }
};

// ================================================================================================ 2. bitdeque
struct BitdequeSection {
    static constexpr int W = 8; // bits per word
    using BD = bitdeque<W>;
    enum Kind { PUSH_B, PUSH_F, EMPL_B, EMPL_F, POP_B, POP_F, INS1, INSN, INSR, ERASE1, ERASER, RESIZE, ASSIGN_N, ASSIGN_R, ASSIGN_IL, OPEQ_IL, CLEAR, SHRINK, FLIP, FLIP_AT, COPY_AB, COPY_BA, MOVE_AB, MOVE_BA, SWAP };
    struct World { BD a, b; std::deque<bool> ma, mb; };
    static constexpr bool PATTERN[9] = {1, 0, 1, 1, 0, 0, 1, 0, 1};

    static std::vector<OpDesc> Ops()
    {
        std::vector<OpDesc> o;
        const char* P[] = {"begin", "mid", "end"};
        const char* E[] = {"first", "mid", "last"};
        for (int v = 0; v < 2; v++) o.push_back({PUSH_B, v, 0, "push_back(" + std::to_string(v) + ")"});
        for (int v = 0; v < 2; v++) o.push_back({PUSH_F, v, 0, "push_front(" + std::to_string(v) + ")"});
        o.push_back({EMPL_B, 1, 0, "emplace_back(1)"});
        o.push_back({EMPL_F, 0, 0, "emplace_front(0)"});
        o.push_back({POP_B, 0, 0, "pop_back()"});
        o.push_back({POP_F, 0, 0, "pop_front()"});
        for (int p = 0; p < 3; p++) for (int v = 0; v < 2; v++) o.push_back({INS1, p, v, std::string("insert(") + P[p] + "," + std::to_string(v) + ")"});
        for (int p = 0; p < 3; p++) for (int c : {0, 3, 9}) o.push_back({INSN, p, c, std::string("insert(") + P[p] + "," + std::to_string(c) + ",1)"});
        for (int p = 0; p < 3; p++) for (int c : {5, 9}) o.push_back({INSR, p, c, std::string("insert(") + P[p] + ",pattern" + std::to_string(c) + ")"});
        for (int p = 0; p < 3; p++) o.push_back({ERASE1, p, 0, std::string("erase(") + E[p] + ")"});
        for (int r = 0; r < 5; r++) o.push_back({ERASER, r, 0, "erase(range" + std::to_string(r) + ")"});
        for (int t = 0; t < 7; t++) o.push_back({RESIZE, t, 0, "resize(t" + std::to_string(t) + ")"});
        for (int c : {0, 8, 9}) for (int v = 0; v < 2; v++) o.push_back({ASSIGN_N, c, v, "assign(" + std::to_string(c) + "," + std::to_string(v) + ")"});
        o.push_back({ASSIGN_R, 9, 0, "assign(pattern9)"});
        o.push_back({ASSIGN_IL, 0, 0, "assign({1,0,0,1})"});
        o.push_back({OPEQ_IL, 0, 0, "a={0,1,1}"});
        o.push_back({CLEAR, 0, 0, "clear()"});
        o.push_back({SHRINK, 0, 0, "shrink_to_fit()"});
        for (int p = 0; p < 3; p++) o.push_back({FLIP, p, 0, std::string("a[") + E[p] + "].flip()"});
        o.push_back({FLIP_AT, 1, 0, "a.at(mid)=!a.at(mid)"});
        o.push_back({COPY_AB, 0, 0, "b=a"});
        o.push_back({COPY_BA, 0, 0, "a=b"});
        o.push_back({MOVE_AB, 0, 0, "b=move(a);a.clear()"});
        o.push_back({MOVE_BA, 0, 0, "a=move(b);b.clear()"});
        o.push_back({SWAP, 0, 0, "swap(a,b)"});
        return o;
    }

    static bool Apply(World& w, const OpDesc& op)
    {
        BD& a = w.a;
        std::deque<bool>& m = w.ma;
        const size_t size = m.size();
        switch (op.kind) {
        case PUSH_B: a.push_back(op.x); m.push_back(op.x); break;
        case PUSH_F: a.push_front(op.x); m.push_front(op.x); break;
        case EMPL_B: { auto ref = a.emplace_back(op.x); m.emplace_back(op.x); EXPECT(ref == (bool)op.x, "emplace-ret", "emplace_back returned a reference to another bit"); break; }
        case EMPL_F: { auto ref = a.emplace_front(op.x); m.emplace_front(op.x); EXPECT(ref == (bool)op.x, "emplace-ret", "emplace_front returned a reference to another bit"); break; }
        case POP_B: if (!size) return false; a.pop_back(); m.pop_back(); break;
        case POP_F: if (!size) return false; a.pop_front(); m.pop_front(); break;
        case INS1: {
            const int p = InsertPos(op.x, size);
            if (p < 0) return false;
            auto it = a.insert(a.cbegin() + p, (bool)op.y);
            m.insert(m.begin() + p, (bool)op.y);
            EXPECT(it - a.begin() == p, "insert-ret", "insert(pos,value) returned a wrong iterator");
            break;
        }
        case INSN: {
            const int p = InsertPos(op.x, size);
            if (p < 0) return false;
            auto it = a.insert(a.cbegin() + p, (size_t)op.y, true);
            m.insert(m.begin() + p, (size_t)op.y, true);
            EXPECT(it - a.begin() == p, "insert-ret", "insert(pos,count,value) returned a wrong iterator");
            break;
        }
        case INSR: {
            const int p = InsertPos(op.x, size);
            if (p < 0) return false;
            auto it = a.insert(a.cbegin() + p, PATTERN, PATTERN + op.y);
            m.insert(m.begin() + p, PATTERN, PATTERN + op.y);
            EXPECT(it - a.begin() == p, "insert-ret", "insert(pos,first,last) returned a wrong iterator");
            break;
        }
        case ERASE1: {
            const int p = ErasePos(op.x, size);
            if (p < 0) return false;
            auto it = a.erase(a.cbegin() + p);
            m.erase(m.begin() + p);
            EXPECT(it - a.begin() == p, "erase-ret", "erase(pos) returned a wrong iterator");
            break;
        }
        case ERASER: {
            int f, l;
            if (!EraseRange(op.x, size, f, l)) return false;
            auto it = a.erase(a.cbegin() + f, a.cbegin() + l);
            m.erase(m.begin() + f, m.begin() + l);
            EXPECT(it - a.begin() == f, "erase-ret", "erase(first,last) returned a wrong iterator");
            break;
        }
        case RESIZE: {
            const int t = op.x == 0 ? 0 : op.x == 1 ? (int)size - 1 : op.x == 2 ? (int)size + 1 : op.x == 3 ? W - 1 : op.x == 4 ? W : op.x == 5 ? W + 1 : 2 * W + 1;
            if (t < 0) return false;
            a.resize(t);
            m.resize(t);
            break;
        }
        case ASSIGN_N: a.assign((size_t)op.x, (bool)op.y); m.assign((size_t)op.x, (bool)op.y); break;
        case ASSIGN_R: a.assign(PATTERN, PATTERN + op.x); m.assign(PATTERN, PATTERN + op.x); break;
        case ASSIGN_IL: a.assign({true, false, false, true}); m.assign({true, false, false, true}); break;
        case OPEQ_IL: a = {false, true, true}; m = {false, true, true}; break;
        case CLEAR: a.clear(); m.clear(); break;
        case SHRINK: a.shrink_to_fit(); break;
        case FLIP: {
            const int p = ErasePos(op.x, size);
            if (p < 0) return false;
            a[p].flip();
            m[p] = !m[p];
            break;
        }
        case FLIP_AT: {
            if (size < 1) return false;
            a.at(size / 2) = !a.at(size / 2);
            m[size / 2] = !m[size / 2];
            break;
        }
        case COPY_AB: w.b = a; w.mb = m; break;
        case COPY_BA: a = w.b; m = w.mb; break;
        case MOVE_AB: w.b = std::move(a); w.mb = std::move(m); a.clear(); m.clear(); break;
        case MOVE_BA: a = std::move(w.b); m = std::move(w.mb); w.b.clear(); w.mb.clear(); break;
        case SWAP: swap(a, w.b); m.swap(w.mb); break;
        }
        return true;
    }

    static void Compare(const char* which, BD& v, const std::deque<bool>& m)
    {
        const std::string Wn = which;
        const BD& cv = v;
        EXPECT(v.size() == m.size() && v.empty() == m.empty() && v.max_size() >= v.size(), "size", Wn + ".size() " + std::to_string(v.size()) + " != model " + std::to_string(m.size()));
        if (v.size() != m.size()) return;
        const ptrdiff_t n = (ptrdiff_t)m.size();
        bool same = (v.end() - v.begin()) == n && (cv.cend() - cv.cbegin()) == n;
        for (ptrdiff_t i = 0; i < n; i++) same &= v[i] == m[i] && cv[i] == m[i] && v.at(i) == m[i] && cv.at(i) == m[i] && v.begin()[i] == m[i] && *(cv.end() - (n - i)) == m[i];
        same &= std::equal(v.begin(), v.end(), m.begin(), m.end()) && std::equal(cv.begin(), cv.end(), m.begin(), m.end());
        same &= std::equal(v.rbegin(), v.rend(), m.rbegin(), m.rend()) && std::equal(cv.crbegin(), cv.crend(), m.rbegin(), m.rend());
        if (n) same &= v.front() == m.front() && v.back() == m.back() && cv.front() == m.front() && cv.back() == m.back();
        if (!same) {
            std::string got, want;
            for (ptrdiff_t i = 0; i < n; i++) { got += v[i] ? '1' : '0'; want += m[i] ? '1' : '0'; }
            Fail("contents", Wn + " holds " + got + ", model " + want);
        }
        // iterator arithmetic across word edges: every (position, jump) pair
        bool arith = true;
        for (ptrdiff_t i = 0; i <= n; i++) {
            for (ptrdiff_t j = 0; j <= n; j++) {
                auto it = cv.begin() + i;
                auto jt = it;
                jt += (j - i);
                arith &= jt == cv.begin() + j && (jt - it) == (j - i) && (cv.begin() + j) - (cv.begin() + i) == j - i && ((it <=> jt) == (i <=> j));
                auto kt = it;
                kt -= (i - j);
                arith &= kt == jt;
            }
            auto inc = cv.begin() + i;
            if (i < n) { auto x = inc; ++x; arith &= x == cv.begin() + (i + 1); auto y = inc++; arith &= y == cv.begin() + i && inc == cv.begin() + (i + 1); }
            auto dec = cv.begin() + i;
            if (i > 0) { auto x = dec; --x; arith &= x == cv.begin() + (i - 1); auto y = dec--; arith &= y == cv.begin() + i && dec == cv.begin() + (i - 1); }
        }
        EXPECT(arith, "iterator-arithmetic", Wn + ": iterator +=, -=, ++, --, difference or comparison is inconsistent");
        bool threw = false;
        try { (void)cv.at(n); } catch (const std::out_of_range&) { threw = true; }
        EXPECT(threw, "at-range", Wn + ".at(size()) did not throw std::out_of_range");
        BD copy(v);
        EXPECT(copy.size() == m.size() && std::equal(copy.begin(), copy.end(), m.begin(), m.end()), "copy-ctor", "copy-constructed " + Wn + " differs");
        BD moved(std::move(copy));
        EXPECT(moved.size() == m.size() && std::equal(moved.begin(), moved.end(), m.begin(), m.end()), "move-ctor", "move-constructed " + Wn + " differs");
        BD ranged(m.begin(), m.end());
        EXPECT(ranged.size() == m.size() && std::equal(ranged.begin(), ranged.end(), m.begin(), m.end()), "range-ctor", "bitdeque(first,last) differs from " + Wn);
        if (v.m_deque.size() >= 3) g_bitdeque.n[1]++;
        if (v.m_pad_begin) g_bitdeque.n[2]++;
        if (v.m_pad_end) g_bitdeque.n[3]++;
    }

    static bool Replay(const Section& sec, const std::string& hist, std::string& key)
    {
        t_ctx = {&sec, &hist};
        World w;
        for (size_t i = 0; i < hist.size(); i++) {
            if (!Apply(w, sec.ops[(unsigned char)hist[i]])) return false;
        }
        Compare("a", w.a, w.ma);
        Compare("b", w.b, w.mb);
        for (const BD* p : {&w.a, &w.b}) {
            key += (char)p->m_deque.size();
            key += (char)p->m_pad_begin;
            key += (char)p->m_pad_end;
        }
        for (const auto* p : {&w.ma, &w.mb}) { key += (char)p->size(); for (bool x : *p) key += x ? '1' : '0'; }
        g_bitdeque.n[0]++;
        return true;
    }

    static Section Make(int dq, int dt)
    {
        return Section{"bitdeque<8>", Ops(), dq, dt, [](const Section& s, const std::string& h, std::string& k) { return Replay(s, h, k); }};
    }
};

// ================================================================================================ 3. VecDeque
// Element type with a live-instance registry: constructing over a live object, destroying / reading / assigning a
// dead one, and leaks are all detected.
thread_local std::unordered_set<const void*> t_live;
struct Tracked {
    int v;
    void Born() { if (!t_live.insert(this).second) Fail("lifetime", "an element was constructed on top of a live element"); }
    void Alive() const { if (!t_live.count(this)) Fail("lifetime", "an element was used outside its lifetime"); }
    Tracked() : v(0) { Born(); }
    Tracked(int x) : v(x) { Born(); }
    Tracked(const Tracked& o) : v(o.v) { o.Alive(); Born(); }
    Tracked(Tracked&& o) noexcept : v(o.v) { o.Alive(); o.v = -1; Born(); }
    Tracked& operator=(const Tracked& o) { Alive(); o.Alive(); v = o.v; return *this; }
    Tracked& operator=(Tracked&& o) noexcept { Alive(); o.Alive(); v = o.v; if (&o != this) o.v = -1; return *this; }
    ~Tracked() { if (!t_live.erase(this)) Fail("lifetime", "an element was destroyed twice (or never constructed)"); }
    friend bool operator==(const Tracked& a, const Tracked& b) { a.Alive(); b.Alive(); return a.v == b.v; }
    friend auto operator<=>(const Tracked& a, const Tracked& b) { a.Alive(); b.Alive(); return a.v <=> b.v; }
};
int ValueOf(int x) { return x; }
int ValueOf(const Tracked& x) { x.Alive(); return x.v; }

template <typename T>
struct VecDequeSection {
    using VD = VecDeque<T>;
    enum Kind { PUSH_B, PUSH_F, EMPL_B, EMPL_F, POP_B, POP_F, RESIZE, CLEAR, RESERVE, SHRINK, WRITE, WRITE_FRONT, WRITE_BACK, COPY_AB, COPY_BA, MOVE_AB, MOVE_BA, SWAP, SELF };
    struct World { VD a, b; std::deque<int> ma, mb; };

    static std::vector<OpDesc> Ops()
    {
        std::vector<OpDesc> o;
        const char* E[] = {"first", "mid", "last"};
        o.push_back({PUSH_B, 0, 0, "push_back(fresh)"});
        o.push_back({PUSH_F, 0, 0, "push_front(fresh)"});
        o.push_back({EMPL_B, 0, 0, "emplace_back(fresh)"});
        o.push_back({EMPL_F, 0, 0, "emplace_front(fresh)"});
        o.push_back({POP_B, 0, 0, "pop_back()"});
        o.push_back({POP_F, 0, 0, "pop_front()"});
        for (int t = 0; t < 4; t++) o.push_back({RESIZE, t, 0, "resize(t" + std::to_string(t) + ")"});
        o.push_back({CLEAR, 0, 0, "clear()"});
        for (int t = 0; t < 3; t++) o.push_back({RESERVE, t, 0, "reserve(r" + std::to_string(t) + ")"});
        o.push_back({SHRINK, 0, 0, "shrink_to_fit()"});
        for (int p = 0; p < 3; p++) o.push_back({WRITE, p, 0, std::string("a[") + E[p] + "]=fresh"});
        o.push_back({WRITE_FRONT, 0, 0, "a.front()=fresh"});
        o.push_back({WRITE_BACK, 0, 0, "a.back()=fresh"});
        o.push_back({COPY_AB, 0, 0, "b=a"});
        o.push_back({COPY_BA, 0, 0, "a=b"});
        o.push_back({MOVE_AB, 0, 0, "b=move(a);a.clear()"});
        o.push_back({MOVE_BA, 0, 0, "a=move(b);b.clear()"});
        o.push_back({SWAP, 0, 0, "swap(a,b)"});
        o.push_back({SELF, 0, 0, "a=a"});
        return o;
    }
    static int Fresh(const World& w)
    {
        int m = 0;
        for (int x : w.ma) m = std::max(m, x);
        for (int x : w.mb) m = std::max(m, x);
        return m + 1;
    }

    static bool Apply(World& w, const OpDesc& op)
    {
        VD& a = w.a;
        std::deque<int>& m = w.ma;
        const size_t size = m.size(), cap = a.capacity();
        const int v = Fresh(w);
        switch (op.kind) {
        case PUSH_B: { const T elem(v); a.push_back(elem); m.push_back(v); break; }
        case PUSH_F: { const T elem(v); a.push_front(elem); m.push_front(v); break; }
        case EMPL_B: a.emplace_back(v); m.push_back(v); break;
        case EMPL_F: a.emplace_front(v); m.push_front(v); break;
        case POP_B: if (!size) return false; a.pop_back(); m.pop_back(); break;
        case POP_F: if (!size) return false; a.pop_front(); m.pop_front(); break;
        case RESIZE: {
            const int t = op.x == 0 ? 0 : op.x == 1 ? (int)size - 1 : op.x == 2 ? (int)size + 1 : (int)size + 3;
            if (t < 0 || (op.x == 0 && size <= 1)) return false; // t0 == t1 for size 1, no-op for size 0
            a.resize(t);
            m.resize(t);
            break;
        }
        case CLEAR: a.clear(); m.clear(); EXPECT(a.capacity() == cap, "clear-capacity", "clear() changed the capacity"); break;
        case RESERVE: {
            const size_t n = op.x == 0 ? size + 1 : op.x == 1 ? cap + 1 : 2 * cap + 1;
            a.reserve(n);
            EXPECT(a.capacity() >= n && a.capacity() >= cap, "reserve", "capacity after reserve(n) is below n or shrank");
            break;
        }
        case SHRINK: a.shrink_to_fit(); EXPECT(a.capacity() == size, "shrink", "capacity after shrink_to_fit differs from size"); break;
        case WRITE: {
            const int p = ErasePos(op.x, size);
            if (p < 0) return false;
            a[p] = T(v);
            m[p] = v;
            break;
        }
        case WRITE_FRONT: if (!size) return false; a.front() = T(v); m.front() = v; break;
        case WRITE_BACK: if (!size) return false; a.back() = T(v); m.back() = v; break;
        case COPY_AB: w.b = a; w.mb = m; break;
        case COPY_BA: a = w.b; m = w.mb; break;
        case MOVE_AB: w.b = std::move(a); w.mb = std::move(m); a.clear(); m.clear(); break;
        case MOVE_BA: a = std::move(w.b); m = std::move(w.mb); w.b.clear(); w.mb.clear(); break;
        case SWAP: swap(a, w.b); m.swap(w.mb); break;
        case SELF: { VD& alias = a; a = alias; break; }
        }
        return true;
    }

    static void Compare(const char* which, VD& v, const std::deque<int>& m)
    {
        const std::string W = which;
        const VD& cv = v;
        EXPECT(v.size() == m.size() && v.empty() == m.empty() && v.capacity() >= v.size(), "size", W + ".size() " + std::to_string(v.size()) + " != model " + std::to_string(m.size()) + " (or capacity < size)");
        if (v.size() != m.size()) return;
        bool same = true;
        for (size_t i = 0; i < m.size(); i++) same &= ValueOf(v[i]) == m[i] && ValueOf(cv[i]) == m[i];
        if (!m.empty()) same &= ValueOf(v.front()) == m.front() && ValueOf(v.back()) == m.back() && ValueOf(cv.front()) == m.front() && ValueOf(cv.back()) == m.back();
        if (!same) {
            std::string got, want;
            for (size_t i = 0; i < m.size(); i++) { got += std::to_string(ValueOf(v[i])) + " "; want += std::to_string(m[i]) + " "; }
            Fail("contents", W + " holds [ " + got + "], model [ " + want + "]");
        }
        VD copy(v);
        EXPECT(copy == v && copy.size() == m.size(), "copy-ctor", "copy-constructed " + W + " differs");
        VD moved(std::move(copy));
        EXPECT(moved == v, "move-ctor", "move-constructed " + W + " differs");
        if (v.m_capacity && v.m_offset + v.m_size > v.m_capacity) g_vecdeque.n[1]++; // contents wrap around the ring
        if (v.m_offset) g_vecdeque.n[2]++;
    }

    static bool Replay(const Section& sec, const std::string& hist, std::string& key)
    {
        t_ctx = {&sec, &hist};
        {
            World w;
            for (size_t i = 0; i < hist.size(); i++) {
                if (!Apply(w, sec.ops[(unsigned char)hist[i]])) return false; // (w is destroyed: registry is emptied)
            }
            Compare("a", w.a, w.ma);
            Compare("b", w.b, w.mb);
            EXPECT((w.a == w.b) == (w.ma == w.mb), "operator==", "a==b disagrees with the models");
            EXPECT((w.a <=> w.b) == (w.ma <=> w.mb), "operator<=>", "a<=>b is not the lexicographic order of the models");
            if constexpr (std::is_same_v<T, Tracked>) {
                EXPECT(t_live.size() == w.ma.size() + w.mb.size(), "live-count", "number of live elements " + std::to_string(t_live.size()) + " != a.size()+b.size()");
            }
            for (const VD* p : {&w.a, &w.b}) { key += (char)p->m_capacity; key += (char)p->m_offset; }
            for (const auto* p : {&w.ma, &w.mb}) { key += (char)p->size(); for (int x : *p) key += (char)x; }
        }
        if constexpr (std::is_same_v<T, Tracked>) {
            EXPECT(t_live.empty(), "leak", std::to_string(t_live.size()) + " elements were never destroyed");
            t_live.clear();
        }
        g_vecdeque.n[0]++;
        return true;
    }

    static Section Make(const std::string& name, int dq, int dt)
    {
        return Section{name, Ops(), dq, dt, [](const Section& s, const std::string& h, std::string& k) { return Replay(s, h, k); }};
    }
};

// ================================================================================================ 4. PoolResource
struct PoolSection {
    static constexpr size_t MAXB = 128, ALIGN = 8, CHUNK = 160;
    using Pool = PoolResource<MAXB, ALIGN>;
    struct Req { size_t bytes, align; };
    static constexpr Req REQS[] = {{0, 1}, {1, 1}, {8, 8}, {9, 8}, {24, 8}, {64, 8}, {128, 8}, {136, 8}, {8, 16}};
    static constexpr int NREQ = sizeof(REQS) / sizeof(REQS[0]);
    static constexpr int MAX_LIVE = 8;
    enum Kind { ALLOC, FREE };

    static std::vector<OpDesc> Ops()
    {
        std::vector<OpDesc> o;
        for (int r = 0; r < NREQ; r++) o.push_back({ALLOC, r, 0, "Allocate(" + std::to_string(REQS[r].bytes) + "," + std::to_string(REQS[r].align) + ")"});
        for (int k = 0; k < MAX_LIVE; k++) o.push_back({FREE, k, 0, "Deallocate(live#" + std::to_string(k) + ")"});
        return o;
    }

    struct Block { std::byte* p; int req; uint8_t fill; bool pooled; };
    // Reference allocator: what the documentation of PoolResource promises, in counts.
    struct Model {
        std::vector<std::vector<std::byte*>> free_lists = std::vector<std::vector<std::byte*>>(MAXB / ALIGN + 1); // freed blocks per size class
        size_t available = CHUNK, chunks = 1;
    };
    static bool Pooled(const Req& r) { return r.align <= ALIGN && r.bytes <= MAXB; }
    static size_t Class(const Req& r) { return (r.bytes + ALIGN - 1) / ALIGN + (r.bytes == 0); }

    static bool InsideChunk(const Pool& pool, const std::byte* p, size_t n)
    {
        for (const std::byte* c : pool.m_allocated_chunks) if (p >= c && p + n <= c + pool.ChunkSizeBytes()) return true;
        return false;
    }
    static std::string Where(const Pool& pool, const std::byte* p) // address relative to its chunk: stable across replays
    {
        int i = 0;
        for (const std::byte* c : pool.m_allocated_chunks) { if (p >= c && p < c + pool.ChunkSizeBytes()) return std::to_string(i) + "+" + std::to_string(p - c); i++; }
        return "ext";
    }

    // The blocks on every free list, head first (free blocks are ASan-poisoned: unpoison the link while reading it).
    static std::vector<std::vector<const std::byte*>> FreeLists(const Pool& pool)
    {
        std::vector<std::vector<const std::byte*>> out;
        for (const auto* node : pool.m_free_lists) {
            out.emplace_back();
            while (node) {
                out.back().push_back(reinterpret_cast<const std::byte*>(node));
                ASAN_UNPOISON_MEMORY_REGION(node, sizeof(*node));
                const auto* next = node->m_next;
                ASAN_POISON_MEMORY_REGION(node, sizeof(*node));
                node = next;
            }
        }
        return out;
    }

    static bool Replay(const Section& sec, const std::string& hist, std::string& key)
    {
        t_ctx = {&sec, &hist};
        Pool pool(CHUNK);
        Model model;
        std::vector<Block> live;
        uint8_t next_fill = 1;
        EXPECT(pool.ChunkSizeBytes() == CHUNK && pool.NumAllocatedChunks() == 1, "ctor", "fresh resource does not hold exactly one chunk of the requested size");
        for (size_t i = 0; i < hist.size(); i++) {
            const OpDesc& op = sec.ops[(unsigned char)hist[i]];
            if (op.kind == ALLOC) {
                if ((int)live.size() >= MAX_LIVE) return false;
                const Req& r = REQS[op.x];
                std::byte* const bump_before = pool.m_available_memory_it;
                std::byte* p = static_cast<std::byte*>(pool.Allocate(r.bytes, r.align));
                EXPECT(p != nullptr && reinterpret_cast<uintptr_t>(p) % r.align == 0, "alignment", "Allocate returned a null or misaligned pointer");
                if (Pooled(r)) {
                    const size_t cls = Class(r), rounded = cls * ALIGN;
                    EXPECT(InsideChunk(pool, p, rounded), "outside-chunk", "a pooled block does not lie inside an allocated chunk");
                    auto& fl = model.free_lists[cls];
                    if (!fl.empty()) { // freed blocks of this size class are reused before new memory is carved out
                        auto it = std::find(fl.begin(), fl.end(), p);
                        EXPECT(it != fl.end(), "freelist-reuse", "Allocate did not reuse a freed block of that size class although one was available");
                        if (it != fl.end()) fl.erase(it); else fl.pop_back();
                        g_pool.n[1]++;
                    } else {
                        if (rounded > model.available) { // a new chunk is started; the rest of the old one becomes a free block
                            if (model.available) model.free_lists[model.available / ALIGN].push_back(bump_before);
                            model.available = CHUNK;
                            model.chunks++;
                            g_pool.n[2]++;
                        }
                        model.available -= rounded;
                    }
                } else {
                    EXPECT(!InsideChunk(pool, p, 1), "oversize-in-chunk", "an oversized / over-aligned block was carved out of a chunk");
                    g_pool.n[3]++;
                }
                // live blocks never overlap: compare address ranges and fill the block with its own byte pattern
                for (const Block& b : live) {
                    const size_t nb = std::max<size_t>(REQS[b.req].bytes, 1), np = std::max<size_t>(r.bytes, 1);
                    EXPECT(p + np <= b.p || b.p + nb <= p, "overlap", "Allocate returned memory overlapping a live block");
                }
                memset(p, next_fill, r.bytes);
                live.push_back(Block{p, op.x, next_fill, Pooled(r)});
                next_fill = next_fill == 250 ? 1 : next_fill + 1;
            } else {
                if (op.x >= (int)live.size()) return false;
                const Block b = live[op.x];
                const Req& r = REQS[b.req];
                for (size_t k = 0; k < r.bytes; k++) if (b.p[k] != (std::byte)b.fill) { Fail("clobbered", "a live block's contents were overwritten"); break; }
                pool.Deallocate(b.p, r.bytes, r.align);
                if (b.pooled) model.free_lists[Class(r)].push_back(b.p);
                live.erase(live.begin() + op.x);
            }
        }
        // every live block still holds its pattern
        for (const Block& b : live)
            for (size_t k = 0; k < REQS[b.req].bytes; k++) if (b.p[k] != (std::byte)b.fill) { Fail("clobbered", "a live block's contents were overwritten"); break; }
        // accounting: chunk count, bump space and the length of every free list equal the reference
        EXPECT(pool.NumAllocatedChunks() == model.chunks, "chunks", "NumAllocatedChunks " + std::to_string(pool.NumAllocatedChunks()) + " != reference " + std::to_string(model.chunks));
        EXPECT(PoolResourceTester::AvailableMemoryFromChunk(pool) == model.available, "available", "available bytes in the last chunk differ from the reference");
        const std::vector<size_t> fl = PoolResourceTester::FreeListSizes(pool);
        size_t free_bytes = 0, live_bytes = 0;
        for (size_t c = 0; c < fl.size(); c++) {
            EXPECT(fl[c] == model.free_lists[c].size(), "freelist-size", "free list of class " + std::to_string(c) + " holds " + std::to_string(fl[c]) + " blocks, reference " + std::to_string(model.free_lists[c].size()));
            free_bytes += fl[c] * c * ALIGN;
        }
        for (const Block& b : live) if (b.pooled) live_bytes += Class(REQS[b.req]) * ALIGN;
        EXPECT(live_bytes + free_bytes + model.available == pool.NumAllocatedChunks() * pool.ChunkSizeBytes(), "bytes", "live + free + available bytes do not add up to the chunks");
        // canonical key: where everything is, relative to the chunks
        key += (char)pool.NumAllocatedChunks();
        key += std::to_string(PoolResourceTester::AvailableMemoryFromChunk(pool));
        for (const Block& b : live) key += "|" + std::to_string(b.req) + "@" + Where(pool, b.p);
        const auto lists = FreeLists(pool);
        for (size_t c = 0; c < lists.size(); c++) {
            key += "/";
            for (size_t k = 0; k < lists[c].size(); k++) {
                key += Where(pool, lists[c][k]) + ",";
            }
            // each real list holds exactly the blocks the reference expects in that size class (in any order)
            std::vector<const std::byte*> got(lists[c].begin(), lists[c].end()), want(model.free_lists[c].begin(), model.free_lists[c].end());
            std::sort(got.begin(), got.end());
            std::sort(want.begin(), want.end());
            EXPECT(got == want, "freelist-content", "free list of class " + std::to_string(c) + " does not hold the blocks that were freed in that size class");
        }
        // "everything returned at destruction": give all blocks back, then every chunk byte must be accounted for
        for (const Block& b : live) pool.Deallocate(b.p, REQS[b.req].bytes, REQS[b.req].align);
        PoolResourceTester::CheckAllDataAccountedFor(pool); // assert()s; a failure is reported by hb::guarded
        g_pool.n[0]++;
        return true;
    }

    static Section Make(int dq, int dt)
    {
        return Section{"PoolResource<128,8>", Ops(), dq, dt, [](const Section& s, const std::string& h, std::string& k) { return Replay(s, h, k); }};
    }
};

// ================================================================================================ main
std::vector<Section> AllSections()
{
    std::vector<Section> v;
    v.push_back(PrevectorSection<4, uint8_t>::Make("prevector<4,uint8_t>", 4, 5));
    v.push_back(PrevectorSection<8, int>::Make("prevector<8,int>", 4, 5));
    v.push_back(VecDequeSection<int>::Make("VecDeque<int>", 6, 7));
    v.push_back(VecDequeSection<Tracked>::Make("VecDeque<Tracked>", 6, 7));
    v.push_back(PoolSection::Make(5, 7));
    v.push_back(BitdequeSection::Make(4, 5)); // the most expensive section per state (all iterator pairs): last
    return v;
}

int ReplayFile()
{
    std::ifstream f(vx::ctx().replay);
    std::string line, name;
    std::vector<std::string> names;
    while (std::getline(f, line)) {
        if (line.empty() || line[0] == '#' || line.rfind("signal", 0) == 0) continue;
        if (line.rfind("section ", 0) == 0) name = line.substr(8); else names.push_back(line);
    }
    for (const Section& sec : AllSections()) {
        if (sec.name != name) continue;
        std::string hist, key;
        for (auto& n : names) {
            size_t o = 0;
            while (o < sec.ops.size() && sec.ops[o].name != n) o++;
            if (o == sec.ops.size()) { printf("HARNESS-ERROR unknown operation in replay: %s\n", n.c_str()); return 2; }
            hist.push_back((char)o);
        }
        const bool enabled = sec.replay(sec, hist, key);
        printf("replayed %zu operations in section %s: %s, state key %s\n", hist.size(), sec.name.c_str(), enabled ? "all enabled" : "an operation was not enabled", vx::hex(key).c_str());
        return vx::finish();
    }
    printf("HARNESS-ERROR replay file names no known section\n");
    return 2;
}

int Explore()
{
    auto& E = vx::ev();
    const std::vector<Section> sections = AllSections();
    std::string json = "[", rule;
    uint64_t states = 0, transitions = 0;
    bool all_complete = true;
    int s = 0;
    for (const Section& sec : sections) {
        const int depth = vx::thorough() ? sec.depth_thorough : sec.depth_quick;
        const double t0 = vx::elapsed();
        hb::describer() = [&](const std::string& h) { return HistText(sec, h); };
        hb::Bfs bfs;
        bfs.nops = (int)sec.ops.size();
        bfs.max_depth = depth;
        bfs.replay = [&](const std::string& h, std::string& key) { return sec.replay(sec, h, key); };
        bfs.run();
        states += bfs.states;
        transitions += bfs.transitions;
        if (!bfs.complete) all_complete = false;
        printf("[C61] %-22s ops=%zu depth=%d/%d states=%" PRIu64 " transitions=%" PRIu64 " %.1fs%s\n", sec.name.c_str(), sec.ops.size(), bfs.depth_done, depth, bfs.states, bfs.transitions, vx::elapsed() - t0, bfs.complete ? "" : " (cut by the deadline)");
        json += std::string(s ? "," : "") + "{\"section\":" + vx::q(sec.name) + ",\"operations\":" + std::to_string(sec.ops.size()) + ",\"depth_completed\":" + std::to_string(bfs.depth_done) + ",\"depth_bound\":" + std::to_string(depth) + ",\"states\":" + std::to_string(bfs.states) + ",\"transitions\":" + std::to_string(bfs.transitions) + "}";
        rule += std::string(s ? ", " : "") + sec.name + " depth " + std::to_string(bfs.depth_done);
        if (!bfs.frontier.empty()) {
            std::string one;
            for (unsigned char o : bfs.frontier.front()) one += sec.ops[o].name + "; ";
            E.sample(sec.name + ": " + one);
        }
        if (hb::Shared* sh = hb::shared()) { sh->states = states; sh->transitions = transitions; }
        s++;
        if (!bfs.complete) break;
    }
    E.states = states;
    E.transitions = transitions;
    E.traces_validated = transitions;
    E.exhaustive = all_complete;
    E.set("sections", json + "]");
    E.rule = "per container: every history of operations (alphabet in checks/C61/main.cpp) up to the stated depth, replayed on a fresh real object and a fresh std:: model (" + rule + "); states merged on contents + capacity/offset/padding/free-list layout; transition = one real method call followed by a comparison of the whole read API; AddressSanitizer and the containers' own Assume()/assert() are active";
    E.assume("element values are opaque to the containers (fresh values are 1 + current maximum)");
    E.assume("a moved-from container is only required to accept clear()/assignment/destruction");
    std::string missing;
    auto need = [&](Seen& seen, int i, const char* what) { if (!seen.n[i]) missing += std::string(" ") + what; };
    need(g_prevector, 1, "prevector:direct->indirect"); need(g_prevector, 2, "prevector:indirect->direct"); need(g_prevector, 3, "prevector:direct"); need(g_prevector, 4, "prevector:indirect");
    need(g_bitdeque, 1, "bitdeque:3-words"); need(g_bitdeque, 2, "bitdeque:front-padding"); need(g_bitdeque, 3, "bitdeque:back-padding");
    need(g_vecdeque, 1, "vecdeque:wrapped"); need(g_vecdeque, 2, "vecdeque:offset");
    need(g_pool, 1, "pool:freelist-reuse"); need(g_pool, 2, "pool:second-chunk"); need(g_pool, 3, "pool:oversize");
    if (!missing.empty() && all_complete) { printf("HARNESS-ERROR property=C61 vacuous run, never seen:%s\n", missing.c_str()); vx::finish(); return 2; }
    return vx::finish();
}

} // namespace

int main(int argc, char** argv)
{
    vx::init(argc, argv, "C61", "model_checking");
    if (!vx::ctx().replay.empty()) return ReplayFile();
    return hb::guarded(Explore);
}
