# header-only code under test: nothing from the repo's libraries is linked (assertion_fail is defined in main.cpp)
LINK := none
CXXEXTRA := -fsanitize=address -fno-omit-frame-pointer -DABORT_ON_FAILED_ASSUME
LDEXTRA := -fsanitize=address
