// C43 — Wallet state survives restarts and crashes consistently.
//
// A descriptor CWallet on a real SQLite file (no chain attached, -keypool=2, -walletbroadcast=0). Histories over
//   A new receiving address with a label      T receive tx t1 (AddToWallet, unconfirmed)   F t1 gets confirmed (AddToWallet again)
//   S send t2 spending t1 (CommitTransaction) L label + purpose for a foreign address       D DelAddressBook of that address (DB txn)
//   K lock a coin persistently                U unlock it                                   I import a descriptor with its private key
//   R RemoveTxs of every wallet tx (DB txn)   G set the avoid_reuse wallet flag             X clean close + LoadExisting
// and, in directed histories only,
//   P keypool refill TopUpKeyPool(5)          M a mempool tx paying the receiving address ONE AHEAD of next_index arrives through
//   N lock the coin in memory only              AddToWalletIfInvolvingMe (MarkUnusedAddresses moves next_index past it)
// (K re-locks persistently a coin that is only locked in memory, as lockunspent false [o] true does)
// are explored breadth-first (an operation is only applied where it is enabled; states with equal DB records and equal
// in-memory snapshot are merged). Every history ends with a clean close; a fresh process reloads the file and must see
// exactly what the wallet held before the close: flags, descriptors with private keys and next indices, transactions
// (serialised wallet tx incl. state, order position, times, comment), order, address book, persistently locked coins.
// VX-CRASH: for histories up to the crash depth every crash state with crash point in the last operation (process kill at
// every op-log prefix, power loss with the synced ops surviving, torn last writes in the thorough tier) must load; every
// record of a type that loading does not rewrite must have its value from before or after the operation; every descriptor
// that is present has its private key; and the operations the code performs as one DB transaction (R, D) are all-or-nothing.
// A second scenario crash-enumerates wallet creation: the descriptor set-up transaction yields 0 or 8 descriptors, never some.
#include <kits/wallethist.h>
#include <kits/walletkit.h>

#include <key_io.h>
#include <script/descriptor.h>
#include <wallet/scriptpubkeyman.h>
#include <wallet/walletdb.h>

namespace sfs = std::filesystem;
using namespace wallet;

static std::string g_scratch, g_base;
static wk::Env* g_env;
static wh::Config g_cfg;
static std::string g_base_addr; // first receiving address of the base wallet (t1 pays to it)

// the first N_BFS operations form the breadth-first alphabet; P, M, N only occur in the directed histories
enum { OP_A, OP_T, OP_F, OP_S, OP_L, OP_D, OP_K, OP_U, OP_I, OP_R, OP_G, OP_X, N_BFS, OP_P = N_BFS, OP_M, OP_N, N_OPS };
static const char* OPN[] = {"A", "T", "F", "S", "L", "D", "K", "U", "I", "R", "G", "X", "P", "M", "N"};

// ------------------------------------------------------------------------------------------------ fixed objects
static CTxDestination ExtDest()
{
    uint160 h;
    for (int i = 0; i < 20; i++) h.begin()[i] = (unsigned char)(0xa0 + i);
    return WitnessV0KeyHash(h);
}
static CTransactionRef Tx1()
{
    CMutableTransaction m;
    m.version = 2;
    Txid prev = Txid::FromUint256(uint256{0x77});
    m.vin.emplace_back(COutPoint(prev, 1));
    m.vin[0].scriptWitness.stack.push_back({1, 2, 3});
    m.vout.emplace_back(100000000, GetScriptForDestination(DecodeDestination(g_base_addr)));
    m.vout.emplace_back(5000, GetScriptForDestination(ExtDest()));
    return MakeTransactionRef(m);
}
static CTransactionRef Tx2()
{
    CMutableTransaction m;
    m.version = 2;
    m.vin.emplace_back(COutPoint(Tx1()->GetHash(), 0));
    m.vin[0].scriptWitness.stack.push_back({9, 9});
    m.vout.emplace_back(99990000, GetScriptForDestination(ExtDest()));
    return MakeTransactionRef(m);
}
static COutPoint LockedCoin() { return COutPoint(Tx1()->GetHash(), 0); }
static CKey ImportKey()
{
    std::vector<std::byte> b(32);
    for (size_t i = 0; i < 32; i++) b[i] = std::byte((unsigned char)(0x21 + 3 * i));
    CKey k;
    k.Set(b.begin(), b.end(), true);
    return k;
}
static std::string ImportDescId(std::string* desc_str = nullptr)
{
    FlatSigningProvider keys;
    std::string error;
    auto descs = Parse("wpkh(" + EncodeSecret(ImportKey()) + ")", keys, error, false);
    if (desc_str) *desc_str = descs.at(0)->ToString();
    return DescriptorID(*descs.at(0)).ToString();
}

// ------------------------------------------------------------------------------------------------ observation
// record types that LoadExisting itself rewrites (top-up at load, version stamp) are compared through the snapshot only
static bool StableType(const std::string& t)
{
    return t != "walletdescriptor" && t != "walletdescriptorcache" && t != "walletdescriptorlhcache" && t != "version" && t != "minversion" && t != "bestblock" && t != "bestblock_nomerkle";
}
static std::string StableRecords(CWallet& w)
{
    std::string s;
    for (auto& [k, v] : wk::DbRecords(w)) if (StableType(wk::RecordType(k))) s += k + "=" + v + "\n";
    return s;
}
// what a reload must reproduce: everything but range_end (a load tops the keypool up)
static std::string Held(CWallet& w)
{
    std::string s = wk::Snapshot(w, /*with_ranges=*/false);
    for (const wk::DescInfo& d : wk::Descriptors(w)) s += "next " + d.id + " " + std::to_string(d.next_index) + "\n";
    return s;
}
static std::map<std::string, std::string> ParseRecords(const std::string& text)
{
    std::map<std::string, std::string> m;
    std::istringstream is(text);
    std::string l;
    while (std::getline(is, l)) { size_t e = l.find('='); if (e != std::string::npos) m[l.substr(0, e)] = l.substr(e + 1); }
    return m;
}
static std::map<std::string, std::string> Sections(const std::string& text)
{
    std::map<std::string, std::string> m;
    std::istringstream is(text);
    std::string l, cur;
    while (std::getline(is, l)) {
        if (l.rfind("##", 0) == 0) { cur = l.substr(2); m[cur]; continue; }
        m[cur] += l + "\n";
    }
    return m;
}

// ------------------------------------------------------------------------------------------------ operations
static bool Enabled(CWallet& w, int op)
{
    LOCK(w.cs_wallet);
    bool has1 = w.mapWallet.count(Tx1()->GetHash()), has2 = w.mapWallet.count(Tx2()->GetHash());
    switch (op) {
    case OP_T: return !has1;
    case OP_F: return has1 && !w.mapWallet.at(Tx1()->GetHash()).isConfirmed();
    case OP_S: return has1 && !has2;
    case OP_D: return w.m_address_book.count(ExtDest()) > 0;
    case OP_L: return w.m_address_book.count(ExtDest()) == 0;
    case OP_K: { auto it = w.m_locked_coins.find(LockedCoin()); return it == w.m_locked_coins.end() || !it->second; }
    case OP_N: return !w.m_locked_coins.count(LockedCoin());
    case OP_M: {
        auto* d = dynamic_cast<DescriptorScriptPubKeyMan*>(w.GetScriptPubKeyMan(OutputType::BECH32, false));
        if (!d) return false;
        LOCK(d->cs_desc_man);
        return d->m_wallet_descriptor.next_index + 1 < d->m_wallet_descriptor.range_end;
    }
    case OP_U: return w.m_locked_coins.count(LockedCoin()) > 0;
    case OP_I: return !w.m_spk_managers.count(*uint256::FromHex(ImportDescId()));
    case OP_R: return !w.mapWallet.empty();
    case OP_G: return !w.IsWalletFlagSet(WALLET_FLAG_AVOID_REUSE);
    default: return true;
    }
}
static std::string Apply(std::shared_ptr<CWallet>& w, int op, const std::string& dir)
{
    switch (op) {
    case OP_A: { auto d = w->GetNewDestination(OutputType::BECH32, "lbl"); if (!d) return "GetNewDestination failed"; break; }
    case OP_T: if (!w->AddToWallet(Tx1(), TxStateInactive{})) return "AddToWallet failed"; break;
    case OP_F: if (!w->AddToWallet(Tx1(), TxStateConfirmed{uint256{0x42}, 7, 1})) return "AddToWallet(confirmed) failed"; break;
    case OP_S: w->CommitTransaction(Tx2(), std::nullopt, "a comment", "to someone"); break;
    case OP_L: if (!w->SetAddressBook(ExtDest(), "pay", AddressPurpose::SEND)) return "SetAddressBook failed"; break;
    case OP_D: if (!w->DelAddressBook(ExtDest())) return "DelAddressBook failed"; break;
    case OP_K: { LOCK(w->cs_wallet); if (!w->LockCoin(LockedCoin(), true)) return "LockCoin failed"; break; }
    case OP_U: { LOCK(w->cs_wallet); if (!w->UnlockCoin(LockedCoin())) return "UnlockCoin failed"; break; }
    case OP_I: {
        FlatSigningProvider keys;
        std::string error;
        auto descs = Parse("wpkh(" + EncodeSecret(ImportKey()) + ")", keys, error, false);
        if (descs.size() != 1) return "descriptor parse failed";
        WalletDescriptor wd(std::move(descs[0]), 1600000000, 0, 0, 0);
        LOCK(w->cs_wallet);
        if (!w->AddWalletDescriptor(wd, keys, "imp", false)) return "AddWalletDescriptor failed";
        break;
    }
    case OP_R: {
        LOCK(w->cs_wallet);
        std::vector<Txid> ids;
        for (auto& [id, wtx] : w->mapWallet) ids.push_back(id);
        std::sort(ids.begin(), ids.end());
        if (!w->RemoveTxs(ids)) return "RemoveTxs failed";
        break;
    }
    case OP_G: w->SetWalletFlag(WALLET_FLAG_AVOID_REUSE); break;
    case OP_P: if (!w->TopUpKeyPool(5)) return "TopUpKeyPool failed"; break;
    case OP_N: { LOCK(w->cs_wallet); if (!w->LockCoin(LockedCoin(), false)) return "LockCoin failed"; break; }
    case OP_M: {
        LOCK(w->cs_wallet);
        auto* d = dynamic_cast<DescriptorScriptPubKeyMan*>(w->GetScriptPubKeyMan(OutputType::BECH32, false));
        if (!d) return "no bech32 descriptor";
        CMutableTransaction m;
        {
            LOCK(d->cs_desc_man);
            int32_t idx = d->m_wallet_descriptor.next_index + 1; // look-ahead: not handed out yet, but inside the cached range
            std::vector<CScript> scripts;
            FlatSigningProvider keys;
            if (!d->m_wallet_descriptor.descriptor->ExpandFromCache(idx, d->m_wallet_descriptor.cache, scripts, keys) || scripts.empty()) return "cannot expand the look-ahead index";
            m.version = 2;
            m.vin.emplace_back(COutPoint(Txid::FromUint256(uint256{0x66}), (uint32_t)idx));
            m.vin[0].scriptWitness.stack.push_back({4, 5});
            m.vout.emplace_back(30000000, scripts[0]);
        }
        if (!w->AddToWalletIfInvolvingMe(MakeTransactionRef(m), TxStateInMempool{}, false)) return "the look-ahead payment was not recognised as the wallet's";
        break;
    }
    case OP_X: {
        wk::Close(w);
        std::string err;
        w = wk::Load(*g_env, dir, err);
        if (!w) return "reload: " + err;
        break;
    }
    }
    return "";
}

// ------------------------------------------------------------------------------------------------ recorder (own process)
static int RunRecorder(const wh::History& h, const std::string& dir, const std::string& logfile, const std::string& infofile)
{
    sfs::create_directories(dir);
    sfs::copy_file(wk::DbFile(g_base), wk::DbFile(dir));
    vxc_start(dir.c_str());
    std::string err;
    std::shared_ptr<CWallet> w = wk::Load(*g_env, dir, err);
    if (!w) { fprintf(stderr, "recorder: %s\n", err.c_str()); return 2; }
    vxc_mark("BEGIN");
    std::string pre_rec, pre_held;
    for (size_t i = 0; i < h.size(); i++) {
        if (!Enabled(*w, h[i])) {
            if (i + 1 != h.size()) { fprintf(stderr, "recorder: op %zu of {%s} not enabled\n", i, wh::HistStr(g_cfg, h).c_str()); return 2; }
            return wc::WriteFile(infofile, "SKIP\n") ? 0 : 2;
        }
        if (i + 1 == h.size()) { pre_rec = StableRecords(*w); pre_held = Held(*w); }
        vxc_mark(("OP " + std::to_string(i) + " " + OPN[h[i]]).c_str());
        std::string e = Apply(w, h[i], dir);
        if (!e.empty()) { fprintf(stderr, "recorder: {%s} op %zu: %s\n", wh::HistStr(g_cfg, h).c_str(), i, e.c_str()); return 2; }
        vxc_mark(("DONE " + std::to_string(i)).c_str());
    }
    vxc_mark("END-OPS");
    std::string post_rec = StableRecords(*w), post_held = Held(*w);
    std::string full = wk::Snapshot(*w, true);
    for (auto& [k, v] : wk::DbRecords(*w)) full += k + "=" + v + "\n";
    {
        LOCK(w->cs_wallet);
        for (auto& [op, persistent] : w->m_locked_coins) full += "lock " + op.ToString() + (persistent ? " p" : " m") + "\n";
        for (const auto& [id, man] : w->m_spk_managers) if (auto* d = dynamic_cast<DescriptorScriptPubKeyMan*>(man.get())) full += std::to_string(d->m_max_cached_index) + "\n";
    }
    wk::Close(w);
    vxc_mark("CLOSED");
    vxc_stop();
    if (vxc_dump(logfile.c_str()) != 0) return 2;
    char b[32];
    snprintf(b, sizeof b, "%016llx", (unsigned long long)vx::fnv1a(full));
    std::string info = std::string(b) + "\n##PRE-REC\n" + pre_rec + "##POST-REC\n" + post_rec + "##PRE-HELD\n" + pre_held + "##POST-HELD\n" + post_held;
    return wc::WriteFile(infofile, info) ? 0 : 2;
}
static int RecorderRequest(const char* text)
{
    auto f = wh::SplitRequest(text);
    if (f.size() != 4) return 2;
    if (f[0] == "NEW") {
        // wallet creation by the production path (own random seed), recorded from the empty directory
        vxc_start(f[1].c_str());
        std::string err;
        std::shared_ptr<CWallet> w = wk::Create(*g_env, f[1], nullptr, 0, err);
        if (!w) { fprintf(stderr, "recorder: create: %s\n", err.c_str()); return 2; }
        vxc_mark("CREATED");
        wk::Close(w);
        vxc_mark("CLOSED");
        vxc_stop();
        return vxc_dump(f[2].c_str()) == 0 ? 0 : 2;
    }
    return RunRecorder(wh::ParseHist(g_cfg, f[0]), f[1], f[2], f[3]);
}

// ------------------------------------------------------------------------------------------------ reload (own process)
static std::string RunReload(const std::string& dir)
{
    std::string err;
    std::shared_ptr<CWallet> w = wk::Load(*g_env, dir, err);
    if (!w) return "ERR\n" + err;
    std::string res = "OK\n##REC\n" + StableRecords(*w) + "##HELD\n" + Held(*w) + "##DESC\n";
    for (const wk::DescInfo& d : wk::Descriptors(*w)) res += d.id + " " + std::to_string(d.plain_keys) + " " + std::to_string(d.crypted_keys) + " " + (d.active ? "active" : "inactive") + " " + std::to_string(d.range_end) + "\n";
    wk::Close(w);
    return res;
}

static std::string FirstDiff(const std::string& a, const std::string& b)
{
    std::istringstream ia(a), ib(b);
    std::string la, lb;
    for (int n = 1;; n++) {
        bool ga = (bool)std::getline(ia, la), gb = (bool)std::getline(ib, lb);
        if (!ga && !gb) return "(equal)";
        if (!ga) la = "(missing)";
        if (!gb) lb = "(missing)";
        if (la != lb) return "line " + std::to_string(n) + ": before close `" + la.substr(0, 200) + "` after reload `" + lb.substr(0, 200) + "`";
    }
}

int main(int argc, char** argv)
{
    vx::init(argc, argv, "C43", "fault_enumeration", 150, 1500);
    auto& E = vx::ev();
    const bool big = vx::thorough();
    {
        char b[64];
        snprintf(b, sizeof b, "/C43_%07d", (int)getpid());
        g_scratch = vx::scratch_dir() + b;
    }
    sfs::remove_all(g_scratch);
    sfs::create_directories(g_scratch);
    g_base = g_scratch + "/base";
    struct Cleanup { ~Cleanup() { std::error_code ec; sfs::remove_all(g_scratch, ec); } } cleanup;

    wk::EnvOpts eo;
    eo.extra_args = {"-walletbroadcast=0"};
    wk::Env env_root(eo);
    g_env = &env_root;
    g_cfg.id = "C43";
    g_cfg.n_ops = N_OPS;
    g_cfg.allow = [](const wh::History& h) { return std::all_of(h.begin(), h.end(), [](int op) { return op < N_BFS; }); };
    g_cfg.op_name = [](int op) { return std::string(OPN[op]); };
    // the first receiving address of the fixed-seed wallet (computed in a child; needed by the recorder children for t1)
    {
        bool died = false;
        std::string r = wc::ForkCall([&] {
            std::string err;
            CExtKey mk = wk::FixedMasterKey(1);
            std::shared_ptr<CWallet> w = wk::Create(*g_env, g_base, &mk, 0, err);
            if (!w) return "ERR " + err;
            auto d = w->GetNewDestination(OutputType::BECH32, "first");
            if (!d) return std::string("ERR address");
            std::string a = EncodeDestination(*d);
            wk::Close(w);
            return "OK " + a;
        }, &died);
        if (died || r.rfind("OK ", 0) != 0) { printf("HARNESS-ERROR property=C43 cannot create the base wallet (%s)\n", r.c_str()); return 2; }
        g_base_addr = r.substr(3);
    }
    wc::ForkServer recorder;
    recorder.max_parallel = vx::ncpu();
    recorder.start(RecorderRequest);

    const int crash_depth = 2;
    g_cfg.max_depth = big ? 3 : 2;
    // quick: the operations with multi-record updates (A: top-up txn + 3 writes; I: import; L D: address-book removal txn;
    // T S R: removal of two transactions in one txn); thorough: every history to the crash depth, plus T S R
    const std::set<std::string> forced{"A", "I", "L D", "T S R"};
    g_cfg.want_crash = [&](const wh::Run& r) { return big && r.depth <= crash_depth && !forced.count(wh::HistStr(g_cfg, r.h)); };
    g_cfg.want_torn = [&](const wh::Run& r) { return big && r.depth <= 1; };
    if (!vx::ctx().replay.empty()) {
        std::ifstream f(vx::ctx().replay);
        std::string line;
        while (std::getline(f, line)) if (line.rfind("history:", 0) == 0) g_cfg.only = wh::ParseHist(g_cfg, line.substr(8));
        if (g_cfg.only.empty()) { printf("HARNESS-ERROR property=C43 replay file has no 'history:' line\n"); return 2; }
        printf("replaying history: %s (clean restart and all crash states of its last operation)\n", wh::HistStr(g_cfg, g_cfg.only).c_str());
    }
    vxc::Tree initial;
    initial.files["wallet.dat"] = wc::ReadFile(wk::DbFile(g_base));

    g_cfg.judge = [&](const wh::Run& r, const wh::Job& job, fp::Out& o) {
        std::string hist = wh::HistStr(g_cfg, r.h);
        std::string lastop = OPN[r.h.back()];
        std::string where = "history: " + hist + "\nstate: " + job.st.describe();
        std::string dir = g_scratch + "/rec_" + std::to_string(getpid());
        vxc::Materialise(r.log, job.st, &initial).write_to(dir);
        bool died = false;
        std::string res = wc::ForkCall([&] { return RunReload(dir); }, &died);
        std::error_code ec;
        sfs::remove_all(dir, ec);
        o.count("reloads");
        o.count("reloads_" + job.st.mode);
        if (job.st.torn_index >= 0) o.count("reloads_torn");
        std::string kind = job.clean ? "clean-restart" : "crash-" + job.st.mode;
        if (died) { o.violation("C43-load-died:" + kind + ":" + lastop, "loading {" + job.st.describe() + "} of history {" + hist + "} killed the process (" + res + ")", where); return; }
        if (res.rfind("OK\n", 0) != 0) {
            o.violation("C43-does-not-load:" + kind + ":" + lastop, "the wallet does not load after {" + job.st.describe() + "} of history {" + hist + "}: " + res.substr(0, 300), where);
            return;
        }
        auto info = Sections(r.info);
        auto got = Sections(res.substr(3));
        // every descriptor that is present has a private key
        {
            std::istringstream is(got["DESC"]);
            std::string id, act;
            size_t pk, ck;
            int re;
            while (is >> id >> pk >> ck >> act >> re)
                if (pk + ck == 0) o.violation("C43-descriptor-without-key:" + kind + ":" + lastop, "after {" + job.st.describe() + "} of history {" + hist + "} descriptor " + id + " is loaded without its private key", where);
        }
        if (job.clean) {
            if (got["HELD"] != info["POST-HELD"])
                o.violation("C43-clean-restart-differs:" + lastop, "after a clean close + load of history {" + hist + "} the wallet differs: " + FirstDiff(info["POST-HELD"], got["HELD"]), where);
            if (got["REC"] != info["POST-REC"])
                o.violation("C43-clean-restart-records-differ:" + lastop, "after a clean close + load of history {" + hist + "} the database records differ: " + FirstDiff(info["POST-REC"], got["REC"]), where);
            o.distinct("outcome", hist + "clean");
            return;
        }
        // crash state
        auto pre = ParseRecords(info["PRE-REC"]), post = ParseRecords(info["POST-REC"]), now = ParseRecords(got["REC"]);
        std::set<std::string> keys;
        for (auto& [k, v] : pre) keys.insert(k);
        for (auto& [k, v] : post) keys.insert(k);
        for (auto& [k, v] : now) keys.insert(k);
        bool all_pre = true, all_post = true;
        for (auto& k : keys) {
            auto a = pre.find(k), b = post.find(k), c = now.find(k);
            bool is_pre = (a == pre.end()) ? c == now.end() : (c != now.end() && c->second == a->second);
            bool is_post = (b == post.end()) ? c == now.end() : (c != now.end() && c->second == b->second);
            all_pre = all_pre && is_pre;
            all_post = all_post && is_post;
            if (!is_pre && !is_post)
                o.violation("C43-record-neither-old-nor-new:" + kind + ":" + lastop + ":" + wk::RecordType(k), "after {" + job.st.describe() + "} of history {" + hist + "} the '" + wk::RecordType(k) + "' record " + k.substr(0, 80) + " has a value that is neither the one before nor the one after the operation", where);
        }
        if ((r.h.back() == OP_R || r.h.back() == OP_D) && !all_pre && !all_post)
            o.violation("C43-partial-transaction:" + kind + ":" + lastop, std::string("operation ") + lastop + " is one DB transaction, but after {" + job.st.describe() + "} of history {" + hist + "} its records are partly applied", where);
        if (job.st.k > r.last_op_mark) o.count(all_pre && !all_post ? "crash_rolled_back" : all_post && !all_pre ? "crash_applied" : all_pre ? "crash_no_effect" : "crash_partial_non_txn");
        o.distinct("outcome", hist + got["REC"] + got["HELD"]);
        if (job.st.k % 89 == 0) o.sample("{" + hist + "} " + kind + " {" + job.st.describe() + "}: loads, records " + (all_post ? "= after" : all_pre ? "= before" : "between"));
    };

    fp::Pool pool;
    // (1) the chosen histories first (a run cut short by the deadline has then seen every transaction-wrapped update)
    wh::Stats S;
    auto merge = [&](const wh::Stats& B, bool bfs) {
        S.histories += B.histories; S.skipped += B.skipped; S.crash_histories += B.crash_histories; S.states_enumerated += B.states_enumerated;
        S.selfchecked += B.selfchecked; S.ops_logged += B.ops_logged; S.cut_short = S.cut_short || B.cut_short; S.error = S.error || B.error;
        if (bfs) { S.distinct_states = B.distinct_states; S.completed_depth = B.completed_depth; }
    };
    auto run_chosen = [&](const std::vector<std::string>& hs, const std::string& sub, bool crash = true) {
        if (!g_cfg.only.empty() || S.cut_short) return;
        wh::Config c = g_cfg;
        c.max_depth = 0;
        c.allow = [](const wh::History&) { return true; };
        for (auto& h : hs) c.extra.push_back(wh::ParseHist(g_cfg, h));
        c.want_crash = [crash](const wh::Run&) { return crash; };
        merge(wh::Explore(c, recorder, pool, initial, g_scratch + sub), false);
    };
    run_chosen({"L D", "T S R", "I"}, "/first");
    if (S.error) return 2;
    // directed histories around MarkUnusedAddresses: a payment to a look-ahead address, with the default range (the top-up that
    // follows grows the range) and after a keypool refill (the range already covers it), then a clean restart / more addresses
    {
        // ... and around memory-only coin locks: a persistent re-lock of a coin locked in memory only, then unlock / restart
        std::vector<std::string> dir{"M", "P M", "P M A", "P M X A", "A P M M", "N K U", "N K", "N K X U", "N U K"};
        run_chosen(dir, "/directed", /*crash=*/big);
        if (S.error) return 2;
    }
    // (2) breadth-first exploration of all histories
    if (!S.cut_short) merge(wh::Explore(g_cfg, recorder, pool, initial, g_scratch), true);
    if (S.error) return 2;

    // (3) wallet creation (descriptor set-up transaction)
    uint64_t new_states = 0;
    bool new_done = false;
    if (vx::ctx().replay.empty() && !S.cut_short) {
        std::string d = g_scratch + "/new";
        sfs::create_directories(d);
        std::vector<int> st = recorder.run({"NEW|" + d + "/w|" + d + "/oplog.bin|" + d + "/info"});
        if (st[0] == 0) {
            vxc::Log log;
            vxc::Tree empty;
            if (!log.load(d + "/oplog.bin", d + "/w")) { printf("HARNESS-ERROR property=C43 cannot load creation log\n"); return 2; }
            std::string sc = wc::SelfCheck(log, empty, d + "/w");
            if (!sc.empty()) { printf("HARNESS-ERROR property=C43 recorder incomplete for wallet creation: %s\n", sc.c_str()); return 2; }
            size_t created = 0;
            for (size_t i = 0; i < log.ops.size(); i++) if (log.ops[i].kind == vxc::MARK && log.ops[i].path == "CREATED") created = i;
            std::vector<wc::PickedState> states = wc::DistinctStates(log, 0, empty, true, true, big);
            new_states = states.size();
            pool.workers = 0;
            pool.run(states.size(), [&](uint64_t j, fp::Out& o) {
                const vxc::State& s = states[j].st;
                std::string dir = g_scratch + "/new_" + std::to_string(getpid());
                vxc::Materialise(log, s, &empty).write_to(dir);
                bool died = false;
                std::string res = "ERR\nno wallet file";
                if (sfs::exists(wk::DbFile(dir))) res = wc::ForkCall([&] { return RunReload(dir); }, &died);
                std::error_code ec;
                sfs::remove_all(dir, ec);
                o.count("reloads");
                o.count("creation_reloads");
                std::string where = "history: NEW\nstate: " + s.describe();
                if (died) { o.violation("C43-load-died:creation", "loading creation crash state {" + s.describe() + "} killed the process (" + res + ")", where); return; }
                if (res.rfind("OK\n", 0) != 0) {
                    o.count("creation_not_loadable");
                    if (s.k > created) o.violation("C43-does-not-load:creation", "the wallet does not load after {" + s.describe() + "}, a crash point after creation had completed: " + res.substr(0, 200), where);
                    return;
                }
                auto got = Sections(res.substr(3));
                std::istringstream is(got["DESC"]);
                std::string id, act;
                size_t pk, ck, n = 0, n_active = 0, n_key = 0;
                int re;
                while (is >> id >> pk >> ck >> act >> re) { n++; n_active += act == "active"; n_key += pk == 1; }
                o.count(n == 0 ? "creation_loaded_0_descriptors" : "creation_loaded_8_descriptors");
                o.distinct("outcome", "NEW" + std::to_string(n));
                if (!(n == 0 || (n == 8 && n_active == 8 && n_key == 8)))
                    o.violation("C43-partial-descriptor-setup", "after creation crash state {" + s.describe() + "} the wallet loads with " + std::to_string(n) + " descriptors (" + std::to_string(n_active) + " active, " + std::to_string(n_key) + " with key): the set-up transaction is not all-or-nothing", where);
                if (s.k > created && n != 8) o.violation("C43-creation-lost", "creation had completed before {" + s.describe() + "} but the wallet loads with " + std::to_string(n) + " descriptors", where);
            }, [&](uint64_t j) { return "history: NEW\nstate: " + states[j].st.describe(); });
            new_done = pool.complete;
            if (!pool.complete) S.cut_short = true;
        } else if (st[0] == -2) S.cut_short = true;
        else { printf("HARNESS-ERROR property=C43 recording wallet creation failed (status %d)\n", st[0]); return 2; }
    }
    // (4) the address request (top-up transaction + three single writes)
    run_chosen({"A"}, "/second");
    if (S.error) return 2;
    recorder.stop();

    E.evaluations += pool.counts["reloads"];
    E.distinct_nontrivial += pool.distinct_size("outcome");
    for (auto& s : pool.samples) E.sample(s);
    E.set("histories_run", S.histories);
    E.set("histories_not_enabled", S.skipped);
    E.set("histories_crash_enumerated", S.crash_histories);
    E.set("distinct_wallet_states", (uint64_t)S.distinct_states);
    E.set("completed_history_depth", (uint64_t)S.completed_depth);
    E.set("ops_logged", S.ops_logged);
    E.set("recorder_runs_verified", S.selfchecked);
    E.set("crash_states_enumerated", S.states_enumerated);
    E.set("reloads_clean", pool.counts["reloads_clean"]);
    E.set("reloads_kill", pool.counts["reloads_kill"]);
    E.set("reloads_powerloss", pool.counts["reloads_powerloss"]);
    E.set("reloads_torn_write", pool.counts["reloads_torn"]);
    E.set("crash_rolled_back", pool.counts["crash_rolled_back"]);
    E.set("crash_applied", pool.counts["crash_applied"]);
    E.set("crash_between_non_txn_steps", pool.counts["crash_partial_non_txn"]);
    E.set("creation_crash_states", new_states);
    E.set("creation_loaded_without_descriptors", pool.counts["creation_loaded_0_descriptors"]);
    E.set("creation_loaded_with_8_descriptors", pool.counts["creation_loaded_8_descriptors"]);
    E.set("creation_not_loadable", pool.counts["creation_not_loadable"]);
    E.exhaustive = !S.cut_short;
    E.rule = "directed histories {M} {P M} {P M A} {P M X A} {A P M M} {N K U} {N K} {N K X U} {N U K} (N memory-only coin lock, P keypool refill to 5, M mempool payment to the receiving address one ahead of next_index through AddToWalletIfInvolvingMe) and histories over {A T F S L D K U I R G X} (see header), breadth-first to depth " + std::to_string(g_cfg.max_depth) +
             ", operations applied only where enabled, states merged on equal DB records + in-memory snapshot; per history a clean close + LoadExisting in a fresh process compared with the pre-close wallet; " +
             (big ? "for every history to depth " + std::to_string(crash_depth) + " and {T S R}" : std::string("for the histories {A} {I} {L D} {T S R}")) + " every crash state with crash point in the last operation (kill prefixes" + (big ? ", torn last writes at depth 1" : "") +
             ", power-loss cuts; deduplicated by bytes) reloaded; plus every crash state of wallet creation. evaluations = reloads judged; distinct_nontrivial = distinct (history, reloaded records + snapshot) outcomes";
    E.assume("no chain is attached: a transaction becomes confirmed by a second AddToWallet with a confirmed state; best-block records, rescans and mempool state are out of scope");
    E.assume("descriptor import (AddWalletDescriptor) is not one DB transaction in this tree; it is checked for loadability, old-or-new records and 'no descriptor without its key' only. Encryption is C42's scenario");
    E.assume("durability model of vx/crash.h; a crash point inside an earlier operation is the last-operation crash point of the shorter history");
    if (vx::ctx().replay.empty() && !S.cut_short && vx::rep().violations == 0) {
        if (!pool.counts["crash_rolled_back"] || !pool.counts["crash_applied"]) { printf("HARNESS-ERROR property=C43 vacuous: crash states never straddled a commit (rolled back %llu, applied %llu)\n", (unsigned long long)pool.counts["crash_rolled_back"], (unsigned long long)pool.counts["crash_applied"]); vx::finish(); return 2; }
        if (new_done && (!pool.counts["creation_loaded_0_descriptors"] || !pool.counts["creation_loaded_8_descriptors"])) { printf("HARNESS-ERROR property=C43 vacuous: creation crash states never loaded both without and with descriptors\n"); vx::finish(); return 2; }
    }
    return vx::finish();
}
