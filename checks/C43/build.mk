LINK := full
KITS := walletkit
CRASH := 1
