// C07 — Headers need real proof of work and the exact required difficulty.
// VX-ENUM. Real code: arith_uint256::SetCompact/GetCompact, DeriveTarget, CheckProofOfWork(Impl),
// CalculateNextWorkRequired, GetNextWorkRequired, PermittedDifficultyTransition, and the header acceptance path
// (ChainstateManager::ProcessNewBlockHeaders -> ContextualCheckBlockHeader) on a regtest node under mock time.
// Oracle: the compact format and retarget rule written down with a schoolbook bignum (ref/refmodel_bignum.h).
#include <vx/vx.h>
#include <ref/refmodel_bignum.h>

#include <arith_uint256.h>
#include <chain.h>
#include <consensus/params.h>
#include <kernel/chainparams.h>
#include <pow.h>
#include <primitives/block.h>
#include <test/util/setup_common.h>
#include <uint256.h>
#include <validation.h>

#include <optional>

using refbig::Big;

namespace {

std::atomic<uint64_t> n_bad{0};
void bad(const std::string& key, const std::string& what)
{
    if (n_bad.fetch_add(1) < 12) vx::violation(key, what, key + "\n" + what);
}
std::string hx(uint32_t v) { char b[16]; snprintf(b, sizeof b, "0x%08x", v); return b; }
std::mutex g_mu;

// ------------------------------------------------------------------------------------------------------------
// A. compact codec. Fast reference used for the 2^32 sweep: the value is three mantissa bytes placed at byte
// offset (exponent-3); cross-checked below against the bignum transcription refbig::decode_compact.
struct FastT {
    unsigned char le[32];
    bool neg, ovf, zero;
    uint32_t canon; // canonical re-encoding of the magnitude (valid if !ovf)
};
inline unsigned nbytes(uint32_t m) { return m == 0 ? 0 : m < 0x100 ? 1 : m < 0x10000 ? 2 : 3; }
inline FastT fast_decode(uint32_t nb)
{
    FastT t{};
    const unsigned e = nb >> 24;
    uint32_t m = nb & 0x007fffff;
    unsigned shift = 0;
    if (e <= 3) m >>= 8 * (3 - e); else shift = e - 3;
    t.neg = m != 0 && (nb & 0x00800000);
    t.zero = m == 0;
    t.ovf = m != 0 && nbytes(m) + shift > 32;
    for (unsigned k = 0; k < 3; k++) if (shift + k < 32) t.le[shift + k] = (unsigned char)(m >> (8 * k));
    if (m == 0) t.canon = 0;
    else {
        unsigned size = nbytes(m) + shift;
        uint32_t mant = m << (8 * (3 - nbytes(m)));
        if (mant & 0x00800000) { mant >>= 8; size++; }
        t.canon = mant | (size << 24);
    }
    return t;
}
inline bool le_lesseq(const unsigned char* a, const unsigned char* b) // a <= b, 32-byte little endian
{
    for (int i = 31; i >= 0; i--) if (a[i] != b[i]) return a[i] < b[i];
    return true;
}

struct Limit { std::string name; uint256 u; unsigned char le[32]; };
std::vector<Limit> g_limits; // distinct powLimits of the built-in chains

struct CodecStats { uint64_t n = 0, neg = 0, ovf = 0, zero = 0, above = 0, valid = 0, noncanon = 0; };
CodecStats g_codec;

void codec_case(uint32_t nb, CodecStats& st)
{
    const FastT want = fast_decode(nb);
    bool neg = false, ovf = false;
    arith_uint256 v;
    v.SetCompact(nb, &neg, &ovf);
    std::string err;
    if (neg != want.neg) err += " negative-flag";
    if (ovf != want.ovf) err += " overflow-flag";
    const uint256 vb = ArithToUint256(v);
    if (!want.ovf) {
        if (memcmp(vb.data(), want.le, 32) != 0) err += " value(" + vb.ToString() + ")";
        const uint32_t c0 = v.GetCompact(false), c1 = v.GetCompact(true);
        if (c0 != want.canon) err += " GetCompact=" + hx(c0) + "!=" + hx(want.canon);
        if (c1 != (want.canon | (want.zero ? 0 : 0x00800000u))) err += " GetCompact(negative)=" + hx(c1);
        // decoding without the optional flag pointers gives the same value
        arith_uint256 w;
        w.SetCompact(nb);
        if (w != v) err += " SetCompact-without-flags";
    }
    for (const Limit& L : g_limits) {
        const bool ok = !want.neg && !want.ovf && !want.zero && le_lesseq(want.le, L.le);
        const std::optional<arith_uint256> d = DeriveTarget(nb, L.u);
        if (d.has_value() != ok) err += " DeriveTarget(" + L.name + ")=" + (d ? "target" : "none");
        else if (ok && memcmp(ArithToUint256(*d).data(), want.le, 32) != 0) err += " DeriveTarget-value(" + L.name + ")";
        if (&L == &g_limits[0]) {
            st.valid += ok;
            st.above += (!want.neg && !want.ovf && !want.zero && !ok);
        }
    }
    if (!err.empty()) bad("compact nBits=" + hx(nb), "mismatch:" + err);
    st.n++;
    st.neg += want.neg; st.ovf += want.ovf; st.zero += want.zero;
    st.noncanon += (!want.ovf && !want.neg && want.canon != nb);
}

// cross-check of the fast reference against the bignum transcription (harness self-check, both are references)
bool selfcheck_fast(uint32_t nb)
{
    const FastT f = fast_decode(nb);
    const refbig::Compact c = refbig::decode_compact(nb);
    if (f.neg != c.negative || f.ovf != c.overflow || f.zero != c.value.is_zero()) return false;
    if (!f.ovf) {
        if (c.value.bytes_le(32) != std::vector<unsigned char>(f.le, f.le + 32)) return false;
        if (refbig::encode_compact(c.value) != f.canon) return false;
    }
    return true;
}

Big big_of(const uint256& u) { return Big::from_bytes_le(u.data(), 32); }
Big big_of(const arith_uint256& a) { return big_of(ArithToUint256(a)); }
uint256 u256_of(const Big& b)
{
    uint256 u;
    auto v = b.bytes_le(32);
    memcpy(u.data(), v.data(), 32);
    return u;
}

// ------------------------------------------------------------------------------------------------------------
struct Chain { std::string name; std::unique_ptr<const CChainParams> cp; const Consensus::Params* p; Big limit; uint32_t limit_bits; };
std::vector<Chain> g_chains;

// reference retarget: new = min(floor(old * clamp(span, T/4, 4T) / T), limit), compact-encoded
uint32_t ref_retarget(const Big& old, int64_t span, int64_t T, const Big& limit, int* clamp_class)
{
    int64_t c = span;
    *clamp_class = 1;
    if (c < T / 4) { c = T / 4; *clamp_class = 0; }
    if (c > T * 4) { c = T * 4; *clamp_class = 2; }
    Big n = Big::div(old * Big((uint64_t)c), Big((uint64_t)T));
    if (n > limit) { n = limit; *clamp_class = 3; }
    return refbig::encode_compact(n);
}
// next representable compact value above / below a canonical compact (no sign, mantissa in 0x008000..0x7fffff)
uint32_t step_up(uint32_t c)
{
    uint32_t e = c >> 24, m = c & 0x7fffff;
    if (m == 0x7fffff) return ((e + 1) << 24) | 0x008000;
    return (e << 24) | (m + 1);
}
uint32_t step_down(uint32_t c)
{
    uint32_t e = c >> 24, m = c & 0x7fffff;
    if (m <= 0x008000 && e > 3) return ((e - 1) << 24) | 0x7fffff;
    return (e << 24) | (m - 1);
}

} // namespace

int main(int argc, char** argv)
{
    vx::init(argc, argv, "C07", "exploration");
    auto& E = vx::ev();
    const bool big = vx::thorough();
    if (!vx::ctx().replay.empty()) printf("replay: the key in the replay file names the input; re-run the tier to re-evaluate\n");

    g_chains.push_back({"main", CChainParams::Main(), nullptr, {}, 0});
    g_chains.push_back({"testnet3", CChainParams::TestNet(), nullptr, {}, 0});
    g_chains.push_back({"testnet4", CChainParams::TestNet4(), nullptr, {}, 0});
    g_chains.push_back({"signet", CChainParams::SigNet({}), nullptr, {}, 0});
    g_chains.push_back({"regtest", CChainParams::RegTest({}), nullptr, {}, 0});
    for (Chain& c : g_chains) {
        c.p = &c.cp->GetConsensus();
        c.limit = big_of(c.p->powLimit);
        c.limit_bits = refbig::encode_compact(c.limit);
        bool seen = false;
        for (const Limit& L : g_limits) if (L.u == c.p->powLimit) seen = true;
        if (!seen) {
            Limit L{c.name, c.p->powLimit, {}};
            memcpy(L.le, c.p->powLimit.data(), 32);
            g_limits.push_back(L);
        }
    }

    // mantissa boundary values (24 bit, including the sign bit 0x800000)
    const std::vector<uint32_t> MANT = {0x000000, 0x000001, 0x00007f, 0x000080, 0x0000ff, 0x000100, 0x007fff, 0x008000, 0x00ffff, 0x010000, 0x0377ae, 0x123456,
                                        0x3fffff, 0x400000, 0x7ffffe, 0x7fffff, 0x800000, 0x800001, 0x8000ff, 0x800100, 0x80ffff, 0x810000, 0xffffff};

    // ---------------------------------------------------------------- A. compact codec / DeriveTarget
    {
        // self-check of the fast reference on all exponents x boundary mantissas
        for (uint32_t e = 0; e < 256; e++)
            for (uint32_t m : MANT)
                if (!selfcheck_fast((e << 24) | m)) { printf("HARNESS-ERROR property=C07 fast and bignum references disagree at %s\n", hx((e << 24) | m).c_str()); return 2; }
        // quick: all 256 exponents x mantissa = all 256 high bytes x mid byte in 7 values x low byte in 20 values
        // thorough: every nBits value
        const std::vector<uint32_t> MID = {0x00, 0x01, 0x7f, 0x80, 0xfe, 0xff, 0x5a};
        const std::vector<uint32_t> LOW = {0x00, 0x01, 0x02, 0x0f, 0x10, 0x3f, 0x40, 0x55, 0x7e, 0x7f, 0x80, 0x81, 0xaa, 0xc0, 0xe0, 0xf0, 0xfc, 0xfd, 0xfe, 0xff};
        const uint64_t per_top = big ? (1u << 16) : MID.size() * LOW.size();
        std::atomic<bool> cut{false};
        vx::par_for(1 << 16, 64, [&](uint64_t lo, uint64_t hi, unsigned) {
            if (vx::deadline_reached()) { cut = true; return; }
            CodecStats st;
            for (uint64_t top = lo; top < hi; top++) // top = exponent byte and mantissa high byte
                for (uint64_t k = 0; k < per_top; k++) {
                    uint32_t low16 = big ? (uint32_t)k : (MID[k / LOW.size()] << 8 | LOW[k % LOW.size()]);
                    codec_case((uint32_t)(top << 16) | low16, st);
                }
            std::lock_guard<std::mutex> l(g_mu);
            g_codec.n += st.n; g_codec.neg += st.neg; g_codec.ovf += st.ovf; g_codec.zero += st.zero; g_codec.above += st.above; g_codec.valid += st.valid; g_codec.noncanon += st.noncanon;
        });
        if (cut) E.exhaustive = false;
        E.evaluations += g_codec.n;
        E.set("codec_nbits_values", g_codec.n);
        E.set_str("codec_classes", "negative=" + std::to_string(g_codec.neg) + " overflow=" + std::to_string(g_codec.ovf) + " zero=" + std::to_string(g_codec.zero) + " above_main_limit=" + std::to_string(g_codec.above) + " valid_main=" + std::to_string(g_codec.valid) + " non_canonical=" + std::to_string(g_codec.noncanon));
        printf("codec: %" PRIu64 " nBits values, %.1fs\n", g_codec.n, vx::elapsed());

        // GetCompact on values that are not exactly representable: every byte length x leading bytes x tail
        uint64_t n = 0;
        for (unsigned len = 1; len <= 32; len++)
            for (uint32_t top : {0x010000u, 0x7fffffu, 0x800000u, 0x800001u, 0xffffffu, 0x00ffffu, 0x008000u, 0x000001u, 0x0000ffu})
                for (int tail = 0; tail < 3; tail++) {
                    // value = top (3 bytes, most significant) followed by len-3 tail bytes (00.., ff.., 00..01)
                    Big v = Big(top);
                    for (unsigned i = 3; i < len; i++) v = (v << 8) + Big(tail == 1 ? 0xff : (tail == 2 && i + 1 == len) ? 1 : 0);
                    if (len < 3) v = v >> (8 * (3 - len));
                    const uint32_t want = refbig::encode_compact(v);
                    const uint32_t got = UintToArith256(u256_of(v)).GetCompact();
                    if (got != want) bad("GetCompact value=" + v.hex(), "got " + hx(got) + " want " + hx(want));
                    // decoding the encoding truncates to the three leading bytes: decode(encode(v)) <= v < next step
                    const refbig::Compact back = refbig::decode_compact(got);
                    if (got == want && !(back.value <= v)) bad("GetCompact roundtrip value=" + v.hex(), "decode(encode(v)) > v");
                    n++;
                }
        E.evaluations += n;
        E.set("getcompact_inexact_values", n);
    }

    // ---------------------------------------------------------------- B. CheckProofOfWork: hash vs target
    uint64_t pow_ok = 0, pow_high = 0, pow_badbits = 0;
    {
        std::vector<uint32_t> exps;
        for (uint32_t e = 0; e <= 36; e++) exps.push_back(e);
        exps.push_back(0x80); exps.push_back(0xff);
        for (const Chain& c : g_chains)
            for (uint32_t e : exps)
                for (uint32_t m : MANT) {
                    const uint32_t nb = (e << 24) | m;
                    const refbig::Compact t = refbig::decode_compact(nb);
                    const bool valid = !t.negative && !t.overflow && !t.value.is_zero() && t.value <= c.limit;
                    std::vector<Big> hashes = {Big(0), c.limit, c.limit + Big(1), (Big(1) << 256) - Big(1)};
                    if (!t.overflow) {
                        hashes.push_back(t.value);
                        if (!t.value.is_zero()) hashes.push_back(t.value - Big(1));
                        if (t.value.bits() <= 256 && t.value + Big(1) < (Big(1) << 256)) hashes.push_back(t.value + Big(1));
                    }
                    for (const Big& h : hashes) {
                        const bool want = valid && h <= t.value;
                        const uint256 hash = u256_of(h);
                        const bool g1 = CheckProofOfWorkImpl(hash, nb, *c.p), g2 = CheckProofOfWork(hash, nb, *c.p);
                        if (g1 != want || g2 != want)
                            bad("pow chain=" + c.name + " nBits=" + hx(nb) + " hash=" + h.hex(), std::string("CheckProofOfWork") + (g1 != want ? "Impl" : "") + " returned " + (want ? "false" : "true") + ", target=" + (t.overflow ? "overflow" : t.value.hex()) + " valid_target=" + std::to_string(valid));
                        (want ? pow_ok : valid ? pow_high : pow_badbits)++;
                        E.evaluations += 1;
                    }
                }
        E.set("pow_cases_accept", pow_ok);
        E.set("pow_cases_hash_above_target", pow_high);
        E.set("pow_cases_invalid_target", pow_badbits);
        printf("pow: %.1fs\n", vx::elapsed());
    }

    // ---------------------------------------------------------------- C. retargeting
    uint64_t rt_cases = 0, rt_class[4] = {0, 0, 0, 0}, perm_true = 0, perm_false = 0, mindiff_cases = 0;
    vx::Distinct rt_distinct;
    {
        const int NPER = 3; // periods in the index chain
        for (const Chain& c : g_chains) {
            const Consensus::Params& P = *c.p;
            const int64_t T = P.nPowTargetTimespan;
            const int I = (int)P.DifficultyAdjustmentInterval();
            std::vector<CBlockIndex> idx(NPER * I);
            for (int i = 0; i < NPER * I; i++) {
                idx[i].nHeight = i;
                idx[i].pprev = i ? &idx[i - 1] : nullptr;
                idx[i].BuildSkip();
                idx[i].nBits = c.limit_bits;
                idx[i].nTime = 1600000000 + i;
            }
            // previous targets: boundary mantissas at several exponents, the limit, limit/4 and their neighbours
            std::vector<uint32_t> olds;
            for (uint32_t e : {1u, 2u, 3u, 4u, 5u, 0x10u, 0x18u, 0x1au, 0x1bu, 0x1cu, 0x1du, 0x1eu, 0x1fu, 0x20u})
                for (uint32_t m : {0x000001u, 0x0000ffu, 0x000100u, 0x008000u, 0x00ffffu, 0x010000u, 0x0377aeu, 0x123456u, 0x1fffffu, 0x200000u, 0x3fffffu, 0x400000u, 0x7ffffeu, 0x7fffffu})
                    olds.push_back((e << 24) | m);
            const uint32_t lq = refbig::encode_compact(c.limit >> 2);
            for (uint32_t x : {c.limit_bits, step_down(c.limit_bits), lq, step_up(lq), step_down(lq), refbig::encode_compact(c.limit >> 1), refbig::encode_compact(c.limit >> 4)}) olds.push_back(x);
            std::sort(olds.begin(), olds.end());
            olds.erase(std::unique(olds.begin(), olds.end()), olds.end());
            std::vector<uint32_t> valid_olds;
            for (uint32_t o : olds) {
                const refbig::Compact t = refbig::decode_compact(o);
                if (!t.negative && !t.overflow && !t.value.is_zero() && t.value <= c.limit) valid_olds.push_back(o);
            }
            const std::vector<int64_t> spans = {-(1LL << 40), -1, 0, 1, T / 4 - 1, T / 4, T / 4 + 1, T / 2, T - 1, T, T + 1, 2 * T, 3 * T, 4 * T - 1, 4 * T, 4 * T + 1, 8 * T, 1LL << 32, 1LL << 40};
            for (int per = 0; per < NPER; per++) {
                CBlockIndex& first = idx[per * I];
                CBlockIndex& last = idx[per * I + I - 1];
                const int64_t next_height = last.nHeight + 1;
                for (uint32_t old : valid_olds) {
                    const Big old_t = refbig::decode_compact(old).value;
                    // which block's nBits the rule uses: the last one; with BIP94 the first of the period
                    for (int variant = 0; variant < 2; variant++) {
                        const uint32_t other = variant ? c.limit_bits : step_down(c.limit_bits);
                        if (P.enforce_BIP94) { first.nBits = old; last.nBits = variant ? c.limit_bits : old; }
                        else { last.nBits = old; first.nBits = other; }
                        const uint32_t prev_header_bits = last.nBits;
                        std::vector<uint32_t> computed;
                        for (uint32_t last_time : {100000u, 0x7fffffffu, 0xffffffffu})
                            for (int64_t span : spans) {
                                last.nTime = last_time;
                                const int64_t first_time = (int64_t)last_time - span;
                                int cls = 1;
                                const uint32_t want = P.fPowNoRetargeting ? last.nBits : ref_retarget(old_t, span, T, c.limit, &cls);
                                const std::string key = "retarget chain=" + c.name + " height=" + std::to_string(next_height) + " old=" + hx(old) + " last_nBits=" + hx(last.nBits) + " span=" + std::to_string(span) + " last_time=" + std::to_string(last_time);
                                const uint32_t got = CalculateNextWorkRequired(&last, first_time, P);
                                if (got != want) bad(key, "CalculateNextWorkRequired=" + hx(got) + " want " + hx(want));
                                rt_cases++;
                                E.evaluations += 1;
                                if (!P.fPowNoRetargeting) rt_class[cls]++;
                                rt_distinct.add(c.name + hx(old) + std::to_string(span) + std::to_string(cls) + hx(want));
                                computed.push_back(got);
                                if (first_time >= 0 && first_time <= 0xffffffffLL) {
                                    // the same through GetNextWorkRequired, which finds the first block itself
                                    first.nTime = (uint32_t)first_time;
                                    CBlockHeader hdr;
                                    hdr.nTime = last_time + 1;
                                    const uint32_t got2 = GetNextWorkRequired(&last, &hdr, P);
                                    if (got2 != want) bad(key + " via GetNextWorkRequired", "GetNextWorkRequired=" + hx(got2) + " want " + hx(want));
                                    E.evaluations += 1;
                                }
                            }
                        // every value the node computes as required passes the presync transition check
                        std::sort(computed.begin(), computed.end());
                        computed.erase(std::unique(computed.begin(), computed.end()), computed.end());
                        for (uint32_t nb : computed) {
                            if (!PermittedDifficultyTransition(P, next_height, prev_header_bits, nb))
                                bad("permitted chain=" + c.name + " height=" + std::to_string(next_height) + " old=" + hx(prev_header_bits) + " new=" + hx(nb), "required difficulty refused by PermittedDifficultyTransition");
                            perm_true++;
                            E.evaluations += 1;
                        }
                        // band edges (chains without the min-difficulty exception): [old/4, old*4] capped by the limit,
                        // both rounded through the compact encoding; one compact step outside is refused
                        if (variant == 0 && !P.fPowAllowMinDifficultyBlocks && !P.enforce_BIP94) {
                            Big hi_t = old_t * Big(4), lo_t = old_t >> 2;
                            if (hi_t > c.limit) hi_t = c.limit;
                            if (lo_t > c.limit) lo_t = c.limit;
                            const uint32_t hi_c = refbig::encode_compact(hi_t), lo_c = refbig::encode_compact(lo_t);
                            const Big hi_r = refbig::decode_compact(hi_c).value, lo_r = refbig::decode_compact(lo_c).value;
                            std::vector<uint32_t> cands = {hi_c, lo_c, old, step_up(old), c.limit_bits};
                            if ((hi_c & 0x7fffff) >= 0x008000) cands.push_back(step_up(hi_c));
                            if ((lo_c & 0x7fffff) >= 0x008000 && (lo_c >> 24) > 3) cands.push_back(step_down(lo_c));
                            if ((hi_c & 0x7fffff) >= 0x008000 && (hi_c >> 24) > 3) cands.push_back(step_down(hi_c));
                            if ((lo_c & 0x7fffff) >= 0x008000) cands.push_back(step_up(lo_c));
                            for (uint32_t nb : cands) {
                                const refbig::Compact t = refbig::decode_compact(nb);
                                if (t.negative || t.overflow) continue;
                                const bool want = lo_r <= t.value && t.value <= hi_r;
                                const bool got = PermittedDifficultyTransition(P, next_height, old, nb);
                                if (got != want) bad("permitted-band chain=" + c.name + " old=" + hx(old) + " new=" + hx(nb), std::string("PermittedDifficultyTransition=") + (got ? "true" : "false") + ", band [" + hx(lo_c) + "," + hx(hi_c) + "]");
                                (want ? perm_true : perm_false)++;
                                E.evaluations += 1;
                                // off the retarget boundary only an unchanged nBits is permitted
                                for (int64_t h : {next_height - 1, next_height + 1, (int64_t)1}) {
                                    const bool got2 = PermittedDifficultyTransition(P, h, old, nb);
                                    if (got2 != (nb == old)) bad("permitted-nonboundary chain=" + c.name + " height=" + std::to_string(h) + " old=" + hx(old) + " new=" + hx(nb), "must be permitted iff nBits unchanged");
                                    ((nb == old) ? perm_true : perm_false)++;
                                    E.evaluations += 1;
                                }
                            }
                        }
                    }
                }
                first.nBits = c.limit_bits;
                last.nBits = c.limit_bits;
            }
            // between retargets: nBits stays; with the min-difficulty exception (testnets) a block more than 20
            // minutes after its parent takes the limit, otherwise the last non-exception difficulty of the period
            {
                const int base = I; // first block of period 1
                const uint32_t real = refbig::encode_compact(c.limit >> 6);
                for (int n = 1; n <= 6; n++)            // the parent is block base+n-1
                    for (int pat = 0; pat < (1 << n); pat++) // nBits of blocks base..base+n-1: bit set = limit ("exception") block
                        for (int64_t dt : {(int64_t)1, 2 * P.nPowTargetSpacing, 2 * P.nPowTargetSpacing + 1}) {
                            for (int i = 0; i < n; i++) idx[base + i].nBits = ((pat >> i) & 1) ? c.limit_bits : real + i; // distinct real values
                            idx[base - 1].nBits = real + 100;
                            CBlockIndex& parent = idx[base + n - 1];
                            parent.nTime = 1700000000;
                            CBlockHeader hdr;
                            hdr.nTime = (uint32_t)(1700000000 + dt);
                            uint32_t want;
                            if (!P.fPowAllowMinDifficultyBlocks) want = parent.nBits;
                            else if (dt > 2 * P.nPowTargetSpacing) want = c.limit_bits;
                            else {
                                int j = base + n - 1;
                                while (j > base && idx[j].nBits == c.limit_bits) j--; // stops at the first block of the period
                                want = idx[j].nBits;
                            }
                            const uint32_t got = GetNextWorkRequired(&parent, &hdr, P);
                            if (got != want) bad("between-retargets chain=" + c.name + " n=" + std::to_string(n) + " pattern=" + std::to_string(pat) + " dt=" + std::to_string(dt), "GetNextWorkRequired=" + hx(got) + " want " + hx(want));
                            mindiff_cases++;
                            E.evaluations += 1;
                        }
                for (int i = 0; i < 8; i++) idx[base - 1 + i].nBits = c.limit_bits;
            }
        }
        E.set("retarget_cases", rt_cases);
        E.set_str("retarget_classes", "clamped_low=" + std::to_string(rt_class[0]) + " unclamped=" + std::to_string(rt_class[1]) + " clamped_high=" + std::to_string(rt_class[2]) + " capped_by_limit=" + std::to_string(rt_class[3]));
        E.set("permitted_true", perm_true);
        E.set("permitted_false", perm_false);
        E.set("between_retarget_cases", mindiff_cases);
        printf("retarget: %.1fs\n", vx::elapsed());
    }

    // ---------------------------------------------------------------- D. header acceptance on a regtest node
    uint64_t hdr_accept = 0, hdr_old = 0, hdr_new = 0, hdr_bits = 0, hdr_pow = 0;
    {
        TestChain100Setup setup;
        ChainstateManager& cm = *setup.m_node.chainman;
        const Consensus::Params& P = cm.GetConsensus();
        const Big limit = big_of(P.powLimit);
        const uint32_t req = refbig::encode_compact(limit); // regtest never retargets: genesis nBits for ever
        struct Node { uint256 hash; std::vector<int64_t> times; }; // times of the whole ancestry incl. itself
        Node root;
        {
            LOCK(cs_main);
            const CBlockIndex* tip = cm.ActiveChain().Tip();
            root.hash = tip->GetBlockHash();
            for (const CBlockIndex* p = tip; p; p = p->pprev) root.times.insert(root.times.begin(), p->GetBlockTime());
            if (tip->nBits != req) { printf("HARNESS-ERROR property=C07 unexpected regtest nBits\n"); return 2; }
        }
        const int64_t now = root.times.back() + 30000;
        setup.m_clock.set(std::chrono::seconds{now});
        auto mtp = [](const std::vector<int64_t>& t) { // median of the last (up to) 11 block times
            std::vector<int64_t> w(t.end() - std::min<size_t>(11, t.size()), t.end());
            std::sort(w.begin(), w.end());
            return w[w.size() / 2];
        };
        // header with chosen fields; the nonce is searched so that the hash is <= target (good) or > target (bad)
        // according to the reference comparison
        auto make = [&](const uint256& prev, int64_t time, uint32_t bits, bool good_pow) {
            CBlockHeader h;
            h.nVersion = 0x20000000;
            h.hashPrevBlock = prev;
            h.hashMerkleRoot = uint256{1};
            h.nTime = (uint32_t)time;
            h.nBits = bits;
            const Big target = refbig::decode_compact(req).value; // judged against the required target
            for (h.nNonce = 0;; h.nNonce++)
                if ((big_of(h.GetHash()) <= target) == good_pow) return h;
        };
        auto submit = [&](const CBlockHeader& h) {
            BlockValidationState st;
            const std::vector<CBlockHeader> v{h};
            return cm.ProcessNewBlockHeaders(v, /*min_pow_checked=*/true, st);
        };
        const int depth = big ? 6 : 4;
        std::vector<Node> level{root};
        uint64_t nodes = 0;
        std::set<uint256> seen_nodes;
        for (int d = 0; d <= depth && !level.empty(); d++) {
            std::vector<Node> next;
            for (const Node& nd : level) {
                nodes++;
                const int64_t m = mtp(nd.times);
                struct V { int64_t time; uint32_t bits; bool pow; };
                std::vector<V> vs;
                for (int64_t t : {m - 1, m, m + 1, now + 7199, now + 7200, now + 7201}) vs.push_back({t, req, true});
                // wrong difficulty: easier than allowed, harder than required, sign bit, zero
                for (uint32_t b : {step_down(req), step_up(req), req | 0x00800000u, 0x1d00ffffu, 0u}) vs.push_back({m + 1, b, true});
                vs.push_back({m + 1, req, false});
                vs.push_back({now + 7200, req, false});
                for (const V& v : vs) {
                    const bool time_ok = v.time > m && v.time <= now + 7200;
                    const bool want = time_ok && v.bits == req && v.pow;
                    const CBlockHeader h = make(nd.hash, v.time, v.bits, v.pow);
                    const bool got = submit(h);
                    if (got != want)
                        bad("header parent_height=" + std::to_string(nd.times.size() - 1) + " mtp=" + std::to_string(m) + " now=" + std::to_string(now) + " time=" + std::to_string(v.time) + " nBits=" + hx(v.bits) + " pow=" + (v.pow ? "ok" : "high"),
                            std::string("ProcessNewBlockHeaders ") + (got ? "accepted" : "rejected") + ", expected " + (want ? "accept" : "reject"));
                    if (want) hdr_accept++;
                    else if (v.time <= m) hdr_old++;
                    else if (v.time > now + 7200) hdr_new++;
                    else if (v.bits != req) hdr_bits++;
                    else hdr_pow++;
                    E.evaluations += 1;
                }
                if (d == depth) continue;
                // children: earliest allowed time, parent+600, parent+3000 (all accepted, become new parents)
                for (int64_t t : {m + 1, nd.times.back() + 600, nd.times.back() + 3000}) {
                    const CBlockHeader h = make(nd.hash, t, req, true);
                    const bool ok = t > m && t <= now + 7200;
                    const bool got = submit(h);
                    if (got != ok) bad("header-chain parent_height=" + std::to_string(nd.times.size() - 1) + " time=" + std::to_string(t) + " mtp=" + std::to_string(m), std::string("ProcessNewBlockHeaders ") + (got ? "accepted" : "rejected") + " while building the header tree");
                    E.evaluations += 1;
                    if (!got || !seen_nodes.insert(h.GetHash()).second) continue;
                    Node ch{h.GetHash(), nd.times};
                    ch.times.push_back(t);
                    next.push_back(std::move(ch));
                }
            }
            level = std::move(next);
            if (vx::deadline_reached()) { E.exhaustive = false; break; }
        }
        E.set("header_tree_nodes", nodes);
        E.set_str("header_classes", "accept=" + std::to_string(hdr_accept) + " too_old=" + std::to_string(hdr_old) + " too_new=" + std::to_string(hdr_new) + " wrong_bits=" + std::to_string(hdr_bits) + " high_hash=" + std::to_string(hdr_pow));
        printf("headers: %" PRIu64 " parents, %.1fs\n", nodes, vx::elapsed());
    }

    E.distinct_nontrivial = (g_codec.n - g_codec.valid) /* nBits that are negative/zero/overflow/above limit */ + rt_distinct.size() + pow_high + perm_false + hdr_old + hdr_new + hdr_bits + hdr_pow;
    E.rule = std::string("(A) ") + (big ? "every 32-bit nBits value" : "all 256 exponents x 256 mantissa high bytes x 7 mid x 20 low bytes") + ": SetCompact value+flags, GetCompact, DeriveTarget for the 3 distinct powLimits vs the compact definition; GetCompact on inexact values of every byte length; "
             "(B) CheckProofOfWork(Impl) for 5 chains x 39 exponents x 23 mantissas x hash in {0, target-1, target, target+1, limit, limit+1, 2^256-1}; "
             "(C) CalculateNextWorkRequired/GetNextWorkRequired for 5 chains x 3 periods x valid previous targets (boundary mantissas at 14 exponents, limit, limit/4 and neighbours) x 19 timespans x 3 last-times vs min(old*clamp(span)/T, limit) in bignum, every result fed to PermittedDifficultyTransition, band edges +-1 compact step, non-boundary heights, testnet 20-minute rule over all 2^n exception patterns n<=6; "
             "(D) header tree of depth " + std::to_string(big ? 6 : 4) + " over 3 timestamp choices on a regtest node: per parent time in {MTP-1,MTP,MTP+1,now+7199,now+7200,now+7201}, 5 wrong nBits, hash above target. "
             "distinct_nontrivial = invalid-target nBits + distinct retarget (chain,old,span,class,result) + rejecting cases of B, C-permitted, D";
    E.sample("codec classes: negative=" + std::to_string(g_codec.neg) + " overflow=" + std::to_string(g_codec.ovf) + " zero=" + std::to_string(g_codec.zero) + " above_limit=" + std::to_string(g_codec.above) + " valid=" + std::to_string(g_codec.valid));
    E.sample("retarget e.g. main old=0x1d00ffff span=4T+1 -> capped by limit 0x1d00ffff; signet old=limit span=4T: product just below 2^256");
    E.sample("header classes: accept=" + std::to_string(hdr_accept) + " too_old=" + std::to_string(hdr_old) + " too_new=" + std::to_string(hdr_new) + " wrong_bits=" + std::to_string(hdr_bits) + " high_hash=" + std::to_string(hdr_pow));
    E.assume("previous targets are valid for their chain (0 < target <= powLimit), so old*4T < 2^256 and exact arithmetic equals the 256-bit arithmetic; header acceptance is exercised on regtest only (no retargeting there: the required nBits is constant); mock time is the node clock");

    if (vx::rep().violations == 0 && E.exhaustive) {
        const char* miss = nullptr;
        if (!g_codec.neg || !g_codec.ovf || !g_codec.zero || !g_codec.above || !g_codec.valid || !g_codec.noncanon) miss = "codec class";
        else if (!pow_ok || !pow_high || !pow_badbits) miss = "pow class";
        else if (!rt_class[0] || !rt_class[1] || !rt_class[2] || !rt_class[3]) miss = "retarget clamp class";
        else if (!perm_true || !perm_false) miss = "permitted class";
        else if (!hdr_accept || !hdr_old || !hdr_new || !hdr_bits || !hdr_pow) miss = "header class";
        if (miss) {
            printf("HARNESS-ERROR property=C07 class never occurred: %s\n", miss);
            vx::finish();
            return 2;
        }
    }
    return vx::finish();
}
