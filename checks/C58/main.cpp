// C58 — Unrequested blocks cannot fill the node's storage.
//
// Scenario grid on the real regtest node (kits/chainkit). Base: active tip T at height 110. For every minimum-chain-work
// setting m, fork point F in {T, T-1, T-2, T-3, T-10}, block height h around the three boundaries (work of the tip,
// tip+288, m) and "already stored" in {no, yes}: the headers of a branch F..h are announced (headers only), then the
// block at height h is handed to ProcessNewBlock(force_processing=false) (twice), then with force_processing=true, and
// — where the branch is short — the rest of the branch is delivered so the block can become the tip.
// Reference predicate (from the property): an unrequested block is stored iff work(chain) >= work(tip) and
// height <= tip+288 and work(chain) >= m. Regtest: every block has work 2, so work(h) = 2(h+1) (checked against the
// node's nChainWork once per node). Observed: BLOCK_HAVE_DATA, nTx, FAILED flags, the *new_block out-parameter,
// number/bytes of blocks in the block files, ReadBlock, and the later requested acceptance / tip switch.
// Extra scenarios: header unknown (parent known), parent header unknown, min_pow_checked=false.
#include <vx/vx.h>
#include <kits/chainkit.h>

#include <chainparams.h>
#include <node/blockstorage.h>
#include <util/time.h>

struct Stats {
    uint64_t scenarios{0}, stored{0}, dropped{0}, tip_switches{0};
    std::map<std::string, std::pair<int, int>> why; // boundary class -> (stored, dropped)
    vx::Distinct distinct;
};

struct Disk { uint64_t blocks{0}, bytes{0}; };
static Disk DiskUse(ck::Node& n)
{
    LOCK(cs_main);
    Disk d;
    for (auto& fi : n.chainman().m_blockman.m_blockfile_info) { d.blocks += fi.nBlocks; d.bytes += fi.nSize; }
    return d;
}
struct Obs { bool index{false}, have_data{false}, failed{false}, readable{false}; unsigned ntx{0}; };
static Obs Observe(ck::Node& n, const CBlock& b)
{
    Obs o;
    LOCK(cs_main);
    const CBlockIndex* pi = n.chainman().m_blockman.LookupBlockIndex(b.GetHash());
    if (!pi) return o;
    o.index = true;
    o.have_data = pi->nStatus & BLOCK_HAVE_DATA;
    o.failed = pi->nStatus & (BLOCK_FAILED_VALID | BLOCK_FAILED_CHILD);
    o.ntx = pi->nTx;
    if (o.have_data) { CBlock rd; o.readable = n.chainman().m_blockman.ReadBlock(rd, *pi) && rd.GetHash() == b.GetHash(); }
    return o;
}

static const int TIP_H = 110;
static int64_t Work(int h) { return 2 * ((int64_t)h + 1); } // regtest: proof of every block (incl. genesis) is 2

struct Grid {
    ck::Node& n;
    int64_t m;               // minimum chain work of this node
    Stats& S;
    uint256 base_tip;
    int nonce{1};
    std::map<std::pair<int, int>, const CBlockIndex*> prefix_end; // (fork height, prefix target height) -> shared header-only prefix

    bool RefStored(int h) const { return Work(h) >= Work(TIP_H) && h <= TIP_H + 288 && Work(h) >= m; }
    std::string Class(int h) const
    {
        if (Work(h) < Work(TIP_H)) return "less-work";
        if (h > TIP_H + 288) return "too-far-ahead";
        if (Work(h) < m) return "below-min-chain-work";
        return "eligible";
    }
    const CBlockIndex* At(int height) { LOCK(cs_main); return n.chainman().ActiveChain()[height]; }

    // announce a header-only block on prev; returns its index entry
    const CBlockIndex* Announce(const CBlockIndex* prev, CBlock* keep = nullptr)
    {
        ck::BlockOpts bo;
        bo.extra_nonce = nonce++;
        CBlock b = ck::MakeBlock(n, prev, {}, bo);
        BlockValidationState st;
        if (!n.ProcessHeader(b, st)) throw std::runtime_error("header rejected: " + st.GetRejectReason());
        if (keep) *keep = b;
        return n.index_of(b.GetHash());
    }
    // header chain from fork height f up to (and including) height `to`, shared between scenarios
    const CBlockIndex* Prefix(int f, int to)
    {
        if (to <= f) return At(f);
        auto key = std::make_pair(f, to);
        auto it = prefix_end.find(key);
        if (it != prefix_end.end()) return it->second;
        const CBlockIndex* p = At(f);
        // reuse the longest shorter prefix
        for (auto& [k, v] : prefix_end) if (k.first == f && k.second < to && k.second > p->nHeight) p = v;
        while (p->nHeight < to) p = Announce(p);
        prefix_end[key] = p;
        return p;
    }

    void V(const std::string& key, const std::string& what, const std::string& scen) { vx::violation(key, what + " [" + scen + "]", "scenario: " + scen); }

    // one scenario: fork height f, target height h, variants
    void Scenario(int f, int h, bool already_have, bool header_known, bool min_pow_checked)
    {
        std::string scen = "m=" + std::to_string(m) + " fork=" + std::to_string(f) + " h=" + std::to_string(h) + (already_have ? " already-stored" : "") + (header_known ? "" : " header-unknown") + (min_pow_checked ? "" : " min_pow_checked=false");
        std::string cls = Class(h);
        // shared prefix up to h-3 (never given data), then a private tail so that every scenario owns its blocks
        int shared_to = (h - f > 6) ? h - 3 : f;
        const CBlockIndex* p = Prefix(f, shared_to);
        std::vector<CBlock> tail; // blocks shared_to+1 .. h
        while (p->nHeight < h - 1) { CBlock b; p = Announce(p, &b); tail.push_back(b); }
        CBlock B;
        if (header_known) { Announce(p, &B); }
        else { ck::BlockOpts bo; bo.extra_nonce = nonce++; B = ck::MakeBlock(n, p, {}, bo); }
        tail.push_back(B);
        S.scenarios++;
        Obs o0 = Observe(n, B);
        if (header_known && (!o0.index || o0.have_data || o0.failed || o0.ntx)) { printf("HARNESS-ERROR C58 unexpected pre-state in %s\n", scen.c_str()); exit(2); }
        const bool expect = RefStored(h);
        if (already_have) {
            auto r = n.ProcessBlock(B, /*force=*/true, true);
            Obs o = Observe(n, B);
            if (!o.have_data || !r.new_block) V("C58-requested-not-stored:" + cls, "requested delivery did not store the block", scen);
        }
        Disk d0 = DiskUse(n);
        Obs before = Observe(n, B);
        // ---- unrequested delivery
        ck::BlockResult r = n.ProcessBlock(B, /*force=*/false, min_pow_checked);
        Obs o1 = Observe(n, B);
        Disk d1 = DiskUse(n);
        bool header_accepted = header_known || min_pow_checked;   // an unknown header without the anti-DoS work check is refused
        bool want_stored = already_have || (expect && header_accepted);
        bool newly = !already_have && want_stored;
        if (o1.failed) V("C58-dropped-block-marked-failed:" + cls, "index entry carries a FAILED flag after an unrequested delivery", scen);
        if (o1.have_data != want_stored) V(std::string("C58-") + (want_stored ? "eligible-block-not-stored:" : "ineligible-block-stored:") + cls, std::string("BLOCK_HAVE_DATA=") + (o1.have_data ? "1" : "0") + ", reference: " + (want_stored ? "store" : "drop") + " (work " + std::to_string(Work(h)) + " vs tip " + std::to_string(Work(TIP_H)) + ", height " + std::to_string(h) + " vs tip+288=" + std::to_string(TIP_H + 288) + ", min work " + std::to_string(m) + ")", scen);
        if (r.new_block != newly) V("C58-new-block-flag:" + cls, std::string("*new_block=") + (r.new_block ? "1" : "0") + " but the reference says " + (newly ? "newly stored" : "not newly stored"), scen);
        if ((d1.blocks != d0.blocks) != newly || (d1.bytes != d0.bytes) != newly) V(std::string("C58-blockfile-") + (newly ? "did-not-grow:" : "grew:") + cls, "block files " + std::to_string(d0.blocks) + "->" + std::to_string(d1.blocks) + " blocks, " + std::to_string(d0.bytes) + "->" + std::to_string(d1.bytes) + " bytes; reference: " + (newly ? "one block written" : "nothing written"), scen);
        if (o1.have_data && !o1.readable) V("C58-stored-block-unreadable:" + cls, "HAVE_DATA set but ReadBlock does not return the block", scen);
        if (!want_stored && o1.ntx != before.ntx) V("C58-dropped-block-ntx:" + cls, "nTx changed for a dropped block", scen);
        if (header_accepted && !r.pnb_ret) V("C58-unrequested-delivery-error:" + cls, "ProcessNewBlock returned false (" + r.reason + ") for an unrequested block with a valid header", scen);
        if (!header_accepted && (r.pnb_ret || o1.index)) V("C58-unchecked-header-accepted", "header without anti-DoS work check entered the index", scen);
        if (n.tip()->GetBlockHash() != base_tip && !(want_stored && f == TIP_H && h == TIP_H + 1)) V("C58-tip-moved:" + cls, "active tip changed", scen);
        (want_stored ? S.stored : S.dropped)++;
        auto& w = S.why[cls];
        (want_stored ? w.first : w.second)++;
        S.distinct.add(scen);
        if (S.scenarios % 53 == 1) vx::ev().sample(scen + " -> " + cls + ": " + (want_stored ? "stored" : "dropped, not failed") + ", later requested delivery accepted");
        // ---- second unrequested delivery: idempotent
        ck::BlockResult r2 = n.ProcessBlock(B, false, min_pow_checked);
        Obs o2 = Observe(n, B);
        Disk d2 = DiskUse(n);
        if (o2.have_data != o1.have_data || o2.failed || r2.new_block || d2.blocks != d1.blocks) V("C58-second-unrequested-delivery:" + cls, "repeating the unrequested delivery changed the outcome (HAVE_DATA " + std::to_string(o1.have_data) + "->" + std::to_string(o2.have_data) + ", new_block=" + std::to_string(r2.new_block) + ", files " + std::to_string(d1.blocks) + "->" + std::to_string(d2.blocks) + ")", scen);
        // ---- requested delivery: must be accepted now
        ck::BlockResult r3 = n.ProcessBlock(B, true, true);
        Obs o3 = Observe(n, B);
        Disk d3 = DiskUse(n);
        if (!r3.pnb_ret || !o3.have_data || o3.failed || !o3.readable) V("C58-requested-redelivery-refused:" + cls, "requested redelivery after the unrequested one: ret=" + std::to_string(r3.pnb_ret) + " HAVE_DATA=" + std::to_string(o3.have_data) + " failed=" + std::to_string(o3.failed) + " reason=" + r3.reason, scen);
        if (r3.new_block != !o2.have_data) V("C58-requested-redelivery-new-flag:" + cls, "*new_block on requested redelivery is " + std::to_string(r3.new_block), scen);
        if ((d3.blocks - d2.blocks) != (o2.have_data ? 0u : 1u)) V("C58-requested-redelivery-files:" + cls, "block files changed by " + std::to_string(d3.blocks - d2.blocks) + " blocks", scen);
        // ---- short branches: deliver the rest, the block (or its child) can become the tip
        if (h - f <= 6) {
            for (size_t i = 0; i + 1 < tail.size(); i++) n.ProcessBlock(tail[i], true, true);
            const CBlockIndex* bi = n.index_of(B.GetHash());
            bool is_tip = n.tip() == bi;
            if (h > TIP_H && !is_tip) V("C58-requested-branch-not-tip:" + cls, "complete branch with more work than the tip was delivered on request but is not the tip", scen);
            if (h <= TIP_H) {
                if (n.tip()->GetBlockHash() != base_tip) V("C58-less-work-branch-became-tip", "branch without more work displaced the tip", scen);
                // extend to tip height + 1: now it must win
                const CBlockIndex* q = bi;
                while (q->nHeight < TIP_H + 1) { ck::BlockOpts bo; bo.extra_nonce = nonce++; CBlock e = ck::MakeBlock(n, q, {}, bo); n.ProcessBlock(e, true, true); q = n.index_of(e.GetHash()); if (!q) break; }
                if (!q || n.tip() != q) V("C58-extended-branch-not-tip", "branch extended past the tip's work is not the tip", scen);
            }
            if (n.tip()->GetBlockHash() != base_tip) {
                S.tip_switches++;
                // roll back: invalidate the first block of the branch, the original chain is active again
                const CBlockIndex* root = n.tip();
                while (root->nHeight > f + 1) root = root->pprev;
                n.Invalidate(root->GetBlockHash());
                if (n.tip()->GetBlockHash() != base_tip) { printf("HARNESS-ERROR C58 rollback failed in %s\n", scen.c_str()); exit(2); }
            }
        }
    }

    // parent header unknown: the block cannot even be indexed; afterwards (parent announced) it is acceptable
    void Orphan(int f)
    {
        std::string scen = "m=" + std::to_string(m) + " fork=" + std::to_string(f) + " parent-header-unknown";
        const CBlockIndex* p = At(f);
        ck::BlockOpts bo;
        bo.extra_nonce = nonce++;
        CBlock parent = ck::MakeBlock(n, p, {}, bo);
        // child built on a temporary index entry of the parent: announce parent in a throw-away way is not possible, so
        // build the child by hand on the parent's hash
        CBlock child = parent;
        child.hashPrevBlock = parent.GetHash();
        child.nTime = parent.nTime + 600;
        {
            CMutableTransaction cb(*child.vtx[0]);
            cb.vin[0].scriptSig = CScript() << (f + 2) << CScriptNum(nonce++) << OP_0;
            child.vtx[0] = MakeTransactionRef(cb);
        }
        child.hashMerkleRoot = uint256();
        ck::Refinalize(n, child, p, false, true);
        S.scenarios++;
        Disk d0 = DiskUse(n);
        auto r = n.ProcessBlock(child, false, true);
        Obs o = Observe(n, child);
        Disk d1 = DiskUse(n);
        if (r.pnb_ret || o.index || d1.blocks != d0.blocks) V("C58-orphan-recorded", "block with unknown parent header was indexed or stored", scen);
        n.ProcessBlock(parent, true, true);
        auto r2 = n.ProcessBlock(child, true, true);
        Obs o2 = Observe(n, child);
        if (!r2.pnb_ret || !o2.have_data || o2.failed) V("C58-orphan-later-refused", "block refused after its parent became known: " + r2.reason, scen);
        S.distinct.add(scen);
        if (n.tip()->GetBlockHash() != base_tip) {
            S.tip_switches++;
            const CBlockIndex* root = n.tip();
            while (root->nHeight > f + 1) root = root->pprev;
            n.Invalidate(root->GetBlockHash());
            if (n.tip()->GetBlockHash() != base_tip) { printf("HARNESS-ERROR C58 rollback failed in %s\n", scen.c_str()); exit(2); }
        }
    }
};

int main(int argc, char** argv)
{
    vx::init(argc, argv, "C58", "exploration", 150, 1500);
    vx::scratch_dir();
    auto& E = vx::ev();
    const bool big = vx::thorough();
    Stats S;
    bool bad = false;
    if (!vx::ctx().replay.empty()) {
        std::ifstream f(vx::ctx().replay);
        std::string line;
        while (std::getline(f, line)) if (line.rfind("scenario: ", 0) == 0) printf("replay: scenario '%s' (the grid is small: the whole tier is re-run)\n", line.substr(10).c_str());
    }
    // minimum chain work settings: none, and -1/0/+1 around the work of heights 150 and 398 (= tip+288)
    std::vector<int64_t> ms{0, Work(150) - 1, Work(150), Work(150) + 1};
    for (int64_t x : {Work(111) - 1, Work(111), Work(111) + 1, Work(398) - 1, Work(398), Work(398) + 1, Work(110), (int64_t)1}) ms.push_back(x);
    std::vector<int> forks{TIP_H, TIP_H - 1, TIP_H - 2, TIP_H - 3, TIP_H - 10};
    for (int64_t m : ms) {
        if (vx::deadline_reached()) { E.exhaustive = false; break; }
        ck::NodeOpts o;
        o.min_validation_cache = true;
        o.check_block_index = false; // thousands of header-only entries; the node's self-check is O(index) per header
        o.minimum_chain_work = arith_uint256((uint64_t)m);
        ck::Node node(o);
        ck::RefLedger L;
        L.AddGenesis(Params().GenesisBlock());
        SetMockTime(Params().GenesisBlock().nTime + 600 * 100000);
        ck::MineEmpty(node, L, TIP_H);
        {
            LOCK(cs_main);
            if (node.chainman().ActiveChain().Tip()->nChainWork != arith_uint256((uint64_t)Work(TIP_H)) || node.chainman().MinimumChainWork() != arith_uint256((uint64_t)m)) { printf("HARNESS-ERROR C58 work model does not match the node\n"); return 2; }
        }
        Grid g{node, m, S};
        g.base_tip = node.tip()->GetBlockHash();
        for (int f : forks) {
            std::set<int> hs;
            for (int h = TIP_H - 3; h <= TIP_H + 3; h++) hs.insert(h);
            for (int h = TIP_H + 286; h <= TIP_H + 291; h++) hs.insert(h);
            for (int h : {148, 149, 150, 151, 152}) hs.insert(h);
            if (big) for (int h : {TIP_H + 50, TIP_H + 100, TIP_H + 200, TIP_H + 287 + 288, 1000, 2500}) hs.insert(h);
            for (int h : hs) {
                if (h <= f) continue;
                for (bool have : {false, true}) g.Scenario(f, h, have, true, true);
                if (h - f <= 2 || h == TIP_H + 288 || h == TIP_H + 289) { g.Scenario(f, h, false, /*header_known=*/false, true); g.Scenario(f, h, false, false, /*min_pow_checked=*/false); g.Scenario(f, h, false, true, false); }
            }
            g.Orphan(f);
        }
    }
    E.evaluations = S.scenarios;
    E.distinct_nontrivial = S.distinct.size();
    E.set("scenarios", S.scenarios);
    E.set("ref_stored", S.stored);
    E.set("ref_dropped", S.dropped);
    E.set("tip_switches_by_requested_delivery", S.tip_switches);
    std::string cls;
    for (auto& [k, pr] : S.why) cls += k + ":" + std::to_string(pr.first) + " stored/" + std::to_string(pr.second) + " dropped ";
    E.set_str("classes", cls);
    if (E.exhaustive) {
        for (const char* c : {"less-work", "too-far-ahead", "below-min-chain-work"}) if (!S.why[c].second) { printf("HARNESS-ERROR C58 class %s never dropped\n", c); bad = true; }
        if (!S.why["eligible"].first || !S.tip_switches) { printf("HARNESS-ERROR C58 no eligible block stored / no tip switch\n"); bad = true; }
    }
    E.rule = "grid: minimum-chain-work settings x fork points x heights around {tip work, tip+288, min work} x {not stored, already stored} (+ unknown header, unchecked header work, unknown parent); "
             "per scenario: headers announced, unrequested ProcessNewBlock twice, requested ProcessNewBlock, short branches completed to a tip switch and rolled back with InvalidateBlock; "
             "stored/dropped compared with the reference predicate via BLOCK_HAVE_DATA, *new_block, block-file counters, ReadBlock, FAILED flags; distinct = distinct scenarios";
    E.assume("regtest: every block has proof 2, so chain work is a function of height; pruning (the nTx != 0 'previously processed, pruned' clause) is not exercised");
    int rc = vx::finish();
    if (bad && rc == 0) return 2;
    return rc;
}
