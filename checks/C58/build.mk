LINK := full
KITS := chainkit
