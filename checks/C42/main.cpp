// C42 — Wallet encryption protects keys.
//
// A descriptor CWallet on a real SQLite file. Wallets: the 8 default descriptors; + an imported single key (WIF);
// + an imported ranged xprv descriptor. Passphrases: "", "a", 1 KiB, UTF-8, embedded NUL.
// For every (wallet, passphrase): all 32-byte private-key secrets the wallet holds are recorded, then EncryptWallet runs:
//   * the bytes of wallet.dat (free pages included) contain none of the secrets once EncryptWallet has returned, nor do the
//     files left in the wallet directory after a clean close (sanity: the same search finds every secret before encryption);
//   * signing fails while locked and after an Unlock with a wrong passphrase; the correct passphrase unlocks and yields
//     byte-identical keys, and signing works; likewise after ChangeWalletPassphrase (old passphrase refused) and after a
//     reload in a fresh process.
// VX-CRASH: every crash state of the op log of the EncryptWallet call (kill at every prefix, torn last writes, power-loss
// cuts) is reloaded in a fresh process: the wallet must load and be either fully unencrypted (no master key, no encrypted
// key record, exactly the original keys, signs) or fully encrypted (a master key, no plaintext key record, locked, does not
// sign locked, the passphrase unlocks it to the original keys) — never a mix.
#include <kits/forkpool.h>
#include <kits/walletcrash.h>
#include <kits/walletkit.h>

#include <coins.h>
#include <key_io.h>
#include <script/descriptor.h>
#include <util/strencodings.h>
#include <wallet/scriptpubkeyman.h>
#include <wallet/walletdb.h>

namespace sfs = std::filesystem;
using namespace wallet;

static std::string g_scratch;
static wk::Env* g_env;

// ------------------------------------------------------------------------------------------------ inputs
static const int N_PASS = 5, N_KIND = 3;
static SecureString Pass(int i)
{
    switch (i) {
    case 0: return SecureString("");
    case 1: return SecureString("a");
    case 2: { SecureString s; for (int k = 0; k < 1024; k++) s.push_back((char)('!' + k % 90)); return s; }
    case 3: return SecureString("p\xc3\xa4ss \xe2\x82\xac \xf0\x9f\x94\x91 w\xc3\xb6rd");
    default: { SecureString s("ab"); s.push_back('\0'); s += "cd"; return s; }
    }
}
static const char* PASSN[] = {"empty", "a", "1KiB", "utf8", "embedded-NUL"};
static const char* KINDN[] = {"default", "default+WIF", "default+WIF+xprv"};
static CKey ImportKey()
{
    std::vector<std::byte> b(32);
    for (size_t i = 0; i < 32; i++) b[i] = std::byte((unsigned char)(0x31 + 5 * i));
    CKey k;
    k.Set(b.begin(), b.end(), true);
    return k;
}
static std::string Import(CWallet& w, const std::string& desc, int range_end)
{
    FlatSigningProvider keys;
    std::string error;
    auto descs = Parse(desc, keys, error, false);
    if (descs.size() != 1) return "parse: " + error;
    WalletDescriptor wd(std::move(descs[0]), 1600000000, 0, range_end, 0);
    LOCK(w.cs_wallet);
    if (!w.AddWalletDescriptor(wd, keys, "imp", false)) return "AddWalletDescriptor failed";
    return "";
}

// ------------------------------------------------------------------------------------------------ observation
static std::string KeysText(CWallet& w)
{
    std::string s;
    for (auto& [id, sec] : wk::PrivateKeys(w)) s += id + " " + vx::hex(sec) + "\n";
    return s;
}
// sign a transaction spending one output to each of the given scripts; true = complete
static bool CanSign(CWallet& w, const std::vector<CScript>& spks)
{
    CMutableTransaction m;
    m.version = 2;
    std::map<COutPoint, Coin> coins;
    for (size_t i = 0; i < spks.size(); i++) {
        COutPoint op(Txid::FromUint256(uint256{(uint8_t)(0x50 + i)}), 0);
        m.vin.emplace_back(op);
        coins[op] = Coin(CTxOut(50000, spks[i]), 1, false);
    }
    m.vout.emplace_back(1000, CScript() << OP_TRUE);
    std::map<int, bilingual_str> errs;
    return w.SignTransaction(m, coins, SIGHASH_ALL, errs);
}
static size_t CountHits(const std::string& bytes, const std::vector<std::string>& secrets)
{
    size_t n = 0;
    for (auto& s : secrets) if (bytes.find(s) != std::string::npos) n++;
    return n;
}
static std::map<std::string, std::string> Sections(const std::string& text)
{
    std::map<std::string, std::string> m;
    std::istringstream is(text);
    std::string l, cur;
    while (std::getline(is, l)) {
        if (l.rfind("##", 0) == 0) { cur = l.substr(2); m[cur]; continue; }
        m[cur] += l + "\n";
    }
    return m;
}
static std::vector<std::string> Lines(const std::string& t)
{
    std::vector<std::string> v;
    std::istringstream is(t);
    std::string l;
    while (std::getline(is, l)) if (!l.empty()) v.push_back(l);
    return v;
}

// ------------------------------------------------------------------------------------------------ recorder (own process)
// Writes <d>/init.dat (wallet file before the recorded run), <d>/oplog.bin, returns the info text:
//   first line "OK" | "ENCRYPT-REFUSED" | "ERR ...", sections KEYS (id secret), SPKS (hex scripts to sign for), NDESC, then lines "V\tkey\twhat"
static std::string RunScenario(int kind, int pi, const std::string& d)
{
    const std::string dir = d + "/w";
    std::string err;
    std::vector<CScript> spks;
    {
        CExtKey mk = wk::FixedMasterKey(2);
        std::shared_ptr<CWallet> w = wk::Create(*g_env, dir, &mk, 0, err);
        if (!w) return "ERR create: " + err;
        if (kind >= 1) { std::string e = Import(*w, "wpkh(" + EncodeSecret(ImportKey()) + ")", 0); if (!e.empty()) return "ERR import WIF: " + e; }
        if (kind >= 2) {
            CExtKey x = wk::FixedMasterKey(3);
            std::string e = Import(*w, "wpkh(" + EncodeExtKey(x) + "/0/*)", 2);
            if (!e.empty()) return "ERR import xprv: " + e;
        }
        for (OutputType t : {OutputType::BECH32, OutputType::LEGACY, OutputType::BECH32M}) {
            auto a = w->GetNewDestination(t, "");
            if (!a) return "ERR address";
            spks.push_back(GetScriptForDestination(*a));
        }
        if (kind >= 1) spks.push_back(GetScriptForDestination(WitnessV0KeyHash(ImportKey().GetPubKey())));
        wk::Close(w);
    }
    sfs::copy_file(wk::DbFile(dir), d + "/init.dat");
    vxc_start(dir.c_str());
    std::shared_ptr<CWallet> w = wk::Load(*g_env, dir, err);
    if (!w) return "ERR load: " + err;
    const std::string keys0 = KeysText(*w);
    std::vector<std::string> secrets;
    {
        std::set<std::string> u;
        for (auto& [id, sec] : wk::PrivateKeys(*w)) u.insert(sec);
        secrets.assign(u.begin(), u.end());
    }
    std::string out, viol;
    auto V = [&](const std::string& key, const std::string& what) { viol += "V\t" + key + "\t" + what + "\n"; };
    size_t ndesc0 = wk::Descriptors(*w).size();
    size_t pre_hits = CountHits(wc::ReadFile(wk::DbFile(dir)), secrets);
    if (!CanSign(*w, spks)) return "ERR the unencrypted wallet cannot sign";
    const SecureString pass = Pass(pi);
    SecureString pass2 = pass;
    pass2 += "+new";
    vxc_mark("BEGIN");
    bool enc = w->EncryptWallet(pass);
    vxc_mark(enc ? "ENCRYPTED" : "ENCRYPT-REFUSED");
    std::string head = enc ? "OK" : "ENCRYPT-REFUSED";
    size_t journal_hits = 0;
    if (enc) {
        size_t hits = CountHits(wc::ReadFile(wk::DbFile(dir)), secrets);
        if (hits) V("C42-plaintext-secret-in-file", std::to_string(hits) + " of " + std::to_string(secrets.size()) + " private-key secrets are still present in the bytes of wallet.dat after EncryptWallet returned");
        journal_hits = CountHits(wc::ReadFile(wk::DbFile(dir) + "-journal"), secrets);
        if (!w->IsLocked()) V("C42-not-locked-after-encryption", "the wallet is not locked after EncryptWallet");
        if (CanSign(*w, spks)) V("C42-signs-while-locked", "SignTransaction completes while the wallet is locked");
        SecureString wrong = pass;
        wrong += "x";
        if (w->Unlock(wrong)) V("C42-wrong-passphrase-unlocks", "Unlock accepts a wrong passphrase");
        if (CanSign(*w, spks)) V("C42-signs-after-wrong-unlock", "SignTransaction completes after an Unlock with a wrong passphrase");
        if (!w->Unlock(pass)) V("C42-correct-passphrase-refused", "Unlock refuses the passphrase the wallet was encrypted with");
        else {
            std::string now = KeysText(*w);
            for (auto& l : Lines(keys0)) if (now.find(l + "\n") == std::string::npos) V("C42-key-changed-by-encryption", "a private key differs after encryption + unlock: " + l.substr(0, 40));
            if (!CanSign(*w, spks)) V("C42-cannot-sign-unlocked", "SignTransaction fails although the wallet is unlocked");
        }
        w->Lock();
        if (!w->ChangeWalletPassphrase(pass, pass2)) V("C42-passphrase-change-failed", "ChangeWalletPassphrase with the correct old passphrase fails");
        w->Lock();
        if (w->Unlock(pass)) V("C42-old-passphrase-still-unlocks", "the old passphrase still unlocks after ChangeWalletPassphrase");
        if (CanSign(*w, spks)) V("C42-signs-while-locked", "SignTransaction completes while the wallet is locked (after passphrase change)");
        if (!w->Unlock(pass2)) V("C42-new-passphrase-refused", "the new passphrase does not unlock after ChangeWalletPassphrase");
        else {
            std::string now = KeysText(*w);
            for (auto& l : Lines(keys0)) if (now.find(l + "\n") == std::string::npos) V("C42-key-changed-by-passphrase-change", "a private key differs after the passphrase change: " + l.substr(0, 40));
        }
        w->Lock();
    }
    vxc_mark("END-OPS");
    wk::Close(w);
    vxc_mark("CLOSED");
    vxc_stop();
    if (vxc_dump((d + "/oplog.bin").c_str()) != 0) return "ERR dump";
    if (enc) {
        for (auto& e : sfs::recursive_directory_iterator(dir)) {
            if (!e.is_regular_file()) continue;
            size_t hits = CountHits(wc::ReadFile(e.path().string()), secrets);
            if (hits) V("C42-plaintext-secret-in-file-after-close", std::to_string(hits) + " private-key secrets are present in " + e.path().filename().string() + " after encryption and a clean close");
        }
    }
    out = head + "\n##KEYS\n" + keys0 + "##SPKS\n";
    for (auto& s : spks) out += HexStr(s) + "\n";
    out += "##STAT\nndesc " + std::to_string(ndesc0) + "\nsecrets " + std::to_string(secrets.size()) + "\npre_hits " + std::to_string(pre_hits) + "\njournal_hits " + std::to_string(journal_hits) + "\n##VIOL\n" + viol;
    return out;
}

// ------------------------------------------------------------------------------------------------ reload (own process)
static std::string RunReload(const std::string& dir, const std::vector<CScript>& spks, const SecureString& pass)
{
    std::string err;
    std::shared_ptr<CWallet> w = wk::Load(*g_env, dir, err);
    if (!w) return "ERR\n" + err;
    std::string r = "OK\n##STAT\n";
    size_t rk = 0, rck = 0, rmk = 0;
    for (auto& [k, v] : wk::DbRecords(*w)) { std::string t = wk::RecordType(k); rk += t == "walletdescriptorkey"; rck += t == "walletdescriptorckey"; rmk += t == "mkey"; }
    size_t plain = 0, crypted = 0, nd = 0, mixed = 0;
    for (auto& d : wk::Descriptors(*w)) { nd++; plain += d.plain_keys; crypted += d.crypted_keys; mixed += d.plain_keys && d.crypted_keys; }
    bool has_mkey = w->HasEncryptionKeys();
    r += "rec_key " + std::to_string(rk) + "\nrec_ckey " + std::to_string(rck) + "\nrec_mkey " + std::to_string(rmk) + "\nndesc " + std::to_string(nd) + "\nplain " + std::to_string(plain) + "\ncrypted " + std::to_string(crypted) +
         "\nmkeys " + std::to_string(w->mapMasterKeys.size()) + "\nhas_mkey " + std::to_string(has_mkey) + "\nlocked " + std::to_string(w->IsLocked()) + "\nsign_initial " + std::to_string(CanSign(*w, spks)) + "\n";
    if (has_mkey) {
        bool u = false;
        try { u = w->Unlock(pass); } catch (const std::exception& e) { r += "unlock_threw " + std::string(e.what()) + "\n"; }
        r += "unlock " + std::to_string(u) + "\nsign_unlocked " + std::to_string(u && CanSign(*w, spks)) + "\n";
    }
    r += "##KEYS\n" + KeysText(*w);
    wk::Close(w);
    return r;
}
static long Stat(const std::map<std::string, std::string>& sec, const std::string& name)
{
    auto it = sec.find("STAT");
    if (it == sec.end()) return -1;
    for (auto& l : Lines(it->second)) if (l.rfind(name + " ", 0) == 0) return atol(l.c_str() + name.size() + 1);
    return -1;
}

struct Scenario {
    int kind, pi;
    std::string d, info;
    vxc::Log log;
    vxc::Tree initial;
    std::map<std::string, std::string> sec;
    std::vector<CScript> spks;
    bool encrypted{false}, crash{false}, torn{false};
};
struct Job { size_t sc; vxc::State st; uint64_t content; bool clean; };

int main(int argc, char** argv)
{
    vx::init(argc, argv, "C42", "fault_enumeration", 150, 1500);
    auto& E = vx::ev();
    const bool big = vx::thorough();
    {
        char b[64];
        snprintf(b, sizeof b, "/C42_%07d", (int)getpid());
        g_scratch = vx::scratch_dir() + b;
    }
    sfs::remove_all(g_scratch);
    sfs::create_directories(g_scratch);
    struct Cleanup { ~Cleanup() { std::error_code ec; sfs::remove_all(g_scratch, ec); } } cleanup;
    wk::Env env_root;
    g_env = &env_root;

    // scenarios: all 15 (wallet, passphrase) pairs; the encryption run is crash-enumerated for a subset
    std::vector<Scenario> scs;
    for (int kind = 0; kind < N_KIND; kind++) for (int pi = 0; pi < N_PASS; pi++) {
        Scenario s;
        s.kind = kind; s.pi = pi;
        s.crash = big ? (pi == 1 || pi == 3 || (kind == 2 && pi == 4)) : (kind == 2 && pi == 3);
        s.torn = big && kind == 2 && pi == 3;
        char nm[64];
        snprintf(nm, sizeof nm, "/s%d_%d", kind, pi);
        s.d = g_scratch + nm;
        scs.push_back(s);
    }
    if (!vx::ctx().replay.empty()) {
        std::ifstream f(vx::ctx().replay);
        std::string line;
        int kind = -1, pi = -1;
        while (std::getline(f, line)) if (sscanf(line.c_str(), "scenario: kind=%d pass=%d", &kind, &pi) == 2) break;
        if (kind < 0) { printf("HARNESS-ERROR property=C42 replay file has no 'scenario:' line\n"); return 2; }
        std::vector<Scenario> one;
        for (auto& s : scs) if (s.kind == kind && s.pi == pi) { s.crash = true; s.torn = true; one.push_back(s); }
        scs = one;
        printf("replaying scenario kind=%d (%s) pass=%d (%s) with all crash states\n", kind, KINDN[kind], pi, PASSN[pi]);
    }
    // crash scenarios first (a deadline then cuts the plain ones)
    std::stable_sort(scs.begin(), scs.end(), [](const Scenario& a, const Scenario& b) { return a.crash > b.crash; });

    fp::Pool pool;
    // phase 1: run every scenario in its own process
    pool.run(scs.size(), [&](uint64_t j, fp::Out& o) {
        sfs::create_directories(scs[j].d);
        bool died = false;
        std::string info = wc::ForkCall([&] { return RunScenario(scs[j].kind, scs[j].pi, scs[j].d); }, &died);
        if (died) { o.violation(std::string("C42-encryption-run-died:") + KINDN[scs[j].kind], std::string("the process encrypting wallet {") + KINDN[scs[j].kind] + "} with passphrase {" + PASSN[scs[j].pi] + "} died (" + info + ")", "scenario: kind=" + std::to_string(scs[j].kind) + " pass=" + std::to_string(scs[j].pi)); info = "ERR died"; }
        wc::WriteFile(scs[j].d + "/info", info);
    }, [&](uint64_t j) { return "scenario: kind=" + std::to_string(scs[j].kind) + " pass=" + std::to_string(scs[j].pi); });
    bool cut_short = !pool.complete;
    uint64_t n_enc = 0, n_refused = 0, journal_hits = 0, states_enum = 0, selfchecked = 0;
    std::vector<Job> jobs;
    std::vector<std::vector<Job>> per_sc(scs.size());
    for (size_t i = 0; i < scs.size(); i++) {
        Scenario& s = scs[i];
        s.info = wc::ReadFile(s.d + "/info");
        if (s.info.empty()) { cut_short = true; continue; }
        std::string head = s.info.substr(0, s.info.find('\n'));
        std::string tag = std::string("{") + KINDN[s.kind] + ", passphrase " + PASSN[s.pi] + "}";
        std::string rp = "scenario: kind=" + std::to_string(s.kind) + " pass=" + std::to_string(s.pi);
        if (head.rfind("ERR", 0) == 0) { if (head != "ERR died") { printf("HARNESS-ERROR property=C42 scenario %s: %s\n", tag.c_str(), head.c_str()); return 2; } continue; }
        s.sec = Sections(s.info);
        for (auto& l : Lines(s.sec["VIOL"])) {
            size_t a = l.find('\t'), b = l.find('\t', a + 1);
            if (a == std::string::npos || b == std::string::npos) continue;
            vx::violation(l.substr(a + 1, b - a - 1) + ":" + KINDN[s.kind], l.substr(b + 1) + " — wallet " + tag, rp);
        }
        for (auto& l : Lines(s.sec["SPKS"])) { auto v = ParseHex(l); s.spks.emplace_back(v.begin(), v.end()); }
        if (Stat(s.sec, "pre_hits") != Stat(s.sec, "secrets") || Stat(s.sec, "secrets") < 1) { printf("HARNESS-ERROR property=C42 scenario %s: the byte search finds only %ld of %ld secrets in the unencrypted file\n", tag.c_str(), Stat(s.sec, "pre_hits"), Stat(s.sec, "secrets")); return 2; }
        s.encrypted = head == "OK";
        (s.encrypted ? n_enc : n_refused)++;
        journal_hits += Stat(s.sec, "journal_hits") > 0;
        if (!s.log.load(s.d + "/oplog.bin", s.d + "/w")) { printf("HARNESS-ERROR property=C42 cannot load the op log of %s\n", tag.c_str()); return 2; }
        s.initial.files["wallet.dat"] = wc::ReadFile(s.d + "/init.dat");
        std::string scheck = wc::SelfCheck(s.log, s.initial, s.d + "/w");
        if (!scheck.empty()) { printf("HARNESS-ERROR property=C42 recorder incomplete for %s: %s\n", tag.c_str(), scheck.c_str()); return 2; }
        selfchecked++;
        E.sample("wallet " + tag + ": " + (s.encrypted ? "encrypted" : "EncryptWallet refused") + ", " + std::to_string(Stat(s.sec, "secrets")) + " secrets, " + std::to_string(s.log.ops.size()) + " ops logged");
        vxc::State all;
        all.j = s.log.ops.size(); all.k = s.log.ops.size(); all.mode = "clean";
        per_sc[i].push_back({i, all, 0, true});
        if (s.crash && s.encrypted) {
            size_t b = 0, e = s.log.ops.size();
            for (size_t k = 0; k < s.log.ops.size(); k++) if (s.log.ops[k].kind == vxc::MARK) { if (s.log.ops[k].path == "BEGIN") b = k; if (s.log.ops[k].path == "ENCRYPTED") e = k + 1; }
            // crash points inside the EncryptWallet call: the log is cut after the ENCRYPTED mark
            vxc::Log cut = s.log;
            cut.ops.resize(e);
            size_t from = wc::StableFrom(cut, b);
            size_t en = 0;
            std::vector<wc::PickedState> pl, kl;
            for (auto& ps : wc::DistinctStates(cut, from, s.initial, true, true, s.torn, &en)) (ps.st.mode == "kill" ? kl : pl).push_back(ps);
            states_enum += en;
            std::stable_sort(pl.begin(), pl.end(), [](const wc::PickedState& a, const wc::PickedState& b2) { return a.st.k - a.st.j > b2.st.k - b2.st.j; });
            for (size_t x = 0; x < std::max(pl.size(), kl.size()); x++) {
                if (x < pl.size()) per_sc[i].push_back({i, pl[x].st, pl[x].content, false});
                if (x < kl.size()) per_sc[i].push_back({i, kl[x].st, kl[x].content, false});
            }
        }
    }
    for (size_t pos = 0;; pos++) {
        bool any = false;
        for (size_t i = 0; i < scs.size(); i++) if (pos < per_sc[i].size()) { jobs.push_back(per_sc[i][pos]); any = true; }
        if (!any) break;
    }
    // phase 2: reload + judge
    pool.workers = 0;
    pool.run(jobs.size(), [&](uint64_t j, fp::Out& o) {
        const Job& job = jobs[j];
        const Scenario& s = scs[job.sc];
        std::string tag = std::string("{") + KINDN[s.kind] + ", passphrase " + PASSN[s.pi] + "}";
        std::string where = "scenario: kind=" + std::to_string(s.kind) + " pass=" + std::to_string(s.pi) + "\nstate: " + job.st.describe();
        std::string dir = g_scratch + "/rec_" + std::to_string(getpid());
        vxc::Materialise(s.log, job.st, &s.initial).write_to(dir);
        SecureString pass = Pass(s.pi);
        if (job.clean) pass += "+new";
        bool died = false;
        std::string res = wc::ForkCall([&] { return RunReload(dir, s.spks, pass); }, &died);
        std::error_code ec;
        sfs::remove_all(dir, ec);
        o.count("reloads");
        o.count("reloads_" + job.st.mode);
        if (job.st.torn_index >= 0) o.count("reloads_torn");
        std::string kind = job.clean ? "clean-restart" : "crash-" + job.st.mode;
        std::string at = (job.clean ? std::string("a clean close") : "crash state {" + job.st.describe() + "} of the encryption") + " of wallet " + tag;
        if (died) { o.violation("C42-load-died:" + kind, "loading after " + at + " killed the process (" + res + ")", where); return; }
        if (res.rfind("OK\n", 0) != 0) { o.violation("C42-does-not-load:" + kind, "the wallet does not load after " + at + ": " + res.substr(0, 300), where); return; }
        auto got = Sections(res.substr(3));
        long rk = Stat(got, "rec_key"), rck = Stat(got, "rec_ckey"), rmk = Stat(got, "rec_mkey"), nd = Stat(got, "ndesc"), plain = Stat(got, "plain"), crypted = Stat(got, "crypted");
        long nd0 = Stat(s.sec, "ndesc");
        std::vector<std::string> orig = Lines(s.sec.at("KEYS")), now = Lines(got["KEYS"]);
        std::set<std::string> nowset(now.begin(), now.end());
        size_t missing = 0;
        for (auto& l : orig) missing += !nowset.count(l);
        if (job.clean && s.encrypted && rmk == 0) o.violation("C42-encryption-lost", "after encryption and " + at + " the wallet has no master key", where);
        if (rmk > 0) {
            o.count("loaded_encrypted");
            if (rk || plain) o.violation("C42-mixed-state:" + kind, "after " + at + " the wallet has a master key but also " + std::to_string(rk) + " plaintext key records (" + std::to_string(plain) + " plaintext keys loaded)", where);
            if (!Stat(got, "locked")) o.violation("C42-encrypted-but-unlocked:" + kind, "after " + at + " the encrypted wallet loads unlocked", where);
            if (Stat(got, "sign_initial")) o.violation("C42-signs-while-locked:" + kind, "after " + at + " the locked wallet signs", where);
            if (!Stat(got, "unlock")) o.violation("C42-passphrase-refused:" + kind, "after " + at + " the passphrase does not unlock the wallet", where);
            else {
                if (missing) o.violation("C42-keys-differ:" + kind, "after " + at + " " + std::to_string(missing) + " of the original private keys are not restored by unlocking", where);
                if (!Stat(got, "sign_unlocked")) o.violation("C42-cannot-sign-unlocked:" + kind, "after " + at + " the unlocked wallet cannot sign", where);
            }
            if (nd != nd0 && nd != nd0 + 8) o.violation("C42-descriptor-count:" + kind, "after " + at + " the wallet has " + std::to_string(nd) + " descriptors (expected " + std::to_string(nd0) + " or " + std::to_string(nd0 + 8) + ")", where);
        } else {
            o.count("loaded_unencrypted");
            if (rck || crypted) o.violation("C42-mixed-state:" + kind, "after " + at + " the wallet has no master key but " + std::to_string(rck) + " encrypted key records", where);
            if (missing || now.size() != orig.size()) o.violation("C42-keys-differ:" + kind, "after " + at + " the unencrypted wallet does not hold exactly its original keys (" + std::to_string(missing) + " missing, " + std::to_string(now.size()) + " held)", where);
            if (!Stat(got, "sign_initial")) o.violation("C42-cannot-sign-unencrypted:" + kind, "after " + at + " the unencrypted wallet cannot sign", where);
            if (nd != nd0) o.violation("C42-descriptor-count:" + kind, "after " + at + " the unencrypted wallet has " + std::to_string(nd) + " descriptors (expected " + std::to_string(nd0) + ")", where);
        }
        o.distinct("outcome", std::to_string(s.kind) + "/" + std::to_string(s.pi) + "/" + got["STAT"]);
        if (j % 61 == 0) o.sample("wallet " + tag + " " + kind + " {" + job.st.describe() + "}: loads " + (rmk > 0 ? "encrypted" : "unencrypted") + ", " + std::to_string(nd) + " descriptors");
    }, [&](uint64_t j) { return "scenario: kind=" + std::to_string(scs[jobs[j].sc].kind) + " pass=" + std::to_string(scs[jobs[j].sc].pi) + "\nstate: " + jobs[j].st.describe(); });
    if (!pool.complete) cut_short = true;

    E.evaluations += pool.counts["reloads"] + n_enc + n_refused;
    E.distinct_nontrivial += pool.distinct_size("outcome");
    for (auto& s : pool.samples) E.sample(s);
    E.set("scenarios", (uint64_t)scs.size());
    E.set("scenarios_encrypted", n_enc);
    E.set("scenarios_encryption_refused", n_refused);
    E.set("recorder_runs_verified", selfchecked);
    E.set("crash_states_enumerated", states_enum);
    E.set("reloads_clean", pool.counts["reloads_clean"]);
    E.set("reloads_kill", pool.counts["reloads_kill"]);
    E.set("reloads_powerloss", pool.counts["reloads_powerloss"]);
    E.set("reloads_torn_write", pool.counts["reloads_torn"]);
    E.set("crash_states_loaded_unencrypted", pool.counts["loaded_unencrypted"]);
    E.set("crash_states_loaded_encrypted", pool.counts["loaded_encrypted"]);
    E.set("scenarios_with_secret_in_open_journal", journal_hits);
    E.exhaustive = !cut_short;
    E.rule = "wallets {default 8 descriptors; + imported WIF key; + imported ranged xprv} x passphrases {empty, 'a', 1 KiB, UTF-8, embedded NUL}: byte search of every recorded 32-byte secret in wallet.dat after EncryptWallet and in the directory after close, lock/sign/unlock/passphrase-change checks in the session and after a reload in a fresh process; "
             "for " + std::string(big ? "the scenarios with passphrase 'a' and UTF-8 (all wallets) and embedded NUL (largest wallet)" : "the largest wallet with the UTF-8 passphrase") +
             " every crash state of the op log of the EncryptWallet call (kill prefixes" + (big ? ", torn last writes for one scenario" : "") + ", power-loss cuts; deduplicated by bytes) reloaded and classified. evaluations = scenarios + reloads judged; distinct_nontrivial = distinct (scenario, reload observation) outcomes";
    E.assume("the journal file that SQLite keeps beside wallet.dat while the wallet is open is not 'the database file': secrets found there after EncryptWallet are counted (scenarios_with_secret_in_open_journal) but not reported; after a clean close every file left in the directory is searched");
    E.assume("secrets searched: the raw 32-byte private keys of every descriptor manager (BIP32 master key, imported key, imported xprv key), exact byte match");
    E.assume("durability model of vx/crash.h; key-derivation iteration count is the default (mock time)");
    if (vx::ctx().replay.empty() && !cut_short && vx::rep().violations == 0) {
        if (!pool.counts["loaded_unencrypted"] || !pool.counts["loaded_encrypted"]) { printf("HARNESS-ERROR property=C42 vacuous: the crash states did not load both unencrypted and encrypted\n"); vx::finish(); return 2; }
        if (n_enc == 0) { printf("HARNESS-ERROR property=C42 vacuous: no scenario was encrypted\n"); vx::finish(); return 2; }
    }
    return vx::finish();
}
