LINK := full
KITS := chainkit
