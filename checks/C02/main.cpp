// C02 — An output can be spent at most once and only if it exists.
// chainsim over the spend menu: duplicate inputs, two spenders in one block, re-spend of outputs spent 1 / 2
// blocks earlier, never-created outpoints, out-of-range output index, OP_RETURN outputs, child-before-parent
// order, immature coinbase; the same coin spent on competing branches (valid there) arises from building the
// same kinds on t0 / t1. Flushes and invalidate/reconsider interleave.
#include <kits/chainsim_main.h>
int main(int argc, char** argv)
{
    return cs::Main(argc, argv, "C02", {}, [](cs::Sim& s) {
        cs::Plan p;
        s.kinds = {"spend1", "opret", "chain2", "chain2rev", "dup_input", "dup_input3", "two_spenders", "respend_parent", "respend_grandparent",
                   "spend_missing", "spend_bad_index", "spend_opret", "spend_immature", "spend2"};
        s.parents = {"t0", "t1"};
        s.ev_flush = true; s.ev_invalidate = true; s.ev_reconsider = true;
        p.depth = vx::thorough() ? 4 : 2;
        s.max_new_blocks = p.depth;
        p.split = 1;
        p.what = "oracle: a block spending a missing / spent / unspendable / immature output is never in the active chain; UTXO == reference after every step";
        return p;
    });
}
