// C02 — An output can be spent at most once and only if it exists.
// (1) chainsim over the spend menu: duplicate inputs, two spenders in one block, re-spend of outputs spent 1 / 2
//     blocks earlier, never-created outpoints, out-of-range output index, OP_RETURN outputs, child-before-parent
//     order, immature coinbase; the same coin spent on competing branches (valid there) arises from building the
//     same kinds on t0 / t1. Flushes and invalidate/reconsider interleave.
// (2) BIP30 (no overwriting of unspent outputs by a transaction with the same txid): directed histories on a node
//     whose height-in-coinbase rule activates late (-testactivationheight=bip34@H), so that an early coinbase can
//     already carry the encoding of a later height and be duplicated byte for byte at that height: while the early
//     coinbase is unspent the duplicate must be rejected and the old coin must survive; once it is spent the
//     duplicate is allowed.
#include <kits/chainsim_main.h>
#include <sys/wait.h>

using namespace ck;

// runs in a forked child (own Node with different args); reports through the exit code + a line on the pipe
static void Bip30Child(int fd, int dup_height, bool spend_first, bool flush_between)
{
    std::string out;
    try {
        NodeOpts o;
        std::string arg = "-testactivationheight=bip34@" + std::to_string(dup_height - 3);
        o.extra_args = {arg.c_str()};
        Node n(o);
        RefLedger L;
        L.AddGenesis(Params().GenesisBlock());
        SetMockTime(Params().GenesisBlock().nTime + 600 * 100000);
        MineEmpty(n, L, 3);
        // block E at height 4 (before BIP34): its coinbase encodes height `dup_height`
        BlockOpts eo;
        eo.bip34_height_override = dup_height;
        eo.extra_nonce = 77;
        CBlock E = MakeBlock(n, n.tip(), {}, eo);
        L.Add(E);
        BlockResult r = n.ProcessBlock(E);
        if (n.tip()->GetBlockHash() != E.GetHash()) { out = "HARNESS early block with a future height encoding was not accepted: " + r.reason; goto done; }
        {
            COutPoint early(E.vtx[0]->GetHash(), 0);
            CAmount early_value = E.vtx[0]->vout[0].nValue;
            MineEmpty(n, L, dup_height - 1 - 4 - (spend_first ? 1 : 0));
            if (spend_first) {
                // spend the early coinbase completely (it is mature: dup_height - 5 >= 100)
                auto tx = SpendTx({early}, {early_value - 1000});
                BlockOpts so; so.fees = 1000;
                CBlock S = MakeBlock(n, n.tip(), {tx}, so);
                L.Add(S);
                n.ProcessBlock(S);
                if (n.tip()->GetBlockHash() != S.GetHash()) { out = "HARNESS spend of the early coinbase not accepted"; goto done; }
            }
            if (flush_between) n.Flush();
            if (n.height() != dup_height - 1) { out = "HARNESS wrong height " + std::to_string(n.height()); goto done; }
            // the duplicate: identical coinbase (same scriptSig, same outputs) at height dup_height
            BlockOpts dopt;
            dopt.bip34_height_override = dup_height;
            dopt.extra_nonce = 77;
            CBlock D = MakeBlock(n, n.tip(), {}, dopt);
            if (D.vtx[0]->GetHash() != E.vtx[0]->GetHash()) { out = "HARNESS duplicate coinbase has a different txid"; goto done; }
            uint256 tip_before = n.tip()->GetBlockHash();
            BlockResult rd = n.ProcessBlock(D);
            bool active = n.tip()->GetBlockHash() == D.GetHash();
            auto coin = n.GetCoin(early);
            if (!spend_first) {
                if (active) out = "VIOLATION a block whose coinbase has the txid of a still unspent earlier coinbase was connected (BIP30): the unspent output was overwritten";
                else if (!coin || coin->nHeight != 4) out = "VIOLATION the earlier unspent coinbase output is gone or changed after the duplicate was rejected";
                else if (n.tip()->GetBlockHash() != tip_before) out = "VIOLATION tip moved although the duplicate-coinbase block is invalid";
                else out = "OK rejected (" + rd.reason + ")";
            } else {
                if (!active) out = "VIOLATION a duplicate of a fully spent coinbase was rejected (" + rd.reason + ") although BIP30 allows it";
                else if (!coin || (int)coin->nHeight != dup_height) out = "VIOLATION the re-created coinbase output is missing or has the wrong height";
                else out = "OK accepted";
            }
        }
    } catch (const std::exception& e) {
        out = std::string("HARNESS exception ") + e.what();
    }
done:
    out += "\n";
    (void)!write(fd, out.data(), out.size());
}

int main(int argc, char** argv)
{
    vx::init(argc, argv, "C02", "model_checking", 170, 1500);
    vx::scratch_dir();
    auto& E = vx::ev();
    // ---- (2) BIP30 directed histories first (each in a fresh process: different chain parameters)
    if (vx::ctx().replay.empty()) {
        int n_ok = 0, n_cases = 0;
        for (int dup_height : vx::thorough() ? std::vector<int>{110, 111, 140} : std::vector<int>{110})
            for (bool spend_first : {false, true})
                for (bool flush_between : {false, true}) {
                    if (!vx::thorough() && flush_between && spend_first) continue;
                    int fds[2];
                    if (pipe(fds)) return 2;
                    fflush(stdout);
                    pid_t p = fork();
                    if (p == 0) { close(fds[0]); Bip30Child(fds[1], dup_height, spend_first, flush_between); _exit(0); }
                    close(fds[1]);
                    std::string line;
                    char buf[1024];
                    ssize_t r;
                    while ((r = read(fds[0], buf, sizeof buf)) > 0) line.append(buf, r);
                    close(fds[0]);
                    int st = 0;
                    waitpid(p, &st, 0);
                    while (!line.empty() && line.back() == '\n') line.pop_back();
                    std::string cs = "dup_height=" + std::to_string(dup_height) + " original_spent_first=" + std::to_string(spend_first) + " flush_between=" + std::to_string(flush_between);
                    n_cases++;
                    E.transitions += dup_height; // blocks delivered through ProcessNewBlock in this history
                    if (!WIFEXITED(st) || WEXITSTATUS(st) != 0 || line.empty()) vx::violation("C02-bip30-process-died:" + cs, "node died while processing the BIP30 history {" + cs + "}", cs);
                    else if (line.rfind("VIOLATION", 0) == 0) vx::violation("C02-bip30:" + std::string(spend_first ? "spent-duplicate-rejected" : "unspent-overwritten"), line.substr(10) + " {" + cs + "}", cs);
                    else if (line.rfind("HARNESS", 0) == 0) { printf("HARNESS-ERROR property=C02 %s {%s}\n", line.c_str(), cs.c_str()); return 2; }
                    else { n_ok++; if (n_ok <= 2) E.sample("BIP30 history {" + cs + "}: " + line); }
                }
        E.set("bip30_histories", (uint64_t)n_cases);
    }
    // ---- (1) spend menu exploration
    int rc = cs::Explore("C02", {}, [](cs::Sim& s) {
        cs::Plan p;
        s.kinds = {"spend1", "opret", "chain2", "chain2rev", "dup_input", "dup_input3", "dup_same_tx3", "two_spenders", "respend_parent", "respend_grandparent",
                   "spend_missing", "spend_bad_index", "spend_opret", "spend_immature", "spend2"};
        s.parents = {"t0", "t1"};
        s.ev_flush = true; s.ev_invalidate = true; s.ev_reconsider = true;
        p.depth = vx::thorough() ? 4 : 2;
        s.max_new_blocks = p.depth;
        p.split = 1;
        p.what = "oracle: a block spending a missing / spent / unspendable / immature output is never in the active chain; UTXO == reference after every step; plus directed BIP30 histories (duplicate of an unspent / of a fully spent coinbase on a late-BIP34 regtest)";
        return p;
    });
    if (rc >= 0) return rc;
    return vx::finish();
}
