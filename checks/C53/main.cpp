// C53 — Soft-fork deployment states follow BIP9.
//
// Real code: VersionBitsConditionChecker (AbstractThresholdConditionChecker::GetStateFor /
// GetStateSinceHeightFor / GetStateStatisticsFor) and VersionBitsCache, driven over synthetic CBlockIndex chains.
// Reference: checks/C53/refmodel_bip9.h — the BIP9 recursion written from the BIP text, no cache, no shortcuts.
//
// Bounded-exhaustive space, per configuration (period, threshold, number of periods, start, timeout,
// min_activation_height):
//   * signalling: EVERY combination of the listed per-period bit patterns (for period 3: all 2^(3*periods)
//     patterns); non-signalling blocks rotate through "top bits only", "bit set under top bits 010 / 011 / 101 / 111", "version 4";
//   * timestamps: four levels {start-1, start, timeout-1, timeout}; either EVERY non-decreasing 3-jump step
//     function over the block heights, or one sequence per non-decreasing assignment of a level to the median
//     time past of every period boundary (so "exactly reached at the boundary block" occurs for every boundary),
//     each also in a variant where odd blocks carry the smallest legal timestamp (non-monotone timestamps);
//     median-time-past stays non-decreasing, as consensus guarantees (GetStateFor relies on it);
//   * query plans: every block of the chain (and the null parent) is queried; one warm cache in forward, backward
//     and four scrambled orders, a fresh cache per query, forks sharing a prefix AND a cache, and the
//     VersionBitsCache front end. All plans must give the reference's answer.
#include <vx/vx.h>
#include <kits/histbfs.h> // hb::guarded only: an assert() inside versionbits.cpp becomes a VIOLATION, not a dead harness

#include <chain.h>
#include <consensus/params.h>
#include <versionbits.h>
#include <versionbits_impl.h>

#include "refmodel_bip9.h"

#include <array>

namespace {

using bip9ref::State;
constexpr int BIT = 3;
constexpr int64_t NO_TIMEOUT = Consensus::BIP9Deployment::NO_TIMEOUT;
constexpr int64_t ALWAYS = Consensus::BIP9Deployment::ALWAYS_ACTIVE;
constexpr int64_t NEVER = Consensus::BIP9Deployment::NEVER_ACTIVE;

struct Config {
    std::string name;
    int period, threshold, nperiods;
    int64_t start, timeout;
    int min_act;
    std::vector<uint32_t> pats; // per-period signalling patterns (bit i = i-th block of the period)
    bool all_steps;             // timestamp family (see header)
    bool deep;                  // all query plans + forks + VersionBitsCache (else: one rotating warm plan + cold tip query)
    int blocks() const { return period * nperiods; }
};

State FromImpl(ThresholdState s)
{
    switch (s) {
    case ThresholdState::DEFINED: return bip9ref::DEFINED;
    case ThresholdState::STARTED: return bip9ref::STARTED;
    case ThresholdState::LOCKED_IN: return bip9ref::LOCKED_IN;
    case ThresholdState::ACTIVE: return bip9ref::ACTIVE;
    case ThresholdState::FAILED: return bip9ref::FAILED;
    }
    return bip9ref::DEFINED;
}

// ------------------------------------------------------------------------------------------------ timestamps
std::array<int64_t, 4> Levels(const Config& c)
{
    const int64_t S = (c.start == ALWAYS || c.start == NEVER) ? 1000 : c.start;
    const int64_t below = std::max<int64_t>(S - 1, 0), below2 = std::max<int64_t>(S - 2, 0); // block times are unsigned
    if (c.timeout == NO_TIMEOUT) return {below, S, S + 50, S + 100};
    if (c.timeout <= S + 1) return {below2, below, S, S + 1};
    return {below, S, c.timeout - 1, c.timeout};
}
// Height whose timestamp is the median time past of block h when timestamps are non-decreasing.
int MedianHeight(int h) { const int w = std::min(h + 1, 11); return h - w + 1 + w / 2; }

// All non-decreasing sequences of `len` values in [0,4) (targeted family) / all 3 jump heights in [0,n] (step family).
std::vector<std::vector<int>> NonDecreasing(int len, int nvalues)
{
    std::vector<std::vector<int>> out;
    std::vector<int> cur(len, 0);
    std::function<void(int, int)> rec = [&](int i, int lo) {
        if (i == len) { out.push_back(cur); return; }
        for (int v = lo; v < nvalues; v++) { cur[i] = v; rec(i + 1, v); }
    };
    rec(0, 0);
    return out;
}

std::vector<int64_t> MakeTimes(const Config& c, const std::vector<int>& sel, bool dips)
{
    const int n = c.blocks();
    const auto L = Levels(c);
    std::vector<int64_t> t(n);
    if (c.all_steps) { // sel = three jump heights
        for (int h = 0; h < n; h++) t[h] = L[(h >= sel[0]) + (h >= sel[1]) + (h >= sel[2])];
    } else { // sel = level index wanted for the median time past of every period's last block
        int k = 0;
        for (int h = 0; h < n; h++) {
            while (k + 1 < c.nperiods && MedianHeight((k + 2) * c.period - 1) <= h) k++;
            t[h] = L[sel[k]];
        }
    }
    if (dips) {
        std::vector<bip9ref::Block> path;
        for (int h = 0; h < n; h++) {
            if (h % 2 == 1) t[h] = std::min(t[h], bip9ref::MedianTimePast(path, h - 1) + 1);
            path.push_back({false, t[h]});
        }
    }
    return t;
}

// ------------------------------------------------------------------------------------------------ one chain
struct Chain {
    std::vector<CBlockIndex> blocks;
    void Build(const std::vector<int64_t>& times, const CBlockIndex* fork_parent = nullptr, int first_height = 0)
    {
        const int n = (int)times.size();
        if ((int)blocks.size() != n) { std::vector<CBlockIndex> fresh(n); blocks.swap(fresh); } // CBlockIndex is neither copyable nor movable
        for (int h = first_height; h < n; h++) {
            blocks[h].nHeight = h;
            blocks[h].pskip = nullptr;
            blocks[h].pprev = h == first_height ? const_cast<CBlockIndex*>(fork_parent) : &blocks[h - 1];
            blocks[h].nTime = (uint32_t)times[h];
            blocks[h].BuildSkip();
        }
    }
};
int32_t VersionFor(int h, bool signals)
{
    if (signals) return VERSIONBITS_TOP_BITS | (1 << BIT) | (h % 2 ? (1 << 7) : 0);
    switch (h % 6) {
    case 0: return VERSIONBITS_TOP_BITS | (1 << 7);        // versionbits block, other bit
    case 1: return 0x40000000 | (1 << BIT);                // bit set, but not a versionbits version (top bits 010)
    case 2: return VERSIONBITS_LAST_OLD_BLOCK_VERSION;    // pre-versionbits
    case 3: return 0x60000000 | (1 << BIT);                // bit set, top bits 011: bit 29 is set but the top-bits pattern is not 001
    case 4: return (int32_t)(0xA0000000u | (1u << BIT));   // bit set, top bits 101 (negative version)
    default: return (int32_t)(0xE0000000u | (1u << BIT));  // bit set, top bits 111
    }
}

struct Gates {
    std::atomic<uint64_t> answer[5]{}, delayed_activation{0}, lockin_beats_timeout{0}, mtp_eq_start{0}, mtp_eq_timeout{0}, count_eq_threshold{0}, count_below_threshold{0};
};
Gates g_gates;
std::atomic<uint64_t> g_calls{0};
vx::Distinct g_trajectories, g_cases;
// per-thread tallies of the hot counters, added to the globals after every work item
struct Tally { uint64_t calls = 0, answer[5] = {}; };
thread_local Tally t_tally;
void FlushTally()
{
    g_calls += t_tally.calls;
    for (int i = 0; i < 5; i++) g_gates.answer[i] += t_tally.answer[i];
    t_tally = Tally{};
}

struct Case { // everything needed to report / replay one chain
    const Config& c;
    const std::vector<int64_t>& times;
    const std::vector<char>& signals;
    std::string Text(const std::string& plan) const
    {
        std::string s = "# plan: " + plan + "\ntimes";
        for (auto t : times) s += " " + std::to_string(t);
        s += "\nsignals ";
        for (char b : signals) s += b ? '1' : '0';
        s += "\nconfig " + c.name + "\n";
        return s;
    }
};
// The chain the current thread is working on, for the crash guard's report.
thread_local const Case* t_case = nullptr;
const std::string DUMMY_HISTORY;

void Mismatch(const Case& cs, const std::string& api, const std::string& plan, int query, const std::string& got, const std::string& want)
{
    vx::violation(api + ":" + cs.c.name + ":" + got + "-instead-of-" + want,
                  api + " for the block at height " + std::to_string(query) + " gave " + got + ", BIP9 reference says " + want + " (plan: " + plan + ")", cs.Text(plan));
}

// Deterministic query orders over 0..n (0 = the null parent, i = parent at height i-1).
std::vector<int> Order(int n, int plan)
{
    std::vector<int> o(n + 1);
    for (int i = 0; i <= n; i++) o[i] = i;
    if (plan == 1) std::reverse(o.begin(), o.end());
    if (plan >= 2) std::sort(o.begin(), o.end(), [&](int a, int b) { return vx::fnv1a(&a, sizeof a, 1000 + plan) < vx::fnv1a(&b, sizeof b, 1000 + plan); });
    return o;
}
const char* PLAN_NAME[] = {"warm cache, forward", "warm cache, backward", "warm cache, scramble A", "warm cache, scramble B", "warm cache, scramble C", "warm cache, scramble D"};

// Compares every answer the checker gives for the path `blocks` (states per period in `ref`) in the given order.
void QueryPlan(const Case& cs, const VersionBitsConditionChecker& checker, const bip9ref::Params& rp, const std::vector<const CBlockIndex*>& path,
               const std::vector<State>& ref, const std::vector<int>& order, ThresholdConditionCache& cache, const std::string& plan, bool since, int first_query = 0)
{
    for (int q : order) {
        if (q < first_query) continue;
        const CBlockIndex* prev = q == 0 ? nullptr : path[q - 1];
        const State want = ref[q / cs.c.period];
        const State got = FromImpl(checker.GetStateFor(prev, cache));
        t_tally.calls++;
        t_tally.answer[got]++;
        if (got != want) Mismatch(cs, "GetStateFor", plan, q, bip9ref::Name(got), bip9ref::Name(want));
        if (since) {
            const int got_h = checker.GetStateSinceHeightFor(prev, cache), want_h = bip9ref::SinceHeight(rp, ref, q / cs.c.period);
            t_tally.calls++;
            if (got_h != want_h) Mismatch(cs, "GetStateSinceHeightFor", plan, q, std::to_string(got_h), std::to_string(want_h));
        }
    }
}

void CheckStatistics(const Case& cs, const VersionBitsConditionChecker& checker, const std::vector<const CBlockIndex*>& path, int h)
{
    std::vector<bool> bits{true, true, true, true, true, true, true}; // must be reset by the call
    const BIP9Stats st = checker.GetStateStatisticsFor(path[h], &bits);
    t_tally.calls++;
    const int elapsed = 1 + h % cs.c.period;
    int count = 0;
    std::string want_bits, got_bits;
    for (int i = h - elapsed + 1; i <= h; i++) { count += cs.signals[i]; want_bits += cs.signals[i] ? '1' : '0'; }
    for (bool b : bits) got_bits += b ? '1' : '0';
    const bool possible = (cs.c.period - cs.c.threshold) >= (elapsed - count);
    const std::string got = std::to_string(st.period) + "/" + std::to_string(st.threshold) + "/" + std::to_string(st.elapsed) + "/" + std::to_string(st.count) + "/" + (st.possible ? "possible" : "impossible") + "/" + got_bits;
    const std::string want = std::to_string(cs.c.period) + "/" + std::to_string(cs.c.threshold) + "/" + std::to_string(elapsed) + "/" + std::to_string(count) + "/" + (possible ? "possible" : "impossible") + "/" + want_bits;
    if (got != want) Mismatch(cs, "GetStateStatisticsFor", "statistics", h, got, want);
}

struct Worker { // per-thread scratch
    Chain main, branch;
    ThresholdConditionCache cache;
    VersionBitsCache vbc;
    uint64_t rotate = 0;
};

void CheckChain(Worker& w, const Config& c, const Consensus::Params& consensus, const std::vector<int64_t>& times, const std::vector<char>& signals)
{
    const int n = c.blocks();
    const Case cs{c, times, signals};
    t_case = &cs;
    hb::t_cur = hb::Cur{&DUMMY_HISTORY, -1};
    struct Done { ~Done() { t_case = nullptr; hb::t_cur = hb::Cur{}; } } done;
    const Consensus::BIP9Deployment& dep = consensus.vDeployments[Consensus::DEPLOYMENT_TESTDUMMY];
    const VersionBitsConditionChecker checker(dep);
    const bip9ref::Params rp{c.period, c.threshold, c.start, c.timeout, c.min_act, c.start == ALWAYS, c.start == NEVER};

    std::vector<bip9ref::Block> ref_path(n);
    std::vector<const CBlockIndex*> path(n);
    for (int h = 0; h < n; h++) {
        w.main.blocks[h].nVersion = VersionFor(h, signals[h]);
        ref_path[h] = {(bool)signals[h], times[h]};
        path[h] = &w.main.blocks[h];
    }
    const std::vector<State> ref = bip9ref::PeriodStates(rp, ref_path);

    // coverage bookkeeping (what the reference went through on this chain)
    std::string traj;
    bool nontrivial = false;
    for (size_t k = 0; k < ref.size(); k++) {
        traj += "DSLAF"[ref[k]];
        nontrivial |= ref[k] != bip9ref::DEFINED;
        if (k + 1 < ref.size() && !rp.always_active && !rp.never_active) {
            const int last = (int)(k + 1) * c.period - 1;
            const int64_t mtp = bip9ref::MedianTimePast(ref_path, last);
            int count = 0;
            for (int h = last; h > last - c.period; h--) count += signals[h];
            if (ref[k] == bip9ref::DEFINED && mtp == c.start) g_gates.mtp_eq_start++;
            if (ref[k] == bip9ref::STARTED) {
                if (count >= c.threshold && mtp >= c.timeout) g_gates.lockin_beats_timeout++;
                if (count < c.threshold && mtp == c.timeout) g_gates.mtp_eq_timeout++;
                if (count == c.threshold) g_gates.count_eq_threshold++;
                if (count == c.threshold - 1) g_gates.count_below_threshold++;
            }
            if (ref[k] == bip9ref::LOCKED_IN && ref[k + 1] == bip9ref::LOCKED_IN) g_gates.delayed_activation++;
        }
    }
    g_trajectories.add(c.name + traj);
    if (nontrivial) {
        std::string k = c.name + traj + "|";
        for (int h = 0; h < n; h++) k += signals[h] ? '1' : '0';
        for (auto t : times) k += std::to_string(t - times[0]) + ",";
        g_cases.add(k);
    }

    w.rotate++;
    if (!c.deep) {
        // light: one warm cache in a rotating order, a cold-cache query of the tip, statistics of one block
        const int plan = (int)(w.rotate % 6);
        w.cache.clear();
        QueryPlan(cs, checker, rp, path, ref, Order(n, plan), w.cache, PLAN_NAME[plan], /*since=*/w.rotate % 2);
        w.cache.clear();
        QueryPlan(cs, checker, rp, path, ref, {n, (int)(w.rotate % (n + 1))}, w.cache, "cold cache", /*since=*/true);
        CheckStatistics(cs, checker, path, (int)(w.rotate % n));
        return;
    }
    // deep: every plan
    for (int plan = 0; plan < 6; plan++) {
        w.cache.clear();
        QueryPlan(cs, checker, rp, path, ref, Order(n, plan), w.cache, PLAN_NAME[plan], /*since=*/true);
    }
    for (int q = 0; q <= n; q++) {
        w.cache.clear();
        QueryPlan(cs, checker, rp, path, ref, {q}, w.cache, "fresh cache per query", /*since=*/true);
    }
    for (int h = 0; h < n; h++) CheckStatistics(cs, checker, path, h);

    // forks: a second branch from every period boundary with inverted signalling, sharing ONE cache with the main branch
    for (int k = 1; k < c.nperiods; k++) {
        const int fh = k * c.period;
        std::vector<char> bsignals = signals;
        std::vector<bip9ref::Block> bref_path = ref_path;
        std::vector<const CBlockIndex*> bpath = path;
        w.branch.Build(times, &w.main.blocks[fh - 1], fh);
        for (int h = fh; h < n; h++) {
            bsignals[h] = !signals[h];
            w.branch.blocks[h].nVersion = VersionFor(h, bsignals[h]);
            bref_path[h].signals = bsignals[h];
            bpath[h] = &w.branch.blocks[h];
        }
        const Case bcs{c, times, bsignals};
        const std::vector<State> bref = bip9ref::PeriodStates(rp, bref_path);
        const std::string plan = "shared cache: main forward, branch from height " + std::to_string(fh) + " backward, main scrambled";
        w.cache.clear();
        QueryPlan(cs, checker, rp, path, ref, Order(n, 0), w.cache, plan, false);
        QueryPlan(bcs, checker, rp, bpath, bref, Order(n, 1), w.cache, plan, true, fh + 1);
        QueryPlan(cs, checker, rp, path, ref, Order(n, 2 + k % 4), w.cache, plan, true);
    }

    // the VersionBitsCache front end (one shared, warm cache per deployment behind a mutex)
    w.vbc.Clear();
    const uint32_t mask = uint32_t{1} << BIT;
    for (int q : Order(n, 3)) {
        const CBlockIndex* prev = q == 0 ? nullptr : path[q - 1];
        const State want = ref[q / c.period];
        t_tally.calls += 2;
        if (w.vbc.IsActiveAfter(prev, consensus, Consensus::DEPLOYMENT_TESTDUMMY) != (want == bip9ref::ACTIVE)) Mismatch(cs, "IsActiveAfter", "VersionBitsCache", q, want == bip9ref::ACTIVE ? "false" : "true", want == bip9ref::ACTIVE ? "true" : "false");
        const int32_t v = w.vbc.ComputeBlockVersion(prev, consensus);
        const int32_t want_v = VERSIONBITS_TOP_BITS | ((want == bip9ref::STARTED || want == bip9ref::LOCKED_IN) ? mask : 0);
        if (v != want_v) Mismatch(cs, "ComputeBlockVersion", "VersionBitsCache", q, std::to_string(v), std::to_string(want_v));
    }
    for (int h = 0; h < n; h++) {
        const BIP9Info info = w.vbc.Info(*path[h], consensus, Consensus::DEPLOYMENT_TESTDUMMY);
        t_tally.calls++;
        const State cur = ref[h / c.period], next = ref[(h + 1) / c.period];
        const int since = bip9ref::SinceHeight(rp, ref, h / c.period);
        std::optional<int> active_since;
        if (cur == bip9ref::ACTIVE) active_since = since; else if (next == bip9ref::ACTIVE) active_since = h + 1;
        const bool has_stats = cur == bip9ref::STARTED || cur == bip9ref::LOCKED_IN;
        auto show = [](const std::string& c1, const std::string& n1, int s, bool st, std::optional<int> a) { return c1 + "/" + n1 + "/since=" + std::to_string(s) + (st ? "/stats" : "/nostats") + "/active_since=" + (a ? std::to_string(*a) : "none"); };
        const std::string got = show(info.current_state, info.next_state, info.since, info.stats.has_value(), info.active_since);
        const std::string want = show(bip9ref::Name(cur), bip9ref::Name(next), since, has_stats, active_since);
        if (got != want) Mismatch(cs, "VersionBitsCache::Info", "VersionBitsCache", h, got, want);
    }
}

// ------------------------------------------------------------------------------------------------ configurations
std::vector<Config> Configs(bool thorough)
{
    const std::vector<uint32_t> all3{0, 1, 2, 3, 4, 5, 6, 7};
    const std::vector<uint32_t> counts3{0b000, 0b010, 0b101, 0b111};                      // 0,1,2,3 signalling blocks
    const std::vector<uint32_t> some4{0b0000, 0b0110, 0b0111, 0b1110, 0b1011, 0b1111};   // 0,2,3,3,3,4 signalling blocks
    const int64_t S = 1000, T = 1100;
    std::vector<Config> v;
    // (a) every signalling pattern x every timestamp step function
    v.push_back({"p3t2x4-allsteps", 3, 2, 4, S, T, 0, all3, true, false});
    if (thorough) v.push_back({"p3t2x5-allsteps", 3, 2, 5, S, T, 0, all3, true, false});
    // (b) parameter variants, all query plans
    struct Var { const char* tag; int64_t start, timeout; int min_act; };
    const int far = 1000;
    const Var vars[] = {
        {"", S, T, 0}, {"-minact7", S, T, 7}, {"-minact9", S, T, 9}, {"-minactfar", S, T, far},
        {"-start=timeout", S, S, 0}, {"-start=timeout-minact9", S, S, 9}, {"-notimeout", S, NO_TIMEOUT, 0}, {"-notimeout-minact7", S, NO_TIMEOUT, 7},
        {"-always", ALWAYS, NO_TIMEOUT, 0}, {"-never", NEVER, NO_TIMEOUT, 0}, {"-start0", 0, T, 0}, {"-timeout+1", S, S + 1, 0},
    };
    for (const Var& x : vars) {
        v.push_back({std::string("p3t2x5") + x.tag, 3, 2, 5, x.start, x.timeout, x.min_act, thorough ? all3 : counts3, false, true});
        if (thorough && (x.start == S) && x.min_act != far) v.push_back({std::string("p4t3x6") + x.tag, 4, 3, 6, x.start, x.timeout, x.min_act == 7 ? 10 : x.min_act == 9 ? 12 : x.min_act, some4, false, false});
    }
    return v;
}

int RunOne(const Config& c, const std::vector<int64_t>& times, const std::vector<char>& signals)
{
    Consensus::Params consensus{};
    consensus.vDeployments[Consensus::DEPLOYMENT_TESTDUMMY] = Consensus::BIP9Deployment{BIT, c.start, c.timeout, c.min_act, (uint32_t)c.period, (uint32_t)c.threshold};
    Worker w;
    w.main.Build(times);
    Config deep = c;
    deep.deep = true;
    CheckChain(w, deep, consensus, times, signals);
    return 0;
}

int Replay()
{
    std::ifstream f(vx::ctx().replay);
    std::string line, cname;
    std::vector<int64_t> times;
    std::vector<char> signals;
    while (std::getline(f, line)) {
        std::istringstream is(line);
        std::string tag;
        is >> tag;
        if (tag == "config") is >> cname;
        if (tag == "times") { int64_t t; while (is >> t) times.push_back(t); }
        if (tag == "signals") { std::string s; is >> s; for (char ch : s) signals.push_back(ch == '1'); }
    }
    for (bool th : {false, true}) {
        for (const Config& c : Configs(th)) {
            if (c.name != cname || (int)times.size() != c.blocks() || signals.size() != times.size()) continue;
            RunOne(c, times, signals);
            std::vector<bip9ref::Block> p;
            for (size_t h = 0; h < times.size(); h++) p.push_back({(bool)signals[h], times[h]});
            const bip9ref::Params rp{c.period, c.threshold, c.start, c.timeout, c.min_act, c.start == ALWAYS, c.start == NEVER};
            printf("reference states per period:");
            for (State s : bip9ref::PeriodStates(rp, p)) printf(" %s", bip9ref::Name(s));
            printf("\n");
            return vx::finish();
        }
    }
    printf("HARNESS-ERROR replay file does not name a known configuration\n");
    return 2;
}

} // namespace

int Explore()
{
    auto& E = vx::ev();
    hb::describer() = [](const std::string&) { return t_case ? t_case->Text("(the process died inside this chain's queries)") : std::string("(no chain)"); };
    const std::vector<Config> configs = Configs(vx::thorough());
    std::atomic<uint64_t> chains{0};
    std::atomic<bool> cut{false};
    std::string cfg_json = "[";
    for (size_t ci = 0; ci < configs.size() && !cut; ci++) {
        const Config& c = configs[ci];
        const int n = c.blocks();
        Consensus::Params consensus{};
        consensus.vDeployments[Consensus::DEPLOYMENT_TESTDUMMY] = Consensus::BIP9Deployment{BIT, c.start, c.timeout, c.min_act, (uint32_t)c.period, (uint32_t)c.threshold};
        // work items: (timestamp selector, dips variant); each item runs every signalling combination
        const std::vector<std::vector<int>> sels = c.all_steps ? NonDecreasing(3, n + 1) : NonDecreasing(c.nperiods, 4);
        uint64_t npat = 1;
        for (int k = 0; k < c.nperiods; k++) npat *= c.pats.size();
        const uint64_t before = chains;
        const double t0 = vx::elapsed();
        vx::par_for(sels.size() * 2, 1, [&](uint64_t lo, uint64_t hi, unsigned) {
            thread_local Worker w;
            for (uint64_t item = lo; item < hi; item++) {
                if (cut) return;
                if (vx::deadline_reached()) { cut = true; return; }
                const std::vector<int64_t> times = MakeTimes(c, sels[item / 2], item % 2);
                { // the construction must respect what consensus guarantees: median time past never decreases
                    std::vector<bip9ref::Block> p;
                    int64_t last = INT64_MIN;
                    for (int h = 0; h < n; h++) {
                        p.push_back({false, times[h]});
                        const int64_t m = bip9ref::MedianTimePast(p, h);
                        if (m < last || times[h] < 0) { printf("HARNESS-ERROR timestamp family produced a decreasing median time past\n"); exit(2); }
                        last = m;
                    }
                }
                w.main.Build(times);
                std::vector<char> signals(n);
                for (uint64_t pi = 0; pi < npat; pi++) {
                    uint64_t x = pi;
                    for (int k = 0; k < c.nperiods; k++) {
                        const uint32_t pat = c.pats[x % c.pats.size()];
                        x /= c.pats.size();
                        for (int i = 0; i < c.period; i++) signals[k * c.period + i] = (pat >> i) & 1;
                    }
                    CheckChain(w, c, consensus, times, signals);
                }
                chains += npat;
                FlushTally();
            }
        });
        printf("[C53] %-28s chains=%" PRIu64 " (%zu timestamp sequences x %" PRIu64 " signalling patterns) %.1fs\n", c.name.c_str(), chains - before, sels.size() * 2, npat, vx::elapsed() - t0);
        cfg_json += std::string(ci ? "," : "") + "{\"config\":" + vx::q(c.name) + ",\"chains\":" + std::to_string(chains - before) + "}";
    }
    E.evaluations = chains.load();
    E.distinct_nontrivial = g_cases.size();
    E.set("distinct_state_trajectories", (uint64_t)g_trajectories.size());
    E.set("api_calls_compared", g_calls.load());
    E.exhaustive = !cut;
    E.set("configurations", cfg_json + "]");
    E.rule = "per configuration: every combination of the per-period signalling patterns x every timestamp sequence of the family x {monotone, minimal-odd-timestamps}; every block of every chain queried under all query plans (warm cache in 6 orders, fresh cache, forks with a shared cache, VersionBitsCache); evaluations = chains; api_calls_compared = real GetStateFor/GetStateSinceHeightFor/GetStateStatisticsFor/VersionBitsCache calls compared with the BIP9 reference; distinct_nontrivial = distinct chains whose trajectory leaves DEFINED";
    E.assume("median time past is non-decreasing along a chain (consensus rule; GetStateFor's early exit depends on it)");
    E.sample("trajectories seen (configuration+states per period, D/S/L/A/F): " + std::to_string(g_trajectories.size()));
    std::string missing;
    const char* names[] = {"DEFINED", "STARTED", "LOCKED_IN", "ACTIVE", "FAILED"};
    for (int i = 0; i < 5; i++) if (!g_gates.answer[i]) missing += std::string(" answer:") + names[i];
    if (!g_gates.delayed_activation) missing += " delayed-activation";
    if (!g_gates.lockin_beats_timeout) missing += " lock-in-beats-timeout";
    if (!g_gates.mtp_eq_start) missing += " mtp==start";
    if (!g_gates.mtp_eq_timeout) missing += " mtp==timeout";
    if (!g_gates.count_eq_threshold) missing += " count==threshold";
    if (!g_gates.count_below_threshold) missing += " count==threshold-1";
    if (!missing.empty() && !cut) { printf("HARNESS-ERROR property=C53 vacuous run, never seen:%s\n", missing.c_str()); vx::finish(); return 2; }
    return vx::finish();
}

int main(int argc, char** argv)
{
    vx::init(argc, argv, "C53", "exploration");
    if (!vx::ctx().replay.empty()) return Replay();
    return hb::guarded(Explore);
}
