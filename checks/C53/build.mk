LINK := full
