// refmodel_bip9.h — the BIP9 deployment state machine, transcribed from the BIP text (as amended by the
// min_activation_height extension that bitcoin/bitcoin uses), with no caching and no shortcuts.
//
//   "Each deployment has a state for every block. The genesis block is by definition DEFINED.
//    State transitions happen only at retarget (period) boundaries; all blocks of a period share a state.
//    For the first block of a period, given the state of the previous period and the previous period's blocks:
//      DEFINED   -> STARTED    if the median time past of the previous period's last block >= starttime
//      STARTED   -> LOCKED_IN  if at least `threshold` blocks of the previous period signal      (checked first)
//      STARTED   -> FAILED     else if that median time past >= timeout
//      LOCKED_IN -> ACTIVE     if the height of this first block >= min_activation_height
//      ACTIVE, FAILED          are final."
//   Special start times: ALWAYS_ACTIVE => every block ACTIVE, NEVER_ACTIVE => every block FAILED.
//   Median time past of a block = median of the timestamps of the block and its up to 10 ancestors.
#pragma once
#include <algorithm>
#include <cstdint>
#include <vector>

namespace bip9ref {

enum State { DEFINED, STARTED, LOCKED_IN, ACTIVE, FAILED };
inline const char* Name(State s)
{
    static const char* n[] = {"defined", "started", "locked_in", "active", "failed"};
    return n[s];
}

struct Params {
    int period, threshold;
    int64_t start, timeout;
    int min_activation_height;
    bool always_active = false, never_active = false;
};

struct Block {
    bool signals;
    int64_t time;
};

inline int64_t MedianTimePast(const std::vector<Block>& path, int height)
{
    std::vector<int64_t> t;
    for (int h = height; h >= 0 && h > height - 11; h--) t.push_back(path[h].time);
    std::sort(t.begin(), t.end());
    return t[t.size() / 2];
}

// State of every period 0 .. ceil(len/period) of the path (path[h] = block at height h, genesis first).
// The last entry is the state of the (not yet existing) block that would follow a path ending at a boundary.
inline std::vector<State> PeriodStates(const Params& p, const std::vector<Block>& path)
{
    const int full_periods = (int)path.size() / p.period;
    std::vector<State> out;
    if (p.always_active || p.never_active) {
        out.assign(full_periods + 1, p.always_active ? ACTIVE : FAILED);
        return out;
    }
    State s = DEFINED;
    out.push_back(s); // the period containing the genesis block
    for (int k = 1; k <= full_periods; k++) {
        const int last = k * p.period - 1; // last block of the previous period
        int count = 0;
        for (int h = last; h > last - p.period; h--) count += path[h].signals;
        const int64_t mtp = MedianTimePast(path, last);
        switch (s) {
        case DEFINED: if (mtp >= p.start) s = STARTED; break;
        case STARTED: if (count >= p.threshold) s = LOCKED_IN; else if (mtp >= p.timeout) s = FAILED; break;
        case LOCKED_IN: if (k * p.period >= p.min_activation_height) s = ACTIVE; break;
        case ACTIVE: case FAILED: break;
        }
        out.push_back(s);
    }
    return out;
}

// Height of the first block of the run of periods that share the state of `period_index` (0 for DEFINED and
// for the special start times, as documented for GetStateSinceHeightFor).
inline int SinceHeight(const Params& p, const std::vector<State>& states, int period_index)
{
    if (p.always_active || p.never_active || states[period_index] == DEFINED) return 0;
    int k = period_index;
    while (k > 0 && states[k - 1] == states[period_index]) k--;
    return k * p.period;
}

} // namespace bip9ref
