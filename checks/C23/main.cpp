// C23 — Block templates built from the mempool are always valid.
// poolsim exploration (independent txs at two feerates, a tx with sigops, CPFP chains, prioritised txs, time-locked txs,
// mined blocks, reorg). In every distinct reached state BlockAssembler::CreateNewBlock (self-check off) is run for a set of
// block-creation options chosen relative to the state: default; max weight = reserved + first pool tx (+1 / +0: the tx just
// fits / just does not); reserved weight 8000 with room for the whole pool +1; coinbase sigop reservation 79,997 / 79,992;
// minimum feerate 1 sat/vB.  Oracle per template (independent recomputation from the pool observation + UTXO set):
//   every tx is a pool tx and comes after all of its in-pool parents, which are all in the template;
//   reserved weight + sum of tx weights <= max weight;  sigop reservation + sum of sigop costs <= 80,000;
//   every tx final for height+1 / median-time-past;  coinbase value == subsidy + sum(in - out) exactly;
//   the template's fee / sigop vectors equal the recomputation;
// and full consensus validation: every distinct template is mined and handed to ProcessNewBlock (then the tip is
// invalidated again for the next template) and must become the tip.
#include <kits/poolsim_main.h>
#include <consensus/merkle.h>
#include <node/miner.h>

namespace {
using namespace ps;

int64_t RefSigopCost(const CTransaction& tx)
{
    // legacy count (inaccurate mode) over scriptSigs and output scripts, times 4; the menu has no P2SH inputs and its
    // witness scripts (OP_TRUE, IF-script) contain no signature opcodes
    int64_t n = 0;
    auto count = [&](const CScript& sc) {
        CScript::const_iterator pc = sc.begin();
        opcodetype op;
        std::vector<unsigned char> data;
        while (pc < sc.end() && sc.GetOp(pc, op, data)) {
            if (op == OP_CHECKSIG || op == OP_CHECKSIGVERIFY) n += 1;
            if (op == OP_CHECKMULTISIG || op == OP_CHECKMULTISIGVERIFY) n += 20;
        }
    };
    for (auto& in : tx.vin) count(in.scriptSig);
    for (auto& o : tx.vout) count(o.scriptPubKey);
    return n * 4;
}
bool RefFinal(const CTransaction& tx, int height, int64_t mtp)
{
    if (tx.nLockTime == 0) return true;
    int64_t lim = tx.nLockTime < 500000000u ? height : mtp;
    if ((int64_t)tx.nLockTime < lim) return true;
    for (auto& in : tx.vin) if (in.nSequence != 0xffffffff) return false;
    return true;
}

struct C23 : Monitor {
    std::string what() const override
    {
        return "per distinct state and option set: CreateNewBlock template checked by independent recomputation (membership, parents-before-children, reserved+weights <= max weight, reservation+sigops <= 80000, finality, coinbase == subsidy + fees, fee/sigop vectors) and mined + ProcessNewBlock must make it the tip";
    }
    struct OptSet { std::string name; node::BlockCreateOptions o; };

    void state(Sim& sim) override
    {
        Snap s = sim.Take();
        const int height = s.height + 1;
        int64_t mtp;
        { LOCK(cs_main); mtp = sim.n.cs().m_chain.Tip()->GetMedianTimePast(); }
        std::vector<OptSet> sets;
        auto base = [] { node::BlockCreateOptions o; o.test_block_validity = false; return o; };
        sets.push_back({"default", base()});
        int64_t total_w = 0;
        for (auto& t : s.txs) total_w += RefWeight(*t.tx);
        if (!s.txs.empty()) {
            int64_t w1 = RefWeight(*s.txs[0].tx);
            { auto o = base(); o.block_reserved_weight = 2000; o.block_max_weight = 2000 + w1 + 1; sets.push_back({"fits-first+1", o}); }
            { auto o = base(); o.block_reserved_weight = 2000; o.block_max_weight = 2000 + w1; sets.push_back({"fits-first+0", o}); }
            { auto o = base(); o.block_reserved_weight = 8000; o.block_max_weight = 8000 + total_w + 1; sets.push_back({"fits-all+1", o}); }
            { auto o = base(); o.block_reserved_weight = 8000; o.block_max_weight = 8000 + total_w; sets.push_back({"fits-all+0", o}); }
            { auto o = base(); o.coinbase_output_max_additional_sigops = 79997; sets.push_back({"sigops-79997", o}); }
            { auto o = base(); o.coinbase_output_max_additional_sigops = 79992; sets.push_back({"sigops-79992", o}); }
            { auto o = base(); o.block_min_fee_rate = CFeeRate{1000}; sets.push_back({"minfee-1000", o}); }
        } else {
            { auto o = base(); o.block_reserved_weight = 2000; o.block_max_weight = 2000; sets.push_back({"no-room", o}); }
        }
        std::vector<std::pair<std::string, CBlock>> blocks;
        for (auto& os : sets) {
            std::unique_ptr<node::CBlockTemplate> tpl;
            try {
                node::BlockAssembler ba{sim.n.cs(), &sim.pool(), os.o};
                tpl = ba.CreateNewBlock();
            } catch (const std::exception& e) {
                sim.fs.report("C23-createnewblock-threw:" + os.name, std::string("CreateNewBlock threw: ") + e.what());
                continue;
            }
            const CBlock& b = tpl->block;
            const std::string k = os.name;
            sim.Bump(10);
            if (b.vtx.empty() || !b.vtx[0]->IsCoinBase()) { sim.fs.report("C23-no-coinbase:" + k, "template has no coinbase"); continue; }
            // defaults transcribed from policy.h: reserved weight 8000, max weight = consensus maximum 4,000,000
            const uint64_t reserved = os.o.block_reserved_weight.value_or(8000), max_weight = os.o.block_max_weight.value_or(4000000);
            std::map<Txid, size_t> pos;
            int64_t w = 0, sig = 0;
            CAmount fees = 0;
            bool ok = true;
            for (size_t i = 1; i < b.vtx.size(); i++) {
                const CTransaction& tx = *b.vtx[i];
                auto it = s.idx.find(tx.GetHash());
                if (it == s.idx.end()) { sim.fs.report("C23-foreign-tx:" + k, "template contains a tx that is not in the pool"); ok = false; break; }
                if (!pos.emplace(tx.GetHash(), i).second) { sim.fs.report("C23-duplicate-tx:" + k, "template contains a tx twice"); ok = false; break; }
                for (size_t par : s.parents[it->second]) {
                    auto pp = pos.find(s.txs[par].tx->GetHash());
                    if (pp == pos.end()) sim.fs.report("C23-parent-not-before-child:" + k, "template [" + k + "] lists tx " + tx.GetHash().ToString().substr(0, 12) + " at position " + std::to_string(i) + " but its in-pool parent is not listed before it");
                }
                CAmount in = 0, out = 0;
                for (auto& vin : tx.vin) in += sim.ValueOf(s, vin.prevout).value_or(0);
                for (auto& o2 : tx.vout) out += o2.nValue;
                fees += in - out;
                int64_t sc = RefSigopCost(tx);
                w += RefWeight(tx); sig += sc;
                if (!RefFinal(tx, height, mtp)) sim.fs.report("C23-nonfinal-tx:" + k, "template contains a tx that is not final for the next block");
                if (i - 1 >= tpl->vTxFees.size() || tpl->vTxFees[i - 1] != in - out) sim.fs.report("C23-fee-vector:" + k, "template [" + k + "] vTxFees entry " + std::to_string(i - 1) + " differs from inputs - outputs");
                if (i - 1 >= tpl->vTxSigOpsCost.size() || tpl->vTxSigOpsCost[i - 1] != sc) sim.fs.report("C23-sigop-vector:" + k, "template [" + k + "] vTxSigOpsCost entry " + std::to_string(i - 1) + " differs from the recount");
            }
            if (!ok) continue;
            if (tpl->vTxFees.size() != b.vtx.size() - 1 || tpl->vTxSigOpsCost.size() != b.vtx.size() - 1) sim.fs.report("C23-vector-length:" + k, "fee / sigop vectors do not have one entry per non-coinbase tx");
            if ((int64_t)reserved + w > (int64_t)max_weight) sim.fs.report("C23-weight:" + k, "template [" + k + "]: reserved " + std::to_string(reserved) + " + tx weights " + std::to_string(w) + " > max weight " + std::to_string(max_weight));
            if ((int64_t)os.o.coinbase_output_max_additional_sigops + sig > 80000) sim.fs.report("C23-sigops:" + k, "template [" + k + "]: sigop reservation " + std::to_string(os.o.coinbase_output_max_additional_sigops) + " + tx sigop cost " + std::to_string(sig) + " > 80000");
            CAmount cb = 0;
            for (auto& o2 : b.vtx[0]->vout) cb += o2.nValue;
            CAmount want = RefLedger::Subsidy(height, Params().GetConsensus().nSubsidyHalvingInterval) + fees;
            if (cb != want) sim.fs.report("C23-coinbase-value:" + k, "template [" + k + "]: coinbase pays " + std::to_string(cb) + " but subsidy + fees = " + std::to_string(want));
            if (b.vtx.size() > 1) sim.Bump(11);
            if (b.vtx.size() - 1 < s.txs.size()) sim.Bump(12);
            if (sig > 0) sim.Bump(13);
            CBlock nb = b;
            nb.hashMerkleRoot = BlockMerkleRoot(nb);
            blocks.emplace_back(k, nb);
        }
        // full validation of every distinct template (this process is discarded afterwards, so it may mutate the node)
        std::set<uint256> seen;
        const uint256 tip0 = s.tip;
        for (auto& [k, nb0] : blocks) {
            CBlock nb = nb0;
            if (!seen.insert(nb.hashMerkleRoot).second) continue;
            Grind(nb, Params().GetConsensus());
            BlockResult r = sim.n.ProcessBlock(nb);
            uint256 tip = sim.n.tip()->GetBlockHash();
            if (tip != nb.GetHash()) {
                sim.fs.report("C23-template-rejected:" + k + ":" + r.reason, "template [" + k + "] (" + std::to_string(nb.vtx.size() - 1) + " txs), mined, was not connected by ProcessNewBlock: " + r.reason);
            } else {
                sim.Bump(14);
                sim.n.Invalidate(nb.GetHash());
            }
            if (sim.n.tip()->GetBlockHash() != tip0) { sim.fs.report("C23-harness-tip", "could not return to the original tip"); break; }
        }
    }
    int gate(Sim& sim) override
    {
        auto* sh = sim.fs.sh;
        const char* names[] = {"template created", "template with pool txs", "template leaving pool txs out", "template with sigops", "template connected by ProcessNewBlock"};
        bool bad = false;
        for (int i = 0; i < 5; i++) if (!sh->outcome_classes[10 + i].load()) { printf("HARNESS-ERROR property=C23 never happened: %s\n", names[i]); bad = true; }
        return bad ? 2 : 0;
    }
};
} // namespace

int C23TimePart(); // timepart.cpp: header-timestamp grid around the difficulty-adjustment boundary (BIP94 floor)

int main(int argc, char** argv)
{
    C23 mon;
    return ps::Main(argc, argv, "C23", [&] {
        // part (t) runs first, inside the configuration callback (after vx::init); a harness error there ends the run
        if (vx::ctx().replay.empty()) { int trc = C23TimePart(); if (trc == 2) { vx::write_evidence(); exit(2); } }
        ps::Opts o;
        o.max_size_bytes = 40000;
        o.cluster_size_vbytes = 1000;
        o.cluster_count = 4;
        o.classes = {"N", "NS", "C", "P", "M"};
        o.guarded = true;
        o.fees = "mh";
        o.fees_special = "h";
        o.child_fees = "k";
        o.child_outs = 1;
        o.max_idx = 1;
        o.prio_minus = false; o.prio_next = false;
        o.depth_quick = 3; o.depth_thorough = 4;
        if (!vx::thorough()) return ps::Configs{{"", o}};
        ps::Opts deep = o; // the quick menu one level deeper
        deep.depth_thorough = 4;
        ps::Opts rich = o; // time-locked txs, TRUC, cluster joins, -delta, reorgs at depth 3
        for (const char* c : {"NL", "NQ", "J", "I", "N3"}) rich.classes.insert(c);
        rich.fees3 = "h"; rich.prio_minus = true; rich.max_idx = 2; rich.child_outs = 2; rich.depth_thorough = 3;
        return ps::Configs{{"_deep", deep}, {"_rich", rich}};
    }, mon);
}
