// C23, part (t) — the template's header timestamp. Directed grid on the real regtest node with and without -test=bip94:
// template heights 143..146 (the difficulty-adjustment boundary 144 in the middle) x the node clock 0 .. 7000 s behind the
// tip's timestamp (a tip up to two hours ahead of the clock is legal). Every template (BlockAssembler::CreateNewBlock, self-check
// off) must (1) satisfy the header time rules restated here: time > median-time-past of the previous 11 blocks, time <= clock + 2 h,
// and with BIP94 at heights that are a multiple of the adjustment interval time >= previous block's time - 600 s; and (2) once
// mined be connected by ProcessNewBlock.
#include <vx/vx.h>
#include <kits/chainkit.h>

#include <chainparams.h>
#include <consensus/merkle.h>
#include <node/miner.h>
#include <util/time.h>

int C23TimePart()
{
    using namespace ck;
    auto& E = vx::ev();
    uint64_t cases = 0, floor_binding = 0, connected = 0;
    for (bool bip94 : {true, false}) {
        NodeOpts o;
        if (bip94) o.extra_args = {"-test=bip94"};
        o.min_validation_cache = true;
        Node n(o);
        const auto& cons = Params().GetConsensus();
        if (cons.enforce_BIP94 != bip94) { printf("HARNESS-ERROR C23 time part: -test=bip94 not in effect\n"); return 2; }
        const int interval = (int)cons.DifficultyAdjustmentInterval();
        if (interval != 144) { printf("HARNESS-ERROR C23 time part: regtest adjustment interval is %d\n", interval); return 2; }
        RefLedger L;
        L.AddGenesis(Params().GenesisBlock());
        SetMockTime(Params().GenesisBlock().nTime + 600 * 400);
        MineEmpty(n, L, interval - 3); // tip at height 141
        for (int prevh = interval - 2; prevh <= interval + 1; prevh++) {
            // the previous block P (height prevh), at the usual spacing
            const CBlockIndex* base = n.tip();
            CBlock P = MakeBlock(n, base, {});
            SetMockTime(P.nTime);
            if (!n.ProcessBlock(P).pnb_ret || n.tip()->GetBlockHash() != P.GetHash()) { printf("HARNESS-ERROR C23 time part: base block rejected\n"); return 2; }
            const CBlockIndex* pi = n.tip();
            const int64_t tP = pi->GetBlockTime(), mtp = pi->GetMedianTimePast();
            const int height = prevh + 1;
            std::set<uint256> seen;
            for (int64_t delta : {0, 1, 599, 600, 601, 1200, 2999, 3000, 3600, 7000}) {
                const int64_t clock = tP - delta;
                SetMockTime(clock);
                cases++;
                const std::string scen = std::string("bip94=") + (bip94 ? "1" : "0") + " template height " + std::to_string(height) + ", tip time = clock + " + std::to_string(delta) + " s";
                node::BlockCreateOptions bo;
                bo.test_block_validity = false;
                std::unique_ptr<node::CBlockTemplate> tpl;
                try {
                    node::BlockAssembler ba{n.cs(), &n.pool(), bo};
                    tpl = ba.CreateNewBlock();
                } catch (const std::exception& e) {
                    vx::violation("C23-time-createnewblock-threw", scen + ": " + e.what(), "scenario: " + scen);
                    continue;
                }
                CBlock b = tpl->block;
                const int64_t t = b.GetBlockTime();
                const bool floor_applies = bip94 && height % interval == 0;
                if (t <= mtp) vx::violation("C23-time-not-after-mtp", scen + ": template time " + std::to_string(t) + " <= median time past " + std::to_string(mtp), "scenario: " + scen);
                if (t > clock + 7200) vx::violation("C23-time-too-far-ahead", scen + ": template time is more than two hours ahead of the clock", "scenario: " + scen);
                if (floor_applies && t < tP - 600) vx::violation("C23-time-timewarp-floor", scen + ": template time " + std::to_string(t) + " < previous block time - 600 = " + std::to_string(tP - 600) + " at an adjustment-boundary height", "scenario: " + scen);
                if (floor_applies && tP - 600 > std::max(mtp + 1, clock)) floor_binding++;
                b.hashMerkleRoot = BlockMerkleRoot(b);
                Grind(b, cons);
                // two clock settings can give the same template (time = median time past + 1): it was validated already
                if (!seen.insert(b.GetHash()).second) { connected++; continue; }
                BlockResult r = n.ProcessBlock(b);
                if (n.tip()->GetBlockHash() != b.GetHash()) {
                    vx::violation("C23-time-template-rejected:" + r.reason, scen + ": the mined template was not connected: " + r.reason, "scenario: " + scen);
                } else {
                    connected++;
                    n.Invalidate(b.GetHash());
                }
                if (n.tip() != pi) { printf("HARNESS-ERROR C23 time part: could not return to the previous block\n"); return 2; }
            }
            SetMockTime(tP);
        }
    }
    E.set("time_part_cases", cases);
    E.set("time_part_templates_connected", connected);
    E.set("time_part_bip94_floor_binding_cases", floor_binding);
    E.evaluations += cases;
    printf("time part: cases=%llu connected=%llu floor_binding=%llu\n", (unsigned long long)cases, (unsigned long long)connected, (unsigned long long)floor_binding);
    if (vx::rep().violations == 0 && (!floor_binding || connected != cases)) { printf("HARNESS-ERROR C23 time part vacuous\n"); return 2; }
    return 0;
}
