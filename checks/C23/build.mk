LINK := full
KITS := chainkit
