// C19 — Pruning never deletes data the node still needs.
//
// A real regtest node (kits/chainkit) in prune mode with -fastprune block files (64 KiB) is grown to 700 blocks in
// three block-file layouts (many small blocks per file; few large blocks per file; out-of-order delivery with
// stale siblings so files hold non-contiguous heights). At every checkpoint tip the process is fork()ed once per
// scenario (kits/forkpool, isolated jobs, private hard-linked block directory) and the real pruning paths run:
//   automatic: m_check_for_pruning + Chainstate::FlushStateToDisk  (FindFilesToPrune, UnlinkPrunedFiles)
//   manual:    PruneBlockFilesManual(height)                        (FindFilesToPruneManual)
//   reorg:     a competing branch is delivered (DisconnectTip moves prune locks back), the chain grows by 300
//              blocks and a manual prune follows.
// Because 550 MiB of block data is impractical, the *recorded sizes* of the block files (CBlockFileInfo::nSize /
// nUndoSize, metadata only — the decision functions read nothing else) are scaled in the forked child to put the
// usage at chosen levels around the prune target.
// Oracle (from the property text, computed from the harness's own record of which block lives in which file):
//   safety   no removed file held a block with height > tip-288, with height >= a prune lock's height_first,
//            or (unvalidated snapshot chainstate) with height <= the snapshot base; a manual prune removes nothing
//            above the requested height; flags HAVE_DATA/HAVE_UNDO are cleared exactly for blocks of removed files,
//            removed files are gone from disk, all other blocks stay readable.
//   liveness usage >= target  ==>  afterwards usage < target, or no file remains that is prunable under the
//            documented rule (all heights <= tip-288, < lock-10, > snapshot base).
//   frugal   usage <= target/2 ==> the automatic pass removes nothing.
#include <vx/vx.h>
#include <kits/chainkit.h>
#include <kits/forkpool.h>

#include <chainparams.h>
#include <node/blockstorage.h>
#include <util/time.h>
#include <validation.h>

#include <climits>
#include <sys/resource.h>

namespace {

const int KEEP = 288;          // "the last 288 blocks of the active tip"
const int LOCK_BUFFER = 10;    // documented: only blocks at height (height_first - 10 - 1) and below are pruned
const uint64_t MIB = 1024 * 1024;

struct Layout { std::string name; bool shuffled; };

int PadFor(const Layout& L, int h)
{
    if (L.name == "small") return 1400 + (h % 7) * 120;                                     // ~40 blocks per 64 KiB file
    if (L.name == "large") { static const int p[10] = {33000, 33000, 200, 20000, 5000, 30000, 12000, 0, 45000, 800}; return h <= 2 ? 33000 : p[h % 10]; }
    return 5000 + (h % 5) * 1500;                                                           // "shuffled": ~8 blocks per file
}

CBlock Build(ck::Node& n, const CBlockIndex* prev, int pad, int extra_nonce)
{
    ck::BlockOpts bo;
    bo.extra_nonce = extra_nonce;
    for (int left = pad; left > 0; left -= 9000) {
        std::vector<unsigned char> raw((size_t)std::min(left, 9000) + 1, 0x42);
        raw[0] = OP_RETURN;
        const CScript spk(raw.begin(), raw.end());
        bo.extra_coinbase_outputs.push_back({0, spk});
    }
    return ck::MakeBlock(n, prev, {}, bo);
}

struct Scen {
    int mode{0};              // 0 automatic, 1 manual, 2 reorg + growth + manual
    int target_mib{550};
    int usage{0};             // automatic: index into usage levels
    int ahead{0};             // headers announced beyond the tip (IBD look-ahead buffer)
    int manual{0};            // manual prune height
    std::vector<int> locks;   // height_first of prune locks
    int snap{-1};             // base height of an unvalidated snapshot chainstate, -1 none
    int depth{0};             // reorg depth
    bool real_files{true};    // false: the block directory is re-pointed at an empty directory (decisions and flags only)
    std::string str() const
    {
        std::string s = mode == 0 ? "auto target=" + std::to_string(target_mib) + "MiB usage=" + std::to_string(usage) + " headers_ahead=" + std::to_string(ahead)
                      : mode == 1 ? "manual height=" + std::to_string(manual)
                                  : "reorg depth=" + std::to_string(depth);
        s += " locks=[";
        for (size_t i = 0; i < locks.size(); i++) s += (i ? "," : "") + (locks[i] == INT_MAX ? std::string("max") : std::to_string(locks[i]));
        s += "] snapshot_base=" + (snap < 0 ? std::string("none") : std::to_string(snap));
        return s;
    }
};
const char* USAGE_NAME[6] = {"0.4*target", "target-20MiB", "target-8MiB", "target+1MiB", "1.3*target", "3*target"};
uint64_t UsageBytes(int kind, uint64_t target)
{
    switch (kind) {
    case 0: return target * 2 / 5;
    case 1: return target - 20 * MIB;
    case 2: return target - 8 * MIB;
    case 3: return target + 1 * MIB;
    case 4: return target * 13 / 10;
    default: return target * 3;
    }
}

struct BlockRec { uint256 hash; int height; int file; bool undo; };

std::vector<BlockRec> Snapshot(ck::Node& n)
{
    std::vector<BlockRec> v;
    LOCK(cs_main);
    for (auto& [h, bi] : n.chainman().m_blockman.m_block_index)
        if (bi.nStatus & BLOCK_HAVE_DATA) v.push_back({h, bi.nHeight, bi.nFile, (bool)(bi.nStatus & BLOCK_HAVE_UNDO)});
    std::sort(v.begin(), v.end(), [](const BlockRec& a, const BlockRec& b) { return a.height != b.height ? a.height < b.height : a.hash < b.hash; });
    return v;
}

fs::path g_scratch;

// Hard links are enough (and cheap) when the scenario only prunes: pruning unlinks names, it never writes into a
// block file. Scenarios that also write new blocks get real copies.
void PrivateBlocksDir(ck::Node& n, bool will_write)
{
    auto& bm = n.chainman().m_blockman;
    const fs::path old = bm.m_block_file_seq.m_dir;
    const fs::path dir = g_scratch / fs::u8path("job" + std::to_string(getpid()));
    fs::create_directories(dir);
    for (const auto& e : fs::directory_iterator(old)) {
        if (!e.is_regular_file()) continue;
        const fs::path to = dir / fs::PathFromString(fs::PathToString(e.path().filename()));
        if (will_write || link(fs::PathToString(e.path()).c_str(), fs::PathToString(to).c_str()) != 0) fs::copy_file(e.path(), to, fs::copy_options::overwrite_existing);
    }
    const_cast<fs::path&>(bm.m_block_file_seq.m_dir) = dir;
    const_cast<fs::path&>(bm.m_undo_file_seq.m_dir) = dir;
}
void RemovePrivateDir(ck::Node& n)
{
    std::error_code ec;
    fs::remove_all(n.chainman().m_blockman.m_block_file_seq.m_dir, ec);
}
bool FileExists(ck::Node& n, const char* prefix, int f)
{
    char name[32];
    snprintf(name, sizeof name, "%s%05u.dat", prefix, f);
    return fs::exists(n.chainman().m_blockman.m_block_file_seq.m_dir / fs::u8path(name));
}

// One scenario in a throw-away process.
void RunScenario(ck::Node& n, const Layout& L, const Scen& s, fp::Out& o)
{
    const std::string tag = "layout=" + L.name + " tip=" + std::to_string(n.height()) + " " + s.str();
    auto V = [&](const std::string& key, const std::string& what) { o.violation("C19 " + key + " | " + tag, what, "scenario: " + tag); };
    auto& bm = n.chainman().m_blockman;
    Chainstate& cs = n.cs();
    const bool timing = getenv("VX_C19_TIME") != nullptr;
    auto t0 = std::chrono::steady_clock::now();
    auto cpu_ms = [] { timespec ts; clock_gettime(CLOCK_PROCESS_CPUTIME_ID, &ts); return ts.tv_sec * 1e3 + ts.tv_nsec / 1e6; };
    double c0 = cpu_ms();
    auto faults = [] { struct rusage ru; getrusage(RUSAGE_SELF, &ru); return (long)ru.ru_minflt; };
    long f0 = faults();
    auto lap = [&](const char* what) { if (timing) { long f1 = faults(); fprintf(stderr, "[f] %s %ld\n", what, f1 - f0); f0 = f1; }
                                       if (timing) { auto t1 = std::chrono::steady_clock::now(); double c1 = cpu_ms(); fprintf(stderr, "[t] %s %.1f %.1f\n", what, std::chrono::duration<double, std::milli>(t1 - t0).count(), c1 - c0); t0 = t1; c0 = c1; } };
    const bool files = s.real_files || s.mode == 2;
    if (files) PrivateBlocksDir(n, /*will_write=*/s.mode == 2);
    else {
        // forking is expensive on a loaded machine and the directory work is the larger part of it: most scenarios
        // only judge the pruning decision and the index flags, against an empty directory
        const_cast<fs::path&>(bm.m_block_file_seq.m_dir) = g_scratch / fs::u8path("empty");
        const_cast<fs::path&>(bm.m_undo_file_seq.m_dir) = g_scratch / fs::u8path("empty");
    }
    lap("privdir");
    std::vector<int> ref_locks = s.locks; // reference lock positions (moved back by a reorg)
    {
        LOCK(cs_main);
        for (size_t i = 0; i < s.locks.size(); i++) bm.UpdatePruneLock("vx-lock-" + std::to_string(i), {s.locks[i]});
    }
    int manual = s.manual;
    if (s.mode == 2) {
        // competing branch forking `depth` below the tip, one block longer; then 300 more blocks; then prune at tip
        const int H = n.height(), f = H - s.depth;
        const CBlockIndex* p;
        { LOCK(cs_main); p = n.chainman().ActiveChain()[f]; }
        for (int i = 0; i <= s.depth; i++) {
            CBlock b = Build(n, p, 2000, 900000 + i);
            n.ProcessBlock(b);
            p = n.index_of(b.GetHash());
            if (!p) { V("reorg-block-refused", "branch block refused"); break; }
        }
        if (!p || n.tip() != p) { V("reorg-did-not-happen", "longer branch is not the tip"); RemovePrivateDir(n); return; }
        {
            LOCK(cs_main);
            for (size_t i = 0; i < s.locks.size(); i++) {
                if (s.locks[i] == INT_MAX) continue;
                const int want_max = std::min(s.locks[i], f); // an index at `lock` on the old branch must restart at the fork point
                const int got = bm.m_prune_locks.at("vx-lock-" + std::to_string(i)).height_first;
                if (got > want_max) V("lock-not-moved-back", "prune lock at " + std::to_string(s.locks[i]) + " is at " + std::to_string(got) + " after a reorg below it (fork point " + std::to_string(f) + ")");
                ref_locks[i] = want_max;
                o.count(s.locks[i] > f ? "lock_moved_back" : "lock_below_fork");
            }
        }
        for (int i = 0; i < 300; i++) {
            CBlock b = Build(n, n.tip(), 300, 910000 + i);
            n.ProcessBlock(b);
        }
        if (n.height() != H + 1 + 300) { V("growth-failed", "could not extend the new branch"); RemovePrivateDir(n); return; }
        manual = n.height();
    }
    const int tip = n.height();
    if (s.ahead > 0) {
        const CBlockIndex* p = n.tip();
        for (int i = 0; i < s.ahead; i++) {
            CBlock b = Build(n, p, 0, 920000 + i);
            BlockValidationState st;
            if (!n.ProcessHeader(b, st)) { V("header-refused", st.GetRejectReason()); break; }
            p = n.index_of(b.GetHash());
        }
    }
    if (s.snap >= 0) {
        // Mark the chainstate as an unvalidated snapshot chainstate based at `snap` (the assumeutxo commitments of
        // regtest belong to another chain, so a real snapshot cannot be loaded here; GetPruneRange reads exactly this).
        LOCK(cs_main);
        const_cast<std::optional<uint256>&>(cs.m_from_snapshot_blockhash) = n.chainman().ActiveChain()[s.snap]->GetBlockHash();
        cs.m_assumeutxo = Assumeutxo::UNVALIDATED;
    }
    // ---- pre-state: which block is in which file; file sizes (scaled for the automatic pass)
    const std::vector<BlockRec> pre = Snapshot(n);
    std::map<int, std::vector<const BlockRec*>> by_file;
    for (const BlockRec& b : pre) by_file[b.file].push_back(&b);
    uint64_t target = std::max<uint64_t>(550 * MIB, (uint64_t)s.target_mib * MIB);
    std::map<int, uint64_t> fsize;
    uint64_t usage_before = 0;
    {
        LOCK(cs_main);
        uint64_t real = 0;
        for (auto& fi : bm.m_blockfile_info) real += fi.nSize + fi.nUndoSize;
        const double K = s.mode == 0 ? (double)UsageBytes(s.usage, target) / (double)real : 1.0;
        for (size_t f = 0; f < bm.m_blockfile_info.size(); f++) {
            auto& fi = bm.m_blockfile_info[f];
            if (s.mode == 0) { fi.nSize = (uint32_t)((double)fi.nSize * K); fi.nUndoSize = (uint32_t)((double)fi.nUndoSize * K); }
            fsize[(int)f] = (uint64_t)fi.nSize + fi.nUndoSize;
            usage_before += fsize[(int)f];
            if (fi.nSize && !by_file.count((int)f)) V("file-without-blocks", "file " + std::to_string(f) + " has a size but no indexed block");
        }
        if (s.mode == 0) const_cast<uint64_t&>(bm.m_opts.prune_target) = (uint64_t)s.target_mib * MIB;
    }
    lap("pre-state");
    // ---- the real pruning pass
    if (s.mode == 0) {
        { LOCK(cs_main); bm.m_check_for_pruning = true; }
        BlockValidationState st;
        if (!cs.FlushStateToDisk(st, FlushStateMode::NONE)) V("flush-failed", st.ToString());
    } else {
        PruneBlockFilesManual(cs, manual);
    }
    lap("prune-call");
    // ---- post-state
    std::set<int> removed;
    {
        LOCK(cs_main);
        for (auto& [f, sz] : fsize) if (sz && bm.m_blockfile_info[f].nSize == 0) removed.insert(f);
    }
    auto needed = [&](int h, std::string* why) {
        if (h > tip - KEEP) { if (why) *why = "height " + std::to_string(h) + " is within the last 288 blocks of tip " + std::to_string(tip); return true; }
        for (int l : ref_locks) if (l != INT_MAX && h >= l) { if (why) *why = "height " + std::to_string(h) + " is at/above the prune lock at " + std::to_string(l); return true; }
        if (s.snap >= 0 && h <= s.snap) { if (why) *why = "height " + std::to_string(h) + " is not yet validated (snapshot base " + std::to_string(s.snap) + ")"; return true; }
        if (s.mode != 0 && h > manual) { if (why) *why = "height " + std::to_string(h) + " is above the requested prune height " + std::to_string(manual); return true; }
        return false;
    };
    uint64_t usage_after = usage_before;
    bool lock_binding = false, keep_binding = false, snap_binding = false;
    for (int f : removed) {
        usage_after -= fsize[f];
        for (const BlockRec* b : by_file[f]) {
            std::string why;
            if (!needed(b->height, &why)) continue;
            // One family gets a stable key (so that it can be listed as a known finding): a lock so low that
            // height_first - 10 - 1 < 1 does not protect heights <= 1 (FlushStateToDisk clamps the limit up to 1).
            bool floor_case = b->height <= 1 && b->height <= tip - KEEP && !(s.snap >= 0) && !(s.mode != 0 && b->height > manual);
            if (floor_case) {
                for (const BlockRec* x : by_file[f]) if (x->height > 1) floor_case = false; // exactly: a file whose highest block is <= 1
            }
            if (floor_case) {
                bool low_lock = false;
                for (int l : ref_locks) if (l != INT_MAX && b->height >= l && l <= 1) low_lock = true;
                floor_case = low_lock;
            }
            if (floor_case) o.violation("C19-prune-lock-floor", "file " + std::to_string(f) + " was removed but " + why + " [" + tag + "]", "scenario: " + tag);
            else V("needed-block-pruned file=" + std::to_string(f), "file " + std::to_string(f) + " was removed but " + why);
        }
        if (files && (FileExists(n, "blk", f) || FileExists(n, "rev", f))) V("pruned-file-on-disk file=" + std::to_string(f), "blk/rev file still exists after pruning");
    }
    // flags and readability
    {
        uint64_t cleared = 0;
        for (const BlockRec& b : pre) {
            const bool gone = removed.count(b.file) > 0;
            const CBlockIndex* bi = n.index_of(b.hash);
            const bool have = bi->nStatus & BLOCK_HAVE_DATA, undo = bi->nStatus & BLOCK_HAVE_UNDO;
            if (gone && (have || undo)) V("flags-not-cleared height=" + std::to_string(b.height), "block of a removed file still has HAVE_DATA/HAVE_UNDO");
            if (!gone && (!have || undo != b.undo)) V("flags-cleared-for-kept-block height=" + std::to_string(b.height), "block of a kept file lost HAVE_DATA/HAVE_UNDO");
            if (!gone && files) {
                CBlock rd;
                LOCK(cs_main);
                if (!bm.ReadBlock(rd, *bi) || rd.GetHash() != b.hash) V("kept-block-unreadable height=" + std::to_string(b.height), "ReadBlock fails for a block whose file was not pruned");
            }
            cleared += gone;
        }
        o.count("blocks_pruned", cleared);
    }
    lap("flags+read");
    for (auto& [f, sz] : fsize)
        if (files && sz && !removed.count(f) && !FileExists(n, "blk", f)) V("kept-file-missing file=" + std::to_string(f), "block file disappeared although it was not pruned");
    // ---- liveness / frugality of the automatic pass
    auto surely_prunable = [&](int f) {
        bool by_keep = true, by_lock = true, by_snap = true;
        for (const BlockRec* b : by_file[f]) {
            if (b->height > tip - KEEP) by_keep = false;
            for (int l : ref_locks) if (l != INT_MAX && b->height > l - LOCK_BUFFER - 1) by_lock = false;
            if (s.snap >= 0 && b->height <= s.snap) by_snap = false;
        }
        if (by_keep && by_snap && !by_lock) lock_binding = true;
        if (by_lock && by_snap && !by_keep) keep_binding = true;
        if (by_keep && by_lock && !by_snap) snap_binding = true;
        return by_keep && by_lock && by_snap;
    };
    if (s.mode == 0) {
        const bool prune_active = (uint64_t)tip > Params().PruneAfterHeight();
        bool left = false;
        for (auto& [f, sz] : fsize) if (sz && !removed.count(f) && surely_prunable(f)) left = true;
        if (prune_active && usage_before >= target) {
            if (usage_after >= target && left) V("over-target-and-prunable-file-left", "usage " + std::to_string(usage_before / MIB) + " MiB -> " + std::to_string(usage_after / MIB) + " MiB with target " + std::to_string(target / MIB) + " MiB, and a file that holds no needed block remains");
            o.count(usage_after < target ? "auto_back_under_target" : "auto_nothing_prunable_left");
        }
        if (usage_before <= target / 2 && !removed.empty()) V("pruned-although-far-below-target", "usage " + std::to_string(usage_before / MIB) + " MiB is at most half of the target but " + std::to_string(removed.size()) + " files were removed");
        if (!prune_active && !removed.empty()) V("pruned-before-prune-after-height", "automatic pruning below the chain's prune-after height");
        o.count(removed.empty() ? "auto_removed_nothing" : "auto_removed_some");
    } else {
        for (auto& [f, sz] : fsize) if (sz && !removed.count(f)) surely_prunable(f);
        o.count(removed.empty() ? "manual_removed_nothing" : "manual_removed_some");
    }
    if (lock_binding) o.count("lock_was_binding");
    if (keep_binding) o.count("last288_was_binding");
    if (snap_binding) o.count("snapshot_was_binding");
    o.count("scenarios");
    o.count("files_removed", removed.size());
    if (!removed.empty() || lock_binding || snap_binding) o.distinct("nontrivial", tag);
    if (vx::fnv1a(tag) % 997 == 0) o.sample(tag + " -> removed " + std::to_string(removed.size()) + " of " + std::to_string(by_file.size()) + " files");
    if (files) RemovePrivateDir(n);
    lap("rest");
}

std::vector<Scen> Scenarios(int tip, bool big)
{
    std::vector<Scen> v;
    auto add = [&](Scen s) { v.push_back(std::move(s)); };
    auto mk_auto = [](int t, int u, int ahead, int snap, std::vector<int> locks) { Scen s; s.mode = 0; s.target_mib = t; s.usage = u; s.ahead = ahead; s.snap = snap; s.locks = std::move(locks); return s; };
    auto mk_manual = [](int m, int snap, std::vector<int> locks) { Scen s; s.mode = 1; s.manual = m; s.snap = snap; s.locks = std::move(locks); return s; };
    std::vector<int> single_raw = {0, 1, 12, 50, tip - 300, tip - 289, tip - 288, tip - 277, tip, INT_MAX};
    std::vector<int> single;
    for (int x : single_raw) if (x >= 0 && std::find(single.begin(), single.end(), x) == single.end()) single.push_back(x);
    const int snap_hi = tip >= 299 ? 299 : 110;
    if (!big) {
        const std::vector<std::vector<int>> locks = {{}, {12}, {std::max(0, tip - 300)}, {tip - 277}, {50, tip}};
        for (int u : {0, 3, 5})
            for (const auto& l : locks)
                for (int snap : {-1, snap_hi}) add(mk_auto(550, u, 0, snap, l));
        add(mk_auto(550, 2, 0, -1, {}));
        add(mk_auto(550, 3, 3, -1, {}));
        add(mk_auto(700, 4, 0, -1, {tip - 289}));
        for (int m : {1, tip - 288, tip})
            for (const auto& l : std::vector<std::vector<int>>{{}, {1}, {std::max(0, tip - 300)}})
                for (int snap : {-1, 110}) add(mk_manual(m, snap, l));
        add(mk_manual(tip - 287, -1, {}));
        add(mk_manual(2, -1, {0}));
    } else {
        std::vector<std::vector<int>> locks{{}};
        for (int x : single) locks.push_back({x});
        for (int x : {tip - 300, tip - 288, tip}) if (x >= 0 && x != 50) locks.push_back({50, x});
        locks.push_back({tip - 300, INT_MAX});
        for (int u = 0; u < 6; u++)
            for (const auto& l : locks) add(mk_auto(550, u, 0, -1, l));
        for (int snap : {110, snap_hi})
            for (int u = 0; u < 6; u++)
                for (const auto& l : std::vector<std::vector<int>>{{}, {std::max(0, tip - 300)}, {50}}) add(mk_auto(550, u, 0, snap, l));
        for (int u : {2, 3}) add(mk_auto(550, u, 3, -1, {}));
        for (int t : {600, 700})
            for (int u : {1, 2, 3, 5})
                for (const auto& l : std::vector<std::vector<int>>{{}, {std::max(0, tip - 300)}}) add(mk_auto(t, u, 0, -1, l));
        std::set<int> manual = {1, 2, 50, tip / 2, tip - 289, tip - 288, tip - 287, tip, tip + 10};
        for (int m : manual) {
            if (m < 1) continue;
            add(mk_manual(m, -1, {}));
            for (int x : single) add(mk_manual(m, -1, {x}));
        }
        for (int snap : {110, snap_hi})
            for (int m : {1, 150, 300, tip - 288, tip})
                for (const auto& l : std::vector<std::vector<int>>{{}, {50}}) if (m >= 1) add(mk_manual(m, snap, l));
    }
    for (int d : {1, 2, 3, 15})
        for (int l : {tip, tip - 1, tip - 2, tip - 3, tip - 14, tip - 15, tip - 16, 50, INT_MAX}) {
            if (!big && !((d == 3 || d == 15) && (l == tip || l == tip - 14 || l == 50))) continue;
            Scen s; s.mode = 2; s.depth = d; s.locks = {l};
            add(s);
            if (big && l == tip) { Scen t2 = s; t2.locks = {tip, tip - 1}; add(t2); }
        }
    // on-disk effects (file deletion, readability of what is kept) are observed in every 4th scenario
    for (size_t i = 0; i < v.size(); i++) v[i].real_files = (i % 4 == 0);
    return v;
}

// small list for the checkpoints where a file ends exactly at tip-287
std::vector<Scen> BoundaryScenarios(int tip)
{
    std::vector<Scen> v;
    for (int m : {tip, tip - 287, tip - 288, tip - 289}) { Scen s; s.mode = 1; s.manual = m; v.push_back(s); }
    for (int u : {3, 5}) { Scen s; s.mode = 0; s.usage = u; v.push_back(s); }
    { Scen s; s.mode = 0; s.usage = 5; s.locks = {tip - 277}; v.push_back(s); }   // lock whose buffer ends at tip-288
    { Scen s; s.mode = 0; s.usage = 5; s.locks = {tip - 276}; v.push_back(s); }
    { Scen s; s.mode = 1; s.manual = tip; s.locks = {tip - 287}; v.push_back(s); }
    for (size_t i = 0; i < v.size(); i++) v[i].real_files = (i % 4 == 0);
    return v;
}

} // namespace

int main(int argc, char** argv)
{
    vx::init(argc, argv, "C19", "exploration", 150, 1500);
    g_scratch = fs::PathFromString(vx::scratch_dir()) / fs::u8path("c19-" + std::to_string(getpid()));
    fs::create_directories(g_scratch);
    fs::create_directories(g_scratch / fs::u8path("empty"));
    auto& E = vx::ev();
    const bool big = vx::thorough();
    if (!vx::ctx().replay.empty()) {
        std::ifstream f(vx::ctx().replay);
        std::string line;
        while (std::getline(f, line)) if (line.rfind("scenario: ", 0) == 0) printf("replay: scenario '%s' (re-run the tier; scenarios are enumerated deterministically)\n", line.substr(10).c_str());
    }
    const std::vector<Layout> layouts = {{"small", false}, {"large", false}, {"shuffled", true}};
    // checkpoints per layout (the "large" layout has a file boundary at almost every height and gets all of them)
    auto tips_of = [&](const Layout& L) {
        if (big) return L.name == "large" ? std::set<int>{288, 289, 300, 400, 600, 700} : L.name == "small" ? std::set<int>{289, 400, 700} : std::set<int>{288, 300, 700};
        return L.name == "large" ? std::set<int>{400, 700} : std::set<int>{700};
    };
    const int MAXH = 700;
    std::map<std::string, uint64_t> counts;
    std::unordered_set<uint64_t> nontrivial;
    std::vector<std::string> samples;
    uint64_t jobs = 0;
    std::string layout_info;
    bool cut = false;

    const char* only = getenv("VX_C19_ONLY"); // diagnostics: "layout:tip"
    for (const Layout& L : layouts) {
        if (cut) break;
        if (only && std::string(only).find(L.name) == std::string::npos) continue;
        ck::NodeOpts o;
        o.extra_args = {"-fastprune", "-prune=550"};
        o.min_validation_cache = true;
        ck::Node node(o);
        SetMockTime(Params().GenesisBlock().nTime + 600 * 100000);
        {
            auto& bm = node.chainman().m_blockman;
            if (!bm.m_opts.fast_prune || !bm.IsPruneMode() || bm.GetPruneTarget() != 550 * MIB) { printf("HARNESS-ERROR C19 -fastprune/-prune did not reach the block manager\n"); return 2; }
        }
        std::set<int> done;
        int boundary_hits = 0;
        const std::set<int> TIPS = tips_of(L);
        auto checkpoint = [&]() {
            const int tip = node.height();
            if (done.count(tip) || cut) return;
            // besides the fixed tips: the first two tips at which some block file ends exactly at tip-287 (the oldest
            // block that must be kept) - the file before it is the newest one that may go
            bool boundary = false;
            if (!TIPS.count(tip)) {
                if (boundary_hits >= 2 || tip < 289) return;
                LOCK(cs_main);
                for (auto& fi : node.chainman().m_blockman.m_blockfile_info) if (fi.nSize && (int)fi.nHeightLast == tip - 287) boundary = true;
                if (!boundary) return;
                boundary_hits++;
            }
            if (only && std::string(only).find(":" + std::to_string(tip)) == std::string::npos) return;
            done.insert(tip);
            if (ck::ThreadCount() != 1) { printf("HARNESS-ERROR C19 process is not single-threaded before fork\n"); exit(2); }
            std::vector<Scen> sc = boundary ? BoundaryScenarios(tip) : Scenarios(tip, big);
            if (const char* mj = getenv("VX_C19_MAXJOBS")) sc.resize(std::min<size_t>(sc.size(), atoi(mj)));
            {
                // warm-up in the parent (first-use initialisation of filesystem/locale code is then inherited by the forks)
                fs::create_directories(g_scratch / fs::u8path("warm"));
                for (const auto& e : fs::directory_iterator(node.BlocksDir())) (void)e.is_regular_file();
                (void)Snapshot(node);
            }
            if (getenv("VX_C19_NOFORK")) { fp::Out out; out.fd = 2; RunScenario(node, L, sc[0], out); exit(0); }
            fp::Pool pool;
            pool.isolate_jobs = true;
            pool.workers = std::min<unsigned>(vx::ncpu(), 12);
            pool.run(sc.size(), [&](uint64_t j, fp::Out& out) { RunScenario(node, L, sc[j], out); },
                     [&](uint64_t j) { return "layout=" + L.name + " tip=" + std::to_string(tip) + " " + sc[j].str(); });
            for (auto& [k, v] : pool.counts) counts[k] += v;
            for (uint64_t h : pool.distinct["nontrivial"]) nontrivial.insert(h);
            for (auto& s : pool.samples) if (samples.size() < 10) samples.push_back(s);
            jobs += pool.jobs_done;
            if (!pool.complete) cut = true;
            {
                // the base node's own files must be untouched by the forked scenarios
                LOCK(cs_main);
                for (auto& [h, bi] : node.chainman().m_blockman.m_block_index) {
                    CBlock rd;
                    if ((bi.nStatus & BLOCK_HAVE_DATA) && !node.chainman().m_blockman.ReadBlock(rd, bi)) { printf("HARNESS-ERROR C19 base node block files were damaged by a scenario (height %d)\n", bi.nHeight); exit(2); }
                }
            }
            int files = 0;
            { LOCK(cs_main); for (auto& fi : node.chainman().m_blockman.m_blockfile_info) files += fi.nSize > 0; }
            printf("layout %s tip %d%s: %zu scenarios, %d block files, %.1fs\n", L.name.c_str(), tip, boundary ? " (file ends at tip-287)" : "", sc.size(), files, vx::elapsed());
        };
        if (!L.shuffled) {
            for (int h = 1; h <= MAXH && !cut; h++) {
                CBlock b = Build(node, node.tip(), PadFor(L, h), h);
                auto r = node.ProcessBlock(b);
                if (!r.pnb_ret || node.height() != h) { printf("HARNESS-ERROR C19 base block %d refused: %s\n", h, r.reason.c_str()); return 2; }
                checkpoint();
            }
        } else {
            // groups delivered in reverse order (headers first), a stale sibling every 25 blocks
            int h = 0;
            while (h < MAXH && !cut) {
                int end = std::min(MAXH, (h / 6 + 1) * 6);
                for (int t : TIPS) if (t > h && t < end) end = t;
                std::vector<CBlock> grp;
                const CBlockIndex* p = node.tip();
                for (int x = h + 1; x <= end; x++) {
                    CBlock b = Build(node, p, PadFor(L, x), x);
                    BlockValidationState st;
                    if (!node.ProcessHeader(b, st)) { printf("HARNESS-ERROR C19 header %d refused\n", x); return 2; }
                    if (x % 25 == 3) { CBlock sib = Build(node, p, 2500, 500000 + x); grp.push_back(sib); }
                    p = node.index_of(b.GetHash());
                    grp.push_back(b);
                }
                for (size_t i = grp.size(); i-- > 0;) node.ProcessBlock(grp[i]);
                if (node.height() != end) { printf("HARNESS-ERROR C19 shuffled group up to %d did not connect (height %d)\n", end, node.height()); return 2; }
                h = end;
                checkpoint();
            }
        }
        int files = 0, maxspan = 0;
        { LOCK(cs_main); for (auto& fi : node.chainman().m_blockman.m_blockfile_info) if (fi.nSize) { files++; maxspan = std::max<int>(maxspan, fi.nHeightLast - fi.nHeightFirst + 1); } }
        layout_info += L.name + ":" + std::to_string(files) + " files (max height span " + std::to_string(maxspan) + ") ";
    }
    std::error_code ec;
    fs::remove_all(g_scratch, ec);

    if (cut) E.exhaustive = false;
    E.evaluations = counts["scenarios"];
    E.distinct_nontrivial = nontrivial.size();
    for (auto& [k, v] : counts) E.set(k, v);
    E.set_str("layouts", layout_info);
    for (auto& s : samples) E.sample(s);
    E.rule = std::string("3 block-file layouts (64 KiB files: ~40 small blocks per file / 1-3 large blocks per file / reversed delivery in groups of 6 with stale siblings) x tips ") + (big ? "{288,289,300,400,600,700} (large) / {289,400,700} (small) / {288,300,700} (shuffled)" : "{400,700} (large) / {700}") + " x scenarios: " +
             (big ? "automatic pass at target 550 MiB x recorded usage {0.4T,T-20MiB,T-8MiB,T+1MiB,1.3T,3T} x prune-lock sets {none, each of 0,1,12,50,tip-300,tip-289,tip-288,tip-277,tip,INT_MAX, 3 pairs with 50} (+ snapshot base {110,299} x 3 lock sets, headers 3 ahead, targets 600/700); manual height {1,2,50,tip/2,tip-289,tip-288,tip-287,tip,tip+10} x {no lock, each single lock} (+ snapshot bases); reorg depth {1,2,3,15} x lock {tip..tip-3,tip-14..tip-16,50,INT_MAX}"
                  : "automatic pass at 550 MiB x usage {0.4T,T+1MiB,3T} x 5 lock sets x snapshot base {none,299} (+3 extra); manual height {1,tip-288,tip} x 3 lock sets x snapshot {none,110} (+2 extra); reorg depth {3,15} x lock {tip,tip-14,50}") +
             ", each followed (reorg) by 300 blocks of growth and a manual prune. At the first two tips per layout where a block file ends exactly at tip-287, 9 boundary scenarios (manual at tip/tip-287/tip-288/tip-289, over-target automatic passes, locks at tip-277/tip-276/tip-287). Every scenario runs in a fork of the node at that tip; every 4th one and all reorgs also check the files on disk. distinct_nontrivial = distinct scenarios in which files were removed or a lock/snapshot base was the binding constraint";
    E.assume("block-file sizes are scaled in metadata only (CBlockFileInfo nSize/nUndoSize) to reach usage levels around 550-700 MiB; the unvalidated snapshot chainstate is emulated by setting the chainstate's snapshot base hash and assumeutxo state (regtest's assumeutxo commitments belong to a different chain); the node is in initial block download (tip older than a day under mock time)");
    const char* miss = nullptr;
    if (!cut && vx::rep().violations == 0) {
        for (const char* k : {"auto_removed_some", "auto_removed_nothing", "manual_removed_some", "manual_removed_nothing", "auto_back_under_target", "auto_nothing_prunable_left", "lock_was_binding", "last288_was_binding", "snapshot_was_binding", "lock_moved_back", "blocks_pruned"})
            if (!counts[k]) miss = k;
        if (miss) { printf("HARNESS-ERROR property=C19 class never occurred: %s\n", miss); vx::finish(); return 2; }
    }
    (void)jobs;
    return vx::finish();
}
