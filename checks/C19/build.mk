LINK := full
KITS := chainkit
