LINK := full
KITS := chainkit
SCHED := 1
TSAN_SRCS := scheduler.cpp validationinterface.cpp
AUX_TSAN := aux/tsan_free.cpp
