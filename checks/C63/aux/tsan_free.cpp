// C63 auxiliary pass (NOT the deciding step): part (b)'s body free-running under the real ThreadSanitizer runtime.
#include <scheduler.h>
#include <validationinterface.h>
#include <logging.h>
#include <kernel/types.h>
#include <chain.h>
#include <primitives/block.h>
#include <uint256.h>
#include <cstdio>
#include <cstdlib>
#include <thread>
#include <memory>
#include <string>
#include <vector>

namespace b {
struct Sub : public CValidationInterface {
    std::vector<int> log;
    int in_cb = 0;
    bool overlap = false;
    bool after_unreg = false;
    bool unregistered = false;
    void enter() { if (in_cb) overlap = true; in_cb++; std::this_thread::yield(); }
    void leave() { in_cb--; }
    void UpdatedBlockTip(const CBlockIndex* pindexNew, const CBlockIndex*, bool) override
    {
        enter();
        if (unregistered) after_unreg = true;
        log.push_back(pindexNew->nHeight);
        leave();
    }
    void ChainStateFlushed(const kernel::ChainstateRole&, const CBlockLocator& loc) override
    {
        enter();
        if (unregistered) after_unreg = true;
        log.push_back(1000 + (int)loc.vHave.size());
        leave();
    }
};
struct Config {
    int service_threads;
    int events;        // UpdatedBlockTip events from the main producer
    bool second_producer;
    bool unregister_mid;
    std::string str() const { return "service_threads=" + std::to_string(service_threads) + " events=" + std::to_string(events) + " second_producer=" + std::to_string(second_producer) + " unregister_mid=" + std::to_string(unregister_mid); }
};
static uint64_t g_outcome;
static uint256 g_hash{1};
static std::string Body(const Config& c)
{
    std::string err;
    std::vector<CBlockIndex> idx(8);
    for (int i = 0; i < 8; i++) { idx[i].nHeight = i + 1; idx[i].phashBlock = &g_hash; }
    auto sub = std::make_shared<Sub>();
    {
        CScheduler sched;
        std::vector<std::thread> service;
        for (int i = 0; i < c.service_threads; i++) service.emplace_back([&] { sched.serviceQueue(); });
        {
            ValidationSignals signals(std::make_unique<SerialTaskRunner>(sched));
            signals.RegisterSharedValidationInterface(sub);
            std::thread producer2;
            if (c.second_producer) {
                producer2 = std::thread([&] {
                    kernel::ChainstateRole role{};
                    for (int k = 1; k <= 2; k++) {
                        CBlockLocator loc;
                        loc.vHave.resize(k);
                        signals.ChainStateFlushed(role, loc);
                    }
                });
            }
            for (int i = 0; i < c.events; i++) signals.UpdatedBlockTip(&idx[i], nullptr, false);
            signals.SyncWithValidationInterfaceQueue();
            // everything this thread enqueued before the sync must have run
            // (free-running: the subscriber's log may only be read while no other producer's callbacks can run)
            int seen_main = c.events;
            if (!c.second_producer) { seen_main = 0; for (int v : sub->log) if (v < 1000) seen_main++; }
            if (seen_main != c.events) err += "SyncWithValidationInterfaceQueue returned with " + std::to_string(seen_main) + " of " + std::to_string(c.events) + " earlier callbacks delivered; ";
            if (c.second_producer) { producer2.join(); signals.SyncWithValidationInterfaceQueue(); }
            if (c.unregister_mid) {
                signals.UnregisterSharedValidationInterface(sub);
                sub->unregistered = true;
                signals.UpdatedBlockTip(&idx[7], nullptr, false);
                signals.SyncWithValidationInterfaceQueue();
            } else {
                signals.SyncWithValidationInterfaceQueue();
            }
            sched.stop();
            for (auto& t : service) t.join();
            signals.FlushBackgroundCallbacks();
            signals.UnregisterAllValidationInterfaces();
        }
    }
    // oracle
    if (sub->overlap) err += "two callbacks of one subscriber ran at the same time; ";
    if (sub->after_unreg) err += "callback delivered after UnregisterSharedValidationInterface returned; ";
    int last_main = 0, last_second = 1000, n_main = 0, n_second = 0;
    for (int v : sub->log) {
        if (v < 1000) { if (v != last_main + 1) err += "UpdatedBlockTip callbacks out of order or duplicated (" + std::to_string(v) + " after " + std::to_string(last_main) + "); "; last_main = v; n_main++; }
        else { if (v != last_second + 1) err += "ChainStateFlushed callbacks out of order or duplicated; "; last_second = v; n_second++; }
    }
    if (n_main != c.events) err += "expected " + std::to_string(c.events) + " UpdatedBlockTip callbacks, got " + std::to_string(n_main) + "; ";
    if (c.second_producer && n_second != 2) err += "expected 2 ChainStateFlushed callbacks, got " + std::to_string(n_second) + "; ";
    g_outcome = 17;
    for (int v : sub->log) g_outcome = g_outcome * 131 + v;
    return err;
}
} // namespace b

int main(int argc, char** argv)
{
    int reps = argc > 1 ? atoi(argv[1]) : 20;
    LogInstance().DisableLogging();
    long runs = 0, bad = 0;
    for (int r = 0; r < reps; r++) {
        for (int st : {1, 2, 3})
            for (int ev : {2, 4})
                for (bool second : {false, true})
                    for (bool unreg : {false, true}) {
                        b::Config c{st, ev, second, unreg};
                        std::string e = b::Body(c);
                        if (!e.empty()) { bad++; fprintf(stderr, "ORACLE %s: %s\n", c.str().c_str(), e.c_str()); }
                        runs++;
                    }
        printf("TSAN-FREE-RUN runs=%ld oracle_failures=%ld\n", runs, bad);
        fflush(stdout);
    }
    return bad ? 3 : 0;
}
