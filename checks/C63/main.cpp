// C63 — Validation notifications describe exactly what happened, in order.
// (b) VX-SCHED: all schedules (<= k preemptions) of the real ValidationSignals + SerialTaskRunner + CScheduler
//     with TWO service threads and one or two producer threads; subscribers registered / unregistered.
//     Oracle: callbacks of one subscriber never overlap, arrive in enqueue order (per producer), exactly once;
//     SyncWithValidationInterfaceQueue returns only after everything enqueued before it ran; nothing is
//     delivered to a subscriber after its unregistration returned; no deadlock.
// (a) explicit-state search of the real node (chainsim): replaying BlockConnected / BlockDisconnected from the
//     base tip reproduces the node's tip after every event; callbacks carry the blocks actually (dis)connected.
#include <vx/sched.h>
#include <vx/tsanaux.h>
#include <kits/chainsim_main.h>
#include <scheduler.h>
#include <validationinterface.h>
#include <logging.h>
#include <kernel/types.h>
#include <kernel/mempool_entry.h>
#include <kernel/mempool_removal_reason.h>
#include <thread>

namespace b {
struct Sub : public CValidationInterface {
    std::vector<int> log;
    int in_cb = 0;
    bool overlap = false;
    bool after_unreg = false;
    bool unregistered = false;
    void enter() { if (in_cb) overlap = true; in_cb++; vxs_point("callback-body"); }
    void leave() { in_cb--; }
    void UpdatedBlockTip(const CBlockIndex* pindexNew, const CBlockIndex*, bool) override
    {
        enter();
        if (unregistered) after_unreg = true;
        log.push_back(pindexNew->nHeight);
        leave();
    }
    void ChainStateFlushed(const kernel::ChainstateRole&, const CBlockLocator& loc) override
    {
        enter();
        if (unregistered) after_unreg = true;
        log.push_back(1000 + (int)loc.vHave.size());
        leave();
    }
};
struct Config {
    int service_threads;
    int events;        // UpdatedBlockTip events from the main producer
    bool second_producer;
    bool unregister_mid;
    std::string str() const { return "service_threads=" + std::to_string(service_threads) + " events=" + std::to_string(events) + " second_producer=" + std::to_string(second_producer) + " unregister_mid=" + std::to_string(unregister_mid); }
};
static uint64_t g_outcome;
static uint256 g_hash{1};
static std::string Body(const Config& c)
{
    std::string err;
    std::vector<CBlockIndex> idx(8);
    for (int i = 0; i < 8; i++) { idx[i].nHeight = i + 1; idx[i].phashBlock = &g_hash; }
    auto sub = std::make_shared<Sub>();
    {
        CScheduler sched;
        std::vector<std::thread> service;
        for (int i = 0; i < c.service_threads; i++) service.emplace_back([&] { sched.serviceQueue(); });
        {
            ValidationSignals signals(std::make_unique<SerialTaskRunner>(sched));
            signals.RegisterSharedValidationInterface(sub);
            std::thread producer2;
            if (c.second_producer) {
                producer2 = std::thread([&] {
                    kernel::ChainstateRole role{};
                    for (int k = 1; k <= 2; k++) {
                        CBlockLocator loc;
                        loc.vHave.resize(k);
                        signals.ChainStateFlushed(role, loc);
                    }
                });
            }
            for (int i = 0; i < c.events; i++) signals.UpdatedBlockTip(&idx[i], nullptr, false);
            signals.SyncWithValidationInterfaceQueue();
            // everything this thread enqueued before the sync must have run
            int seen_main = 0;
            for (int v : sub->log) if (v < 1000) seen_main++;
            if (seen_main != c.events) err += "SyncWithValidationInterfaceQueue returned with " + std::to_string(seen_main) + " of " + std::to_string(c.events) + " earlier callbacks delivered; ";
            if (c.second_producer) { producer2.join(); signals.SyncWithValidationInterfaceQueue(); }
            if (c.unregister_mid) {
                signals.UnregisterSharedValidationInterface(sub);
                sub->unregistered = true;
                signals.UpdatedBlockTip(&idx[7], nullptr, false);
                signals.SyncWithValidationInterfaceQueue();
            } else {
                signals.SyncWithValidationInterfaceQueue();
            }
            sched.stop();
            for (auto& t : service) t.join();
            signals.FlushBackgroundCallbacks();
            signals.UnregisterAllValidationInterfaces();
        }
    }
    // oracle
    if (sub->overlap) err += "two callbacks of one subscriber ran at the same time; ";
    if (sub->after_unreg) err += "callback delivered after UnregisterSharedValidationInterface returned; ";
    int last_main = 0, last_second = 1000, n_main = 0, n_second = 0;
    for (int v : sub->log) {
        if (v < 1000) { if (v != last_main + 1) err += "UpdatedBlockTip callbacks out of order or duplicated (" + std::to_string(v) + " after " + std::to_string(last_main) + "); "; last_main = v; n_main++; }
        else { if (v != last_second + 1) err += "ChainStateFlushed callbacks out of order or duplicated; "; last_second = v; n_second++; }
    }
    if (n_main != c.events) err += "expected " + std::to_string(c.events) + " UpdatedBlockTip callbacks, got " + std::to_string(n_main) + "; ";
    if (c.second_producer && n_second != 2) err += "expected 2 ChainStateFlushed callbacks, got " + std::to_string(n_second) + "; ";
    g_outcome = 17;
    for (int v : sub->log) g_outcome = g_outcome * 131 + v;
    return err;
}
} // namespace b

// ---------------------------------------------------------------------------------------- (a) node-level recorder
namespace a {
struct Rec : public CValidationInterface {
    std::vector<uint256> chain; // replayed from callbacks
    std::set<uint256> pool;     // mempool content replayed from callbacks (txids)
    std::string err;
    // Property-level monitors only: a removal may only be reported for a transaction that was reported added and
    // not reported removed since; a transaction reported removed "for block" must be in that block. Completeness of
    // the notifications is checked separately in extra_check (replayed mempool == real mempool), which is sound only
    // because this part runs on a node that has left initial block download (MempoolTransactionsRemovedForBlock is
    // deliberately not fired during IBD).
    void TransactionAddedToMempool(const NewMempoolTransactionInfo& tx, uint64_t) override
    {
        pool.insert(tx.info.m_tx->GetHash().ToUint256());
    }
    void TransactionRemovedFromMempool(const CTransactionRef& tx, MemPoolRemovalReason, uint64_t) override
    {
        if (!pool.erase(tx->GetHash().ToUint256())) err += "TransactionRemovedFromMempool for " + tx->GetHash().ToString().substr(0, 10) + " which was never reported as added (or already reported removed); ";
    }
    void MempoolTransactionsRemovedForBlock(const std::shared_ptr<const CBlock>& block, const std::vector<RemovedMempoolTransactionInfo>& txs, unsigned int) override
    {
        for (auto& t : txs) {
            if (!pool.erase(t.info.m_tx->GetHash().ToUint256())) err += "MempoolTransactionsRemovedForBlock lists " + t.info.m_tx->GetHash().ToString().substr(0, 10) + " which was never reported as added (or already reported removed); ";
            bool in_block = false;
            for (auto& bt : block->vtx) in_block |= bt->GetHash() == t.info.m_tx->GetHash();
            if (!in_block) err += "MempoolTransactionsRemovedForBlock lists a transaction that is not in the block; ";
        }
    }
    void BlockConnected(const kernel::ChainstateRole&, const std::shared_ptr<const CBlock>& block, const CBlockIndex* pindex) override
    {
        if (block->GetHash() != pindex->GetBlockHash()) err += "BlockConnected: block does not match index; ";
        if (!chain.empty() && block->hashPrevBlock != chain.back()) err += "BlockConnected for " + block->GetHash().ToString().substr(0, 10) + " does not extend the tip implied by earlier notifications; ";
        chain.push_back(block->GetHash());
    }
    void BlockDisconnected(const std::shared_ptr<const CBlock>& block, const CBlockIndex* pindex) override
    {
        if (block->GetHash() != pindex->GetBlockHash()) err += "BlockDisconnected: block does not match index; ";
        if (chain.empty() || chain.back() != block->GetHash()) err += "BlockDisconnected for a block that is not the tip implied by earlier notifications; ";
        else chain.pop_back();
    }
};
} // namespace a

int main(int argc, char** argv)
{
    vx::init(argc, argv, "C63", "model_checking", 170, 1500);
    auto& E = vx::ev();
    bool big = vx::thorough();
    // ---- part (a): node-level, runs first (the process is still single-threaded here)
    static a::Rec* rec = nullptr;
    bool replay_is_history = false;
    if (!vx::ctx().replay.empty()) {
        std::ifstream f(vx::ctx().replay);
        std::string line;
        while (std::getline(f, line)) if (line.rfind("history: ", 0) == 0) replay_is_history = true;
    }
    if (vx::ctx().replay.empty() || replay_is_history) {
        int rc = cs::Explore("C63", {}, [](cs::Sim& s) {
            cs::Plan p;
            s.kinds = {"empty", "spend1", "merge2", "cb_plus1_empty"};
            s.parents = {"t0", "t1"};
            s.tx_kinds = {"spend1", "merge2"}; // the same transactions also enter through the mempool
            s.ev_flush = false; s.ev_invalidate = true; s.ev_reconsider = true;
            p.depth = vx::thorough() ? 4 : 3;
            s.max_new_blocks = p.depth;
            s.cursor_check = false;
            s.leave_ibd = true; // MempoolTransactionsRemovedForBlock is only fired outside initial block download
            p.budget_frac = 0.4;
            rec = new a::Rec();
            s.n.m_node.validation_signals->RegisterValidationInterface(rec);
            s.extra_check = [&s](const std::string& e) {
                if (!rec->err.empty()) { s.fs.report("C63-notification-inconsistent", "after '" + e + "': " + rec->err); rec->err.clear(); }
                // outside initial block download every way a transaction leaves the mempool is announced (RemovedFromMempool
                // with a reason, or RemovedForBlock), and every way it enters is (AddedToMempool): a transaction that
                // silently vanished or appeared was not "described"
                {
                    std::set<uint256> real;
                    for (auto& i : s.n.pool().infoAll()) real.insert(i.tx->GetHash().ToUint256());
                    for (auto& h : rec->pool) if (!real.count(h)) { s.fs.report("C63-mempool-removal-not-reported", "after '" + e + "': transaction " + h.ToString().substr(0, 10) + " left the mempool but no TransactionRemovedFromMempool / MempoolTransactionsRemovedForBlock notification reported it"); break; }
                    for (auto& h : real) if (!rec->pool.count(h)) { s.fs.report("C63-mempool-addition-not-reported", "after '" + e + "': transaction " + h.ToString().substr(0, 10) + " is in the mempool but no TransactionAddedToMempool notification reported it"); break; }
                    rec->pool = real; // resynchronise so one omission is reported once
                }
                if (!rec->chain.empty() && rec->chain.back() != s.n.tip()->GetBlockHash()) s.fs.report("C63-replayed-tip-differs", "after '" + e + "': replaying BlockConnected/BlockDisconnected gives tip " + rec->chain.back().ToString().substr(0, 12) + " but the node's tip is " + s.n.tip()->GetBlockHash().ToString().substr(0, 12));
            };
            p.what = "part (a) oracle: replaying BlockConnected/BlockDisconnected notifications (registered before the base chain is built) reproduces the node's tip after every event, and every mempool removal notification (RemovedFromMempool / RemovedForBlock) refers to a transaction that was reported added and not yet reported removed, and to a transaction of the named block; outside initial block download the mempool replayed from the notifications equals the real mempool after every event (transactions enter through ProcessTransaction, leave in blocks, return on reorgs; node outside IBD)";
            return p;
        });
        if (rc >= 0) return rc;
    }
    std::string rule_a = E.rule;
    uint64_t states_a = E.states.load(), trans_a = E.transitions.load();
    E.set("part_a_node_states", states_a);
    E.set("part_a_node_transitions", trans_a);
    // ---- part (b): schedules
    LogInstance().DisableLogging();
    std::vector<b::Config> cfgs;
    for (int st : {2, 1})
        for (int ev : big ? std::vector<int>{2, 3} : std::vector<int>{2})
            for (bool second : {false, true})
                for (bool unreg : {false, true}) {
                    if (!big && st == 1 && (second || !unreg)) continue;
                    cfgs.push_back({st, ev, second, unreg});
                }
    uint64_t total_exec = 0, total_points = 0, configs = 0;
    int distinct = 0;
    bool complete = true, herr = false;
    for (auto& c : cfgs) {
        if (vx::deadline_reached()) { complete = false; break; }
        vxs::Options o;
        o.max_preempt = big ? 2 : 1;
        o.free_switch = false; // deviations = any departure from the default scheduler (incl. which waiter wakes / who runs after a block)
        auto r = vxs::explore("C63b-signals[" + c.str() + "]", [&] { return b::Body(c); }, o, [] { return b::g_outcome; });
        total_exec += r.executions; total_points += r.choice_points; configs++;
        distinct += r.distinct_outcomes;
        complete &= r.complete; herr |= r.harness_error;
        E.sample("ValidationSignals " + c.str() + ": " + std::to_string(r.executions) + " schedules with <= " + std::to_string(o.max_preempt) + " preemptions, " + std::to_string(r.distinct_outcomes) + " distinct callback orders", 16);
        if (r.violations) break;
    }
    if (vx::ctx().replay.empty()) vx::RunTsanAux(argv[0], big ? 60 : 6, big ? 300 : 40, {"SerialTaskRunner", "CScheduler", "ValidationSignals", "b::Sub"}, "C63c");
    E.states += total_points;
    E.transitions += total_points;
    E.traces_validated += total_exec;
    E.set("schedules", total_exec);
    E.set("configurations", configs);
    E.set("distinct_outcomes", (uint64_t)distinct);
    E.exhaustive = complete;
    E.rule = rule_a + " || part (b): every schedule of producer(s) + scheduler service threads with at most the stated number of deviations from the default scheduler (preemption of a runnable thread, non-default thread picked at a blocking point, non-FIFO signal target, early timeout); scheduling points: pthread mutex/cond/create/join, futex wait/wake (std::promise/future), and before+after every std::atomic operation of scheduler.cpp / validationinterface.cpp / this harness; states = scheduling points reached";
    E.assume("sequentially consistent interleavings only");
    if (herr) return 2;
    return vx::finish();
}
