// C44 — Wallet balances match the chain and the mempool.
//
// Explicit-state search (fork per transition, vx::ForkSim) of a real descriptor CWallet attached to the in-process
// regtest node through interfaces::Chain notifications (kits/walletnode). Events: receive in a block / in the
// mempool, wallet sends (committed + submitted, or committed only), abandon, resubmit, mining (mempool / empty /
// coinbase to the wallet), a wallet coinbase crossing the maturity boundary (depth 99 -> 100 -> 101), double spends
// of wallet sends and of receives confirmed on a competing branch (reorg depth 1..3) or entering the mempool as a
// replacement, plain reorgs of depth 1..3 and re-activation of the abandoned branch.
// Oracle after every transition: GetBalance (trusted / untrusted pending / immature) and AvailableCoins (default and
// include_unsafe) == wn::RefView = direct scan of the reference ledger's UTXO set of the active chain and of the
// mempool for the wallet's scripts; TransactionCanBeAbandoned == "inactive by the reference".
#include <kits/walletnode.h>
#include <vx/forksim.h>

#include <chainparams.h>
#include <consensus/amount.h>
#include <util/time.h>
#include <wallet/receive.h>
#include <wallet/spend.h>

#include <fstream>

using namespace wn;

namespace {

enum Outcome { O_CONFLICTED = 0, O_ABANDONED, O_UNTRUSTED, O_CB_MATURED, O_REORG, O_RESERVED, O_TRUSTED_POOL, O_MEMPOOL_CONFLICT, O_IMMATURE_CHANGED, O_RESTORED, O_UNTRUSTED_FROM_ME, O_HARNESS_ERROR = 15 };

struct Sim {
    ck::Node& n;
    World w;
    vx::ForkSim fs;
    std::vector<std::string> alphabet;
    // deterministic address pools (created once, before the exploration)
    std::vector<CScript> recv_spk, change_spk, cb_spk;
    // history-dependent counters (part of the state key)
    int n_rb{0}, n_rm{0}, n_send{0}, n_cbw{0}, n_blocks{0};
    std::vector<Txid> sends, recvs;        // wallet sends / external receives in creation order
    std::map<Txid, CAmount> recv_funding;  // value of the external coin each receive spends
    Txid cb1;                              // the wallet coinbase that matures during the exploration
    int base_height{0};
    std::map<Txid, St> prev_status;
    std::optional<RefView> cur;            // view of the current state (valid until the next event is applied)
    RefView& Cur() { if (!cur) cur = w.View(); return *cur; }

    explicit Sim(ck::Node& node) : n(node), w(node) {}

    // ---------------------------------------------------------------------------------------- base state
    void Init()
    {
        w.Init();
        const OutputType types[] = {OutputType::BECH32, OutputType::BECH32M, OutputType::LEGACY, OutputType::P2SH_SEGWIT};
        for (int i = 0; i < 8; i++) recv_spk.push_back(w.wn->NewAddrSpk(types[i % 4]));
        for (int i = 0; i < 8; i++) change_spk.push_back(w.wn->NewChangeSpk(types[(i + 1) % 4]));
        for (int i = 0; i < 4; i++) cb_spk.push_back(w.wn->NewAddrSpk(types[i % 4]));
        // heights 1..10: anyone-can-spend coinbases (funding for the external payers); 11: coinbase to the wallet
        w.MineEmpty(10);
        uint256 cbh = w.MineTip({}, cb_spk[0]);
        cb1 = w.L.blocks.at(cbh).block.vtx[0]->GetHash();
        while (n.height() < 101) w.MineTip({});
        // three confirmed receives of different script types
        const CAmount vals[] = {1 * COIN, 2 * COIN, 4 * COIN};
        for (int i = 0; i < 3; i++) {
            auto ext = w.ExternalCoins();
            auto tx = World::Pay(ext.at(0), {{recv_spk[5 + i], vals[i]}});
            w.MineTip({tx});
        }
        while (n.height() < 109) w.MineTip({}); // the wallet coinbase of height 11 is now 99 deep
        base_height = n.height();
        RefView v = w.View();
        std::string d = w.Compare(v);
        if (!d.empty()) throw std::runtime_error("base state differs from the reference: " + d);
        if (v.trusted != 7 * COIN || v.immature != 50 * COIN) throw std::runtime_error("unexpected base balances");
        for (auto& [id, s] : v.status) prev_status[id] = s;
    }

    // ---------------------------------------------------------------------------------------- helpers
    int HeightOf(const uint256& h) { return w.L.Height(h); }
    uint256 Ancestor(uint256 h, int k) { while (k-- > 0) h = w.L.blocks.at(h).prev; return h; }
    bool OnActive(const uint256& h)
    {
        LOCK(cs_main);
        const CBlockIndex* pi = n.chainman().m_blockman.LookupBlockIndex(h);
        return pi && n.chainman().ActiveChain().Contains(*pi);
    }
    // block of the active chain that contains txid (null if none)
    uint256 BlockOf(const Txid& id)
    {
        uint256 h = n.tip()->GetBlockHash();
        for (int i = 0; i < 8 && !h.IsNull(); i++) {
            for (auto& tx : w.L.blocks.at(h).block.vtx) if (tx->GetHash() == id) return h;
            h = w.L.blocks.at(h).prev;
        }
        return uint256();
    }
    // best head that is not on the active chain: highest, then smallest hash
    std::optional<uint256> SideHead()
    {
        std::optional<uint256> best;
        for (auto& [h, rb] : w.L.blocks) {
            if (rb.height <= base_height - 4) continue;
            if (OnActive(h)) continue;
            bool has_child = false;
            for (auto& [h2, rb2] : w.L.blocks) { (void)h2; if (rb2.prev == h) has_child = true; }
            if (has_child) continue;
            if (!best || rb.height > HeightOf(*best) || (rb.height == HeightOf(*best) && h < *best)) best = h;
        }
        return best;
    }
    void ExtendUntilActive(uint256 head)
    {
        for (int i = 0; i < 16 && !OnActive(head); i++) { head = w.Mine(head, {}); n_blocks++; }
        if (!OnActive(head)) throw std::logic_error("competing branch did not become active");
    }
    // unsafe = true: the wallet spends the newest coin it holds that is NOT safe (an unconfirmed payment from a stranger,
    // or own change whose ancestor is one) together with the oldest safe coin: the result is a from-me mempool
    // transaction with an untrusted unconfirmed ancestor (untrusted pending, unsafe outputs)
    CTransactionRef BuildSend(const RefView& v, bool& ok, bool unsafe = false)
    {
        ok = false;
        std::vector<RefCoinOut> c = v.coins_safe;
        if (unsafe) {
            std::vector<RefCoinOut> u;
            for (auto& x : v.coins_all) if (!x.safe) u.push_back(x);
            if (u.empty()) return nullptr;
            auto pick = std::min_element(u.begin(), u.end(), [](const RefCoinOut& a, const RefCoinOut& b) { return a.op < b.op; });
            // depth -1 sorts it as the "newest" below
            RefCoinOut first = *pick;
            first.depth = -1;
            c.push_back(first);
        }
        if (c.empty()) return nullptr;
        auto newest = std::min_element(c.begin(), c.end(), [](const RefCoinOut& a, const RefCoinOut& b) { return a.depth != b.depth ? a.depth < b.depth : a.op < b.op; });
        auto oldest = std::max_element(c.begin(), c.end(), [](const RefCoinOut& a, const RefCoinOut& b) { return a.depth != b.depth ? a.depth < b.depth : a.op < b.op; });
        std::vector<RefCoinOut> ins{*newest};
        if (oldest->op != newest->op) ins.push_back(*oldest);
        CAmount total = 0;
        CMutableTransaction m;
        m.version = 2;
        for (auto& i : ins) { m.vin.emplace_back(i.op, CScript(), 0xfffffffd); total += i.value; }
        const CAmount fee = 5000;
        CAmount pay = total * 3 / 10;
        m.vout.emplace_back(pay, ck::OpTrueSpk());
        m.vout.emplace_back(total - pay - fee, change_spk[n_send % change_spk.size()]);
        if (!w.wn->Sign(m)) throw std::logic_error("wallet could not sign its own coins");
        ok = true;
        return MakeTransactionRef(m);
    }
    // most recent tx of `list` whose reference status is in `want`
    std::optional<Txid> Latest(const RefView& v, const std::vector<Txid>& list, std::initializer_list<St> want)
    {
        for (size_t i = list.size(); i-- > 0;) {
            auto s = v.status.find(list[i]);
            if (s == v.status.end()) continue;
            for (St x : want) if (s->second == x) return list[i];
        }
        return std::nullopt;
    }

    // the earliest wallet send / receive that can still be double-spent within a reorg of depth <= 3
    std::optional<Txid> Victim(const RefView& v, const std::vector<Txid>& list, bool mempool_only)
    {
        for (auto& id : list) {
            auto s = v.status.find(id);
            if (s == v.status.end()) continue;
            if (s->second == St::MEMPOOL) return id;
            if (mempool_only) continue;
            if (s->second == St::INACTIVE) return id;
            if (s->second == St::CONF && v.chain->tip_height - v.chain->conf_height.at(id) + 1 <= 3) return id;
        }
        return std::nullopt;
    }

    // ---------------------------------------------------------------------------------------- events
    std::vector<std::string> Events()
    {
        RefView& v = Cur();
        std::set<std::string> enabled;
        auto add = [&](const char* e) { enabled.insert(e); };
        if (n_rb < 2) add("RB");
        if (n_rm < 2) add("RM");
        if (!v.coins_safe.empty() && n_send < 4) { add("S"); add("SU"); }
        if (n_send < 4) for (auto& x : v.coins_all) if (!x.safe) { add("SX"); break; }
        if (Latest(v, w.order, {St::INACTIVE})) add("AB");
        if (Latest(v, w.order, {St::INACTIVE, St::ABANDONED})) add("RS");
        if (!v.pool.empty()) add("M");
        add("ME");
        if (n_cbw < 2) add("CBW");
        if (Victim(v, sends, false)) add("DS");
        if (Victim(v, sends, true)) add("DM");
        if (Victim(v, recvs, false)) add("DR");
        add("RO1"); add("RO2"); add("RO3");
        if (SideHead()) add("RX");
        std::vector<std::string> ev; // in the order of the alphabet (the search is depth-first: first events are explored first)
        for (auto& a : alphabet) if (enabled.count(a)) ev.push_back(a);
        return ev;
    }

    // conflicting block for a transaction that is confirmed in block B of the active chain: same parent, the
    // double spend first, then B's other transactions that do not depend on the victim
    void ConfirmConflict(const RefView& v, const Txid& victim, const CTransactionRef& dbl)
    {
        uint256 B = BlockOf(victim);
        if (B.IsNull()) {
            // victim unconfirmed: the double spend is mined on the tip together with its own unconfirmed ancestors
            std::vector<CTransactionRef> txs;
            std::set<Txid> have;
            std::function<void(const CTransaction&)> need = [&](const CTransaction& t) {
                for (auto& in : t.vin) {
                    auto k = w.known.find(in.prevout.hash);
                    if (k == w.known.end() || have.count(in.prevout.hash)) continue;
                    St s = v.status.at(in.prevout.hash);
                    if (s == St::CONF) continue;
                    need(*k->second.tx);
                    have.insert(in.prevout.hash);
                    txs.push_back(k->second.tx);
                }
            };
            need(*dbl);
            txs.push_back(dbl);
            if (!w.L.Fees(n.tip()->GetBlockHash(), txs)) return; // not minable (an ancestor is itself conflicted): no-op
            w.MineTip(txs);
            n_blocks++;
            return;
        }
        // victim confirmed in block B: sibling block with the double spend in the victim's place and without the victim's dependants
        const CBlock& blk = w.L.blocks.at(B).block;
        std::set<Txid> dropped{victim};
        std::vector<CTransactionRef> txs;
        for (size_t i = 1; i < blk.vtx.size(); i++) {
            const auto& tx = blk.vtx[i];
            if (tx->GetHash() == victim) { txs.push_back(dbl); continue; }
            bool dep = false;
            for (auto& in : tx->vin) if (dropped.count(in.prevout.hash)) dep = true;
            if (dep) { dropped.insert(tx->GetHash()); continue; }
            txs.push_back(tx);
        }
        uint256 parent = w.L.blocks.at(B).prev;
        if (!w.L.Fees(parent, txs)) return; // not valid on that parent: no-op
        uint256 X = w.Mine(parent, txs);
        n_blocks++;
        ExtendUntilActive(X);
    }

    void Apply(const std::string& e)
    {
        try {
            ApplyInner(e);
        } catch (const std::exception& ex) {
            fs.sh->outcome_classes[O_HARNESS_ERROR]++;
            fprintf(stderr, "HARNESS-ERROR in event %s after [%s]: %s\n", e.c_str(), fs.hist_str().c_str(), ex.what());
            fs.note_sample(std::string("HARNESS-ERROR in event ") + e + " after [" + fs.hist_str() + "]: " + ex.what());
        }
    }

    void ApplyInner(const std::string& e)
    {
        RefView v = Cur();
        cur.reset();
        uint256 tip_before = n.tip()->GetBlockHash();
        if (e == "RB" || e == "RM") {
            auto ext = w.ExternalCoins();
            bool blk = e == "RB";
            int k = blk ? n_rb : n_rm;
            CAmount val = (blk ? 8000000 : 32000000) * (k + 1);
            auto tx = World::Pay(ext.at(0), {{recv_spk[(blk ? 0 : 2) + k], val}});
            if (blk) { w.MineTip({tx}); n_blocks++; n_rb++; }
            else {
                auto r = w.Submit(tx);
                if (r.m_result_type != MempoolAcceptResult::ResultType::VALID) throw std::logic_error("external payment rejected by the mempool: " + r.m_state.ToString());
                n_rm++;
            }
            recvs.push_back(tx->GetHash());
            recv_funding[tx->GetHash()] = ext.at(0).value;
        } else if (e == "S" || e == "SU" || e == "SX") {
            bool ok;
            auto tx = BuildSend(v, ok, e == "SX");
            if (!ok) return;
            w.wn->Commit(tx);
            w.Note(tx);
            if (!w.known.count(tx->GetHash())) throw std::logic_error("send not relevant?");
            sends.push_back(tx->GetHash());
            n_send++;
            if (e != "SU") {
                auto r = w.Submit(tx);
                if (r.m_result_type != MempoolAcceptResult::ResultType::VALID) throw std::logic_error("wallet send rejected by the mempool: " + r.m_state.ToString());
            }
        } else if (e == "AB") {
            Txid id = *Latest(v, w.order, {St::INACTIVE});
            bool ok = w.W().AbandonTransaction(id);
            if (!ok) fs.report("C44-abandon-refused", "AbandonTransaction refused a transaction that is neither confirmed, in the mempool, conflicted nor abandoned: " + id.ToString());
            else {
                // the user action: the tx and its inactive descendants are abandoned
                std::set<Txid> marked{id};
                w.known.at(id).abandoned = true;
                bool more = true;
                while (more) {
                    more = false;
                    for (auto& [kid, k] : w.known) {
                        if (marked.count(kid) || v.status.at(kid) != St::INACTIVE) continue;
                        for (auto& in : k.tx->vin) if (marked.count(in.prevout.hash)) { k.abandoned = true; marked.insert(kid); more = true; break; }
                    }
                }
            }
        } else if (e == "RS") {
            Txid id = *Latest(v, w.order, {St::INACTIVE, St::ABANDONED});
            if (w.known.at(id).tx->IsCoinBase()) return;
            w.Submit(w.known.at(id).tx); // accepted or not: the reference looks at the mempool afterwards
        } else if (e == "M") {
            w.MineTip(MempoolTxs(n));
            n_blocks++;
        } else if (e == "ME") {
            w.MineTip({});
            n_blocks++;
        } else if (e == "CBW") {
            w.MineTip({}, cb_spk[1 + n_cbw]);
            n_cbw++;
            n_blocks++;
        } else if (e == "DS" || e == "DM") {
            Txid id = *Victim(v, sends, e == "DM");
            const CTransaction& t = *w.known.at(id).tx;
            CMutableTransaction m;
            m.version = 2;
            CAmount total = 0;
            for (auto& in : t.vin) {
                m.vin.emplace_back(in.prevout, CScript(), 0xfffffffd);
                const CTransaction& p = *w.known.at(in.prevout.hash).tx;
                total += p.vout[in.prevout.n].nValue;
            }
            m.vout.emplace_back(total - 40000, ck::OpTrueSpk());
            if (!w.wn->Sign(m)) throw std::logic_error("wallet could not sign the double spend");
            auto dbl = MakeTransactionRef(m);
            if (e == "DS") ConfirmConflict(v, id, dbl);
            else {
                auto r = w.Submit(dbl);
                if (r.m_result_type != MempoolAcceptResult::ResultType::VALID) throw std::logic_error("replacement rejected: " + r.m_state.ToString());
            }
        } else if (e == "DR") {
            Txid id = *Victim(v, recvs, false);
            const CTransaction& t = *w.known.at(id).tx;
            // the payer double-spends: same coin, nothing for the wallet
            auto dbl = World::Pay({t.vin[0].prevout, recv_funding.at(id), 0}, {}, 50000);
            ConfirmConflict(v, id, dbl);
        } else if (e == "RO1" || e == "RO2" || e == "RO3") {
            int k = e[2] - '0';
            uint256 fork = Ancestor(tip_before, k);
            uint256 h = fork;
            for (int i = 0; i < k + 1; i++) { h = w.Mine(h, {}); n_blocks++; }
            if (!OnActive(h)) throw std::logic_error("longer branch did not become active");
        } else if (e == "RX") {
            auto head = SideHead();
            if (!head) return;
            ExtendUntilActive(*head);
        } else {
            throw std::logic_error("unknown event " + e);
        }
        Check(e, tip_before);
    }

    // ---------------------------------------------------------------------------------------- oracle
    void Check(const std::string& e, const uint256& tip_before)
    {
        RefView& v = Cur();
        std::string d = w.Compare(v);
        if (!d.empty()) fs.report("C44-mismatch:" + e + ":" + d.substr(0, d.find(':')), "after '" + e + "': " + d + " | " + Describe(v));
        // abandonability == inactive by the reference
        for (auto& [id, s] : v.status) {
            bool can = w.W().TransactionCanBeAbandoned(id);
            if (can != (s == St::INACTIVE))
                fs.report(std::string("C44-can-abandon:") + StName(s), "after '" + e + "': TransactionCanBeAbandoned(" + id.ToString().substr(0, 10) + ")=" + (can ? "true" : "false") + " but the reference status is " + StName(s));
        }
        // outcome classes for the sanity gates
        auto& oc = fs.sh->outcome_classes;
        bool reorg = false;
        {
            uint256 tip = n.tip()->GetBlockHash();
            uint256 a = tip;
            bool found = false;
            for (int i = 0; i < 16 && !a.IsNull(); i++) { if (a == tip_before) found = true; a = w.L.blocks.at(a).prev; }
            reorg = !found;
        }
        if (reorg) oc[O_REORG]++;
        bool any_conf = false, any_ab = false, any_res = false, any_mc = false, restored = false;
        for (auto& [id, s] : v.status) {
            if (s == St::CONFLICTED) any_conf = true;
            if (s == St::ABANDONED && !w.known.at(id).tx->IsCoinBase()) any_ab = true;
            if (s == St::INACTIVE) { if (v.mempool_conflicted.count(id) && v.mempool_conflicted.at(id)) any_mc = true; else any_res = true; }
            auto p = prev_status.find(id);
            if (p != prev_status.end() && p->second == St::CONFLICTED && s != St::CONFLICTED) restored = true;
        }
        if (any_conf) oc[O_CONFLICTED]++;
        if (any_ab) oc[O_ABANDONED]++;
        if (any_res) oc[O_RESERVED]++;
        if (any_mc) oc[O_MEMPOOL_CONFLICT]++;
        if (restored) oc[O_RESTORED]++;
        if (v.untrusted_pending > 0) oc[O_UNTRUSTED]++;
        // a mempool transaction that spends wallet coins but is not trusted because an unconfirmed ancestor is not
        for (auto& [id, tx] : v.pool) {
            bool from_me = false;
            for (auto& in : tx->vin) {
                auto k = w.known.find(in.prevout.hash);
                if (k != w.known.end() && in.prevout.n < k->second.tx->vout.size() && w.wn->scripts.count(k->second.tx->vout[in.prevout.n].scriptPubKey)) from_me = true;
            }
            bool pays_me = false;
            for (auto& o : tx->vout) if (w.wn->scripts.count(o.scriptPubKey)) pays_me = true;
            if (from_me && pays_me && !v.Trusted(id)) { oc[O_UNTRUSTED_FROM_ME]++; break; }
        }
        for (auto& c : v.coins_safe) {
            if (c.op.hash == cb1) oc[O_CB_MATURED]++;
            if (c.depth == 0) oc[O_TRUSTED_POOL]++;
        }
        if (v.immature != 50 * COIN) oc[O_IMMATURE_CHANGED]++;
        prev_status.clear();
        for (auto& [id, s] : v.status) prev_status[id] = s;
    }

    std::string Describe(RefView& v)
    {
        std::string s = strprintf("tip h=%d pool=%u ref{trusted=%d pending=%d immature=%d} txs:", n.height(), (unsigned)v.pool.size(), v.trusted, v.untrusted_pending, v.immature);
        LOCK(w.W().cs_wallet);
        for (auto& id : w.order) {
            const wallet::CWalletTx* wtx = w.W().GetWalletTx(id);
            s += " " + id.ToString().substr(0, 8) + "=" + StName(v.status.at(id)) + "/" + (wtx ? wallet::TxStateString(wtx->m_state) : std::string("absent"));
        }
        return s;
    }

    uint64_t Key()
    {
        RefView& v = Cur();
        std::string k = n.tip()->GetBlockHash().ToString();
        for (auto& [id, tx] : v.pool) { (void)tx; k += "p" + id.ToString().substr(0, 16); }
        for (auto& id : w.order) {
            k += "k" + id.ToString().substr(0, 16) + std::to_string((int)v.status.at(id)) + (w.known.at(id).abandoned ? "a" : "-");
            LOCK(w.W().cs_wallet);
            const wallet::CWalletTx* wtx = w.W().GetWalletTx(id);
            if (wtx) k += std::to_string(wtx->m_state.index()) + (wtx->isAbandoned() ? "A" : "-") + std::to_string(wtx->mempool_conflicts.size());
        }
        for (auto& id : sends) k += "s" + id.ToString().substr(0, 8);
        for (auto& id : recvs) k += "r" + id.ToString().substr(0, 8);
        k += strprintf("|%d,%d,%d,%d|", n_rb, n_rm, n_send, n_cbw);
        // blocks that exist but are not active (they matter for RX and for sibling numbering)
        for (auto& [h, rb] : w.L.blocks) if (rb.height > base_height - 4 && !OnActive(h)) k += "x" + h.ToString().substr(0, 16);
        wallet::Balance b = wallet::GetBalance(w.W());
        k += strprintf("b%d,%d,%d", b.m_mine_trusted, b.m_mine_untrusted_pending, b.m_mine_immature);
        for (auto& c : v.coins_all) k += "c" + c.op.ToString().substr(0, 20) + (c.safe ? "s" : "u");
        return vx::fnv1a(k);
    }
};

} // namespace

int main(int argc, char** argv)
{
    vx::init(argc, argv, "C44", "model_checking", 110, 1300); // in-flight transitions finish after the deadline: leave slack below the hard limits (150 s / 25 min)
    vx::scratch_dir();
    auto& E = vx::ev();
    const bool big = vx::thorough();
    ck::NodeOpts nopts;
    nopts.min_validation_cache = true;      // 32 MiB of signature / script caches would be copied page by page in every fork
    nopts.mempool_check_ratio = getenv("C44_POOLCHECK") ? 1 : 0;
    ck::Node node(wn::DeferredOpts(nopts));
    Sim sim(node);
    sim.Init();
    if (ck::ThreadCount() != 1) { printf("HARNESS-ERROR process is not single-threaded (%d threads): fork exploration would be unsound\n", ck::ThreadCount()); return 2; }

    const std::vector<std::string> full{"S", "DS", "RO1", "RM", "SX", "SU", "AB", "DM", "RX", "M", "RB", "DR", "ME", "CBW", "RS", "RO2", "RO3"};
    sim.alphabet = full;
    if (const char* a = getenv("C44_ALPHABET")) {
        sim.alphabet.clear();
        std::istringstream is(a);
        std::string t;
        while (is >> t) sim.alphabet.push_back(t);
    }
    int depth = big ? 6 : 4;
    if (const char* d = getenv("C44_DEPTH")) depth = atoi(d);

    if (!vx::ctx().replay.empty()) {
        std::ifstream f(vx::ctx().replay);
        std::string line, hist;
        while (std::getline(f, line)) if (line.rfind("history: ", 0) == 0) hist = line.substr(9);
        sim.fs.sh = new vx::ForkShared();
        sim.fs.log_fd = 1;
        size_t pos = 0;
        while (pos < hist.size()) {
            size_t e = hist.find(" | ", pos);
            std::string ev = hist.substr(pos, e == std::string::npos ? std::string::npos : e - pos);
            sim.fs.hist.push_back(ev);
            sim.Apply(ev);
            RefView v = sim.w.View();
            printf("replay: %s -> %s\n", ev.c_str(), sim.Describe(v).c_str());
            if (e == std::string::npos) break;
            pos = e + 3;
        }
        printf("replay done: reports=%d\n", (int)sim.fs.sh->violations.load());
        return sim.fs.sh->violations.load() ? 1 : 0;
    }

    // iterative deepening: every bound is explored completely before the next one starts; a deadline cuts the
    // current bound only, the last completed bound is what the evidence reports.
    sim.fs.split_depth = 1;
    sim.fs.events = [&] { return sim.Events(); };
    sim.fs.apply = [&](const std::string& e) { sim.Apply(e); };
    sim.fs.key = [&] { return sim.Key(); };
    sim.fs.on_worker_start = [&](unsigned wk) { node.RepointBlocksDir(node.BlocksDir().parent_path() / ("w" + std::to_string(wk))); };
    struct Plan { int depth; std::vector<std::string> alphabet; };
    std::vector<Plan> plans;
    const std::vector<std::string> chosen = sim.alphabet;
    for (int d = std::min(big ? 3 : 2, depth); d <= std::min(depth, big ? 5 : 4); d++) plans.push_back({d, chosen});
    // thorough: depth 6 over the events that create, conflict and restore wallet transactions
    if (big && depth >= 6 && chosen == full) plans.push_back({6, {"RM", "SX", "S", "M", "AB", "DS", "DM", "RO1", "RX"}});
    uint64_t done_states = 0, done_trans = 0, oc_done[16] = {0};
    int done_depth = 0;
    std::string done_alphabet;
    bool harness_error = false;
    for (auto& pl : plans) {
        if (vx::deadline_reached()) { E.exhaustive = false; break; }
        sim.alphabet = pl.alphabet;
        sim.fs.max_depth = pl.depth;
        E.states = 0; E.transitions = 0; E.traces_validated = 0;
        sim.fs.run();
        if (getenv("C44_TIMING")) fprintf(stderr, "[timing] bound %d done at %.2fs: states=%llu transitions=%llu\n", pl.depth, vx::elapsed(), (unsigned long long)E.states.load(), (unsigned long long)E.transitions.load());
        if (sim.fs.sh->outcome_classes[O_HARNESS_ERROR].load()) harness_error = true;
        if (sim.fs.sh->deadline_hit.load() || vx::rep().violations || harness_error) {
            // partial bound: counted on top of the completed ones (they are real transitions), but not "completed"
            if (!done_depth) { done_states = E.states; done_trans = E.transitions; }
            break;
        }
        if (pl.depth == 6) {
            // a separate exploration over a sub-alphabet: add to the depth-5 numbers
            done_states += E.states; done_trans += E.transitions;
            for (int i = 0; i < 16; i++) oc_done[i] += sim.fs.sh->outcome_classes[i].load();
            E.set("depth6_subalphabet_states", E.states.load());
            E.set("depth6_subalphabet_transitions", E.transitions.load());
            std::string a6;
            for (auto& a : pl.alphabet) a6 += a + " ";
            E.set_str("depth6_subalphabet", a6);
            done_depth = 6;
        } else {
            done_states = E.states; done_trans = E.transitions;
            for (int i = 0; i < 16; i++) oc_done[i] = sim.fs.sh->outcome_classes[i].load();
            done_depth = pl.depth;
        }
    }
    E.states = done_states; E.transitions = done_trans; E.traces_validated = done_trans;
    sim.alphabet = chosen;
    const bool complete = done_depth == depth;
    if (!complete) E.exhaustive = false;
    uint64_t* oc = oc_done;
    std::string al;
    for (auto& a : sim.alphabet) al += a + " ";
    E.rule = "explicit-state search (fork per transition) of a real CWallet attached to the regtest node; state = canonical (tip, mempool, reference status + wallet state of every wallet tx, balances, spendable coins, side-branch blocks, per-kind counters); transition = one event applied through the real entry points (ProcessNewBlock, mempool ProcessTransaction, CommitTransaction, AbandonTransaction), after each of which GetBalance, AvailableCoins (default, include_unsafe) and TransactionCanBeAbandoned are compared with the ledger/mempool scan";
    E.assume("regtest, in-memory DBs, validation signals queued as in production (SerialTaskRunner) and drained on the calling thread after every node call; no scheduler thread, so the process is single-threaded (fork() is a sound snapshot)");
    E.assume("wallet sends are hand-built from the reference's spendable set (newest + oldest coin, RBF signalling), signed by the wallet, committed with CommitTransaction and submitted through the node's mempool (the wallet itself cannot broadcast: no PeerManager in the harness)");
    E.assume("wallet attached at genesis with keys born at the genesis time; default wallet options (spend zero-conf change on, avoid-reuse off)");
    E.set_str("alphabet", al);
    E.set("depth", (uint64_t)depth);
    E.set("max_depth_completed", (uint64_t)done_depth);
    const char* names[] = {"states_with_conflicted_tx", "states_with_abandoned_tx", "states_with_untrusted_pending", "states_with_matured_wallet_coinbase", "transitions_with_reorg", "states_with_reserved_inactive_tx", "states_with_trusted_mempool_coin", "states_with_mempool_conflicted_tx", "states_with_changed_immature_balance", "transitions_restoring_a_conflicted_tx", "states_with_untrusted_from_me_mempool_tx"};
    for (int i = 0; i < 11; i++) E.set(names[i], oc[i]);
    E.sample("events: RB/RM receive in block/mempool, S send (commit+submit), SX send spending the newest unsafe coin (unconfirmed foreign payment) + oldest safe coin, SU send (commit only), AB abandon latest inactive, RS resubmit latest inactive/abandoned, M mine mempool, ME mine empty, CBW coinbase to wallet, DS/DR double spend of latest send/receive confirmed on a competing branch (reorg as deep as the victim), DM double spend replaces the latest send in the mempool, RO1-3 reorg to an empty branch, RX re-activate the abandoned branch");
    E.sample("example history: S | M | DS | RX  (send confirmed, double spend confirmed on a competing branch: send conflicted, inputs restored to the double spend; old branch re-activated: send confirmed again)");
    if (harness_error) {
        vx::write_evidence();
        printf("HARNESS-ERROR events failed inside the harness (see stderr / samples in evidence)\n");
        for (auto& s : E.samples) if (s.find("HARNESS-ERROR") != std::string::npos) printf("  %s\n", s.c_str());
        return 2;
    }
    if (complete && depth >= 4 && sim.alphabet == full && vx::rep().violations == 0) {
        for (int i = 0; i < 11; i++)
            if (oc[i] == 0) { printf("HARNESS-ERROR outcome class '%s' never occurred: vacuous exploration\n", names[i]); vx::write_evidence(); return 2; }
    }
    return vx::finish();
}
