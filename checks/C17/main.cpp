// C17 — Stored blocks and undo data read back intact or fail loudly.
//
// Part A (round trips over operation sequences): a real BlockManager with -fastprune file sizes (64 KiB block
//   files, 16 KiB chunks) on a fresh directory, blocksdir XOR key off and on. All histories up to depth D over
//   {WriteBlock of 5 size classes (tiny, 20 KiB, exactly fills the file, one byte too many, larger than a
//   file), WriteBlockUndo of 3 size classes (1 byte, 30 KiB, > 64 KiB), FlushChainstateBlockFile +
//   WriteBlockIndexDB, PruneOneBlockFile+UnlinkPrunedFiles, clean restart (flush, WriteBlockIndexDB, destroy the
//   BlockManager, re-create it on the same directory and block tree database, LoadBlockIndexDB)}, plus directed
//   histories beyond the depth bound. After each history: ReadBlock(index), ReadBlock(pos),
//   ReadRawBlock (whole + part range classes), ReadBlockUndo must return byte-identical data; records must tile
//   their files without overlap and agree with CBlockFileInfo; the bytes on disk (de-obfuscated by a 1-line
//   independent XOR) must be magic|size|payload(|sha256d(prevhash|payload)) at the indexed position; pruned
//   blocks must fail to read.
// Part B (fault enumeration on a real regtest node, ck::Node): every byte x {bit0, bit7} flip, every truncation
//   length and every zeroed tail of three stored block records and three undo records.
//   ReadBlock(index) must fail or return a block hashing to the indexed hash; when it returns different
//   transaction bytes the block must never become part of the active chain (tip disconnected beforehand,
//   ReconsiderBlock re-reads it from disk; run in a fork). ReadBlockUndo must fail on every change of the
//   payload/checksum bytes and never return different data.
#include <vx/vx.h>
#include <fcntl.h>
#include <sys/resource.h>
#include <kits/chainkit.h>
#include <kits/forkpool.h>

#include <chainparams.h>
#include <consensus/merkle.h>
#include <hash.h>
#include <helpers/memenv/memenv.h>
#include <kernel/messagestartchars.h>
#include <leveldb/env.h>
#include <node/blockstorage.h>
#include <node/kernel_notifications.h>
#include <pow.h>
#include <streams.h>
#include <undo.h>
#include <util/fs.h>
#include <util/time.h>

using node::BlockManager;
using Bytes = std::vector<unsigned char>;

static const unsigned FILE_MAX = 0x10000; // -fastprune block file size

template <typename T> static Bytes Ser(const T& t)
{
    DataStream s;
    s << t;
    Bytes b(s.size());
    if (s.size()) memcpy(b.data(), s.data(), s.size());
    return b;
}
static Bytes SerBlock(const CBlock& b) { return Ser(TX_WITH_WITNESS(b)); }
static Bytes ReadFile(const fs::path& p)
{
    Bytes b;
    FILE* f = fopen(fs::PathToString(p).c_str(), "rb");
    if (!f) return b;
    fseek(f, 0, SEEK_END);
    long n = ftell(f);
    fseek(f, 0, SEEK_SET);
    b.resize(n > 0 ? (size_t)n : 0);
    if (n > 0 && fread(b.data(), 1, (size_t)n, f) != (size_t)n) b.clear();
    fclose(f);
    return b;
}
static void WriteFile(const fs::path& p, const Bytes& b)
{
    std::ofstream f(fs::PathToString(p), std::ios::binary | std::ios::trunc);
    f.write((const char*)b.data(), b.size());
}
// independent de-obfuscation: plain[i] = disk[i] ^ key[i mod 8], i = offset in the file
static Bytes Plain(const Bytes& disk, size_t off, size_t n, const Bytes& key)
{
    Bytes o;
    if (off + n > disk.size()) return o;
    o.resize(n);
    for (size_t i = 0; i < n; i++) o[i] = disk[off + i] ^ key[(off + i) % 8];
    return o;
}
static Bytes LE32(uint32_t v) { return Bytes{(unsigned char)v, (unsigned char)(v >> 8), (unsigned char)(v >> 16), (unsigned char)(v >> 24)}; }
static Bytes Cat2(Bytes a, const Bytes& b) { a.insert(a.end(), b.begin(), b.end()); return a; }
static Bytes Sha256d(const Bytes& a)
{
    uint256 h = Hash(a);
    return Bytes(h.begin(), h.end());
}

// =========================================================================================== Part A
enum Op { W_TINY, W_MID, W_FIT, W_SPILL, W_OVER, U_EMPTY, U_BIG, U_HUGE, FLUSH, PRUNE, RESTART, N_OPS /* enumerated alphabet ends here */, W_AHEAD = N_OPS, REINDEX, N_ALL_OPS };
static const char* OP_NAME[N_ALL_OPS] = {"Wtiny", "Wmid", "Wfit", "Wspill", "Wover", "Uempty", "Ubig", "Uhuge", "flush", "prune", "restart", "Wahead", "reindex"};

static std::string HistStr(const std::vector<int>& h)
{
    std::string s;
    for (size_t i = 0; i < h.size(); i++) s += (i ? " " : "") + std::string(OP_NAME[h[i]]);
    return s;
}

struct MBlock {
    int height{0};
    Bytes bytes;
    uint256 hash, prev;
    CBlockIndex* idx{nullptr};
    bool have_data{false}, have_undo{false}, pruned{false};
    FlatFilePos pos;      // as returned by WriteBlock
    FlatFilePos undo_pos; // as recorded in the index by WriteBlockUndo
    Bytes undo_bytes;
};

struct Built { CBlock block; Bytes bytes; uint256 hash; };

struct PartA {
    ck::Node& node;
    fs::path root;
    bool use_xor{false};
    Bytes key = Bytes(8, 0);
    std::vector<CBlockHeader> spine; // spine[h] for h = 0..D : header-only chain giving every stored block a parent entry
    std::map<std::pair<int, unsigned>, Built> cache;
    std::map<int, CBlockUndo> undo_cache;
    int max_height{8};

    PartA(ck::Node& n, const fs::path& r, bool x) : node(n), root(r), use_xor(x)
    {
        if (use_xor) key = Bytes{0x5a, 0x01, 0xff, 0x80, 0x33, 0xc4, 0x07, 0xe9};
        const CBlock& g = Params().GenesisBlock();
        spine.push_back(static_cast<const CBlockHeader&>(g));
        for (int h = 1; h <= max_height; h++) {
            CBlockHeader hd;
            hd.nVersion = 0x20000000;
            hd.hashPrevBlock = spine.back().GetHash();
            hd.hashMerkleRoot = uint256{(uint8_t)h};
            hd.nTime = g.nTime + 600 * h;
            hd.nBits = g.nBits;
            hd.nNonce = 0;
            ck::Grind(hd, Params().GetConsensus());
            spine.push_back(hd);
        }
    }

    // a deserialisable block of exactly n serialized bytes at height h (child of spine[h-1])
    Built Build(int h, unsigned n)
    {
        CMutableTransaction cb;
        cb.version = 2;
        cb.vin.resize(1);
        cb.vin[0].prevout.SetNull();
        cb.vin[0].scriptSig = CScript() << h << OP_0;
        cb.vout.resize(2);
        cb.vout[0].nValue = 50 * COIN;
        cb.vout[1].nValue = 0;
        CBlock b;
        b.nVersion = 0x20000000;
        b.hashPrevBlock = spine[h - 1].GetHash();
        b.nTime = spine[h].nTime;
        b.nBits = spine[h].nBits;
        b.vtx.push_back(MakeTransactionRef(cb));
        unsigned base = GetSerializeSize(TX_WITH_WITNESS(b)); // both scripts empty (1-byte lengths)
        if (n < base) throw std::logic_error("C17: block size below minimum");
        bool done = false;
        for (unsigned l1 = 0; l1 <= 12 && !done; l1++) {
            for (unsigned vl : {1u, 3u, 5u}) {
                long l0 = (long)n - (long)base - (long)l1 - (long)(vl - 1);
                if (l0 < 0) continue;
                unsigned need = l0 < 253 ? 1 : l0 < 65536 ? 3 : 5;
                if (need != vl) continue;
                Bytes s0((size_t)l0, 0), s1(l1, 0x51);
                for (size_t i = 0; i < s0.size(); i++) s0[i] = (unsigned char)((i * 131 + h * 17 + (i >> 8)) & 0xff);
                if (!s0.empty()) s0[0] = OP_RETURN;
                cb.vout[0].scriptPubKey = CScript(s0.begin(), s0.end());
                cb.vout[1].scriptPubKey = CScript(s1.begin(), s1.end());
                done = true;
                break;
            }
        }
        if (!done) throw std::logic_error("C17: cannot hit block size");
        b.vtx[0] = MakeTransactionRef(cb);
        b.hashMerkleRoot = BlockMerkleRoot(b);
        ck::Grind(b, Params().GetConsensus());
        Built r;
        r.bytes = SerBlock(b);
        if (r.bytes.size() != n) throw std::logic_error("C17: built block has wrong size");
        r.hash = b.GetHash();
        r.block = std::move(b);
        return r;
    }
    const Built& Cached(int h, unsigned n)
    {
        auto k = std::make_pair(h, n);
        auto it = cache.find(k);
        if (it == cache.end()) it = cache.emplace(k, Build(h, n)).first;
        return it->second;
    }
    const CBlockUndo& Undo(int cls)
    {
        auto it = undo_cache.find(cls);
        if (it != undo_cache.end()) return it->second;
        CBlockUndo u;
        int ncoins = cls == U_EMPTY ? 0 : cls == U_BIG ? 3 : 7;
        if (ncoins) {
            // two txs: one coin in the first, the rest in the second; long bare scripts (<= 10000 bytes), one coinbase coin
            u.vtxundo.resize(2);
            for (int i = 0; i < ncoins; i++) {
                Bytes s(9900 + i, 0);
                for (size_t k = 0; k < s.size(); k++) s[k] = (unsigned char)((k * 7 + i * 29 + (k >> 7)) & 0xff);
                Coin c(CTxOut(1000 + 12345678 * (CAmount)i, CScript(s.begin(), s.end())), 1 + 1000 * i, i == 1);
                u.vtxundo[i == 0 ? 0 : 1].vprevout.push_back(c);
            }
        }
        return undo_cache.emplace(cls, std::move(u)).first->second;
    }

    // ---------------------------------------------------------------- one history on a fresh BlockManager
    struct Run {
        std::unique_ptr<BlockManager> bm;
        std::vector<MBlock> blocks; // stored blocks in write order
        int cur_file{0};
        unsigned cur_fill{0};
        std::set<int> pruned_files;
        int restarts{0}, reindexed{0};
        bool ok{true};
    };

    // returns false if some op of the history is not enabled (the history is not part of the space)
    bool Execute(const std::vector<int>& hist, fp::Out& out, bool verify)
    {
        fs::remove_all(root);
        fs::create_directories(root);
        if (use_xor) WriteFile(root / "xor.dat", key);
        std::unique_ptr<leveldb::Env> env{leveldb::NewMemEnv(leveldb::Env::Default())};
        auto make_bm = [&] {
        BlockManager::Options opts{
            .chainparams = Params(),
            .use_xor = use_xor,
            .prune_target = 1,
            .fast_prune = true,
            .blocks_dir = root,
            .notifications = *node.m_node.notifications,
            // the block tree database lives in a LevelDB memory environment owned by this history, so that it
            // survives the "restart" operation (destroy the BlockManager, re-create it, LoadBlockIndexDB)
            .block_tree_db_params = DBParams{.path = root / "index", .cache_bytes = 0, .memory_only = false, .testing_env = env.get()},
        };
        return std::make_unique<BlockManager>(*node.m_node.shutdown_signal, std::move(opts));
        };
        Run r;
        r.bm = make_bm();
        LOCK(cs_main);
        CBlockIndex* best = nullptr;
        for (auto& hd : spine) r.bm->AddToBlockIndex(hd, best);
        const std::string H = HistStr(hist);
        auto fail = [&](const std::string& key_, const std::string& what) {
            out.violation("A-" + key_ + (use_xor ? "-xor" : ""), what + " (xor=" + std::to_string(use_xor) + ", history: " + H + ")", "partA xor=" + std::to_string(use_xor) + "\nhistory: " + H);
        };
        for (size_t step = 0; step < hist.size(); step++) {
            int op = hist[step];
            BlockManager& bm = *r.bm;
            if (op == RESTART) {
                // clean shutdown (what FlushStateToDisk does for block storage), then a new BlockManager on the same
                // directory and block tree database
                if (!r.blocks.empty() && !bm.FlushChainstateBlockFile(r.blocks.back().height)) { fail("flush-failed", "FlushChainstateBlockFile failed"); return true; }
                bm.WriteBlockIndexDB();
                r.bm.reset();
                r.bm = make_bm();
                if (!r.bm->LoadBlockIndexDB({})) { fail("restart-load-failed", "LoadBlockIndexDB failed after a clean restart at step " + std::to_string(step)); return true; }
                best = nullptr;
                bool lost = false;
                for (auto& m : r.blocks) {
                    m.idx = r.bm->LookupBlockIndex(m.hash);
                    if (!m.idx) { fail("restart-index-entry-lost", "block index entry of h" + std::to_string(m.height) + " is missing after a restart"); lost = true; }
                }
                if (lost) return true;
                r.restarts++;
                continue;
            }
            if (op == REINDEX) {
                // -reindex: the block files stay, the index is rebuilt from them. A fresh BlockManager with an empty
                // block tree database gets every stored record through UpdateBlockInfo() in the order
                // LoadExternalBlockFile() indexes them: parents first, i.e. by height (a block stored before its
                // parent is parked until the parent was read), not by position in the file. Undo data is rewritten
                // when the blocks are connected again, so no block has undo data afterwards.
                if (r.blocks.empty()) return false;
                if (!bm.FlushChainstateBlockFile(r.blocks.back().height)) { fail("flush-failed", "FlushChainstateBlockFile failed"); return true; }
                r.bm.reset();
                env.reset(leveldb::NewMemEnv(leveldb::Env::Default()));
                r.bm = make_bm();
                best = nullptr;
                for (auto& hd : spine) r.bm->AddToBlockIndex(hd, best);
                r.blocks.erase(std::remove_if(r.blocks.begin(), r.blocks.end(), [](const MBlock& m) { return m.pruned; }), r.blocks.end());
                std::vector<MBlock*> order;
                for (auto& m : r.blocks) order.push_back(&m);
                std::sort(order.begin(), order.end(), [](const MBlock* a, const MBlock* b) { return a->height < b->height; });
                for (MBlock* m : order) {
                    CBlock blk;
                    SpanReader{std::span<const unsigned char>(m->bytes)} >> TX_WITH_WITNESS(blk);
                    r.bm->UpdateBlockInfo(blk, m->height, m->pos);
                    CBlockIndex* b2 = best;
                    CBlockIndex* idx = r.bm->AddToBlockIndex(static_cast<const CBlockHeader&>(blk), b2);
                    idx->nFile = m->pos.nFile;
                    idx->nDataPos = m->pos.nPos;
                    idx->nTx = 1;
                    idx->nStatus |= BLOCK_HAVE_DATA;
                    m->idx = idx;
                    m->have_undo = false;
                    m->undo_bytes.clear();
                    m->undo_pos = FlatFilePos();
                }
                // the write cursor of the reference model: end of the last record of the highest-numbered file
                r.cur_file = 0;
                for (auto& m : r.blocks) r.cur_file = std::max(r.cur_file, m.pos.nFile);
                r.cur_fill = 0;
                for (auto& m : r.blocks) if (m.pos.nFile == r.cur_file) r.cur_fill = std::max<unsigned>(r.cur_fill, m.pos.nPos + m.bytes.size());
                r.reindexed++;
                continue;
            }
            if (op <= W_OVER || op == W_AHEAD) {
                // the lowest height not stored yet; Wahead stores the one after it first (out-of-order arrival)
                std::set<int> have;
                for (auto& m : r.blocks) have.insert(m.height);
                int h = 1;
                while (have.count(h)) h++;
                if (op == W_AHEAD) { h++; if (have.count(h)) return false; }
                if (h > max_height) return false;
                unsigned n;
                if (op == W_TINY || op == W_AHEAD) n = 160;
                else if (op == W_MID) n = 20000;
                else if (op == W_OVER) n = 70000;
                else {
                    long want = (long)(op == W_FIT ? FILE_MAX - 1 : FILE_MAX) - 8 - (long)r.cur_fill;
                    if (want < 160) return false;
                    n = (unsigned)want;
                }
                Built tmp;
                const Built* b;
                if (op == W_FIT || op == W_SPILL) { tmp = Build(h, n); b = &tmp; }
                else b = &Cached(h, n);
                FlatFilePos pos = bm.WriteBlock(b->block, h);
                if (pos.IsNull()) { fail("writeblock-null", "WriteBlock returned a null position at step " + std::to_string(step)); return true; }
                CBlockIndex* best2 = best;
                CBlockIndex* idx = bm.AddToBlockIndex(static_cast<const CBlockHeader&>(b->block), best2);
                // what ReceivedBlockTransactions records
                idx->nFile = pos.nFile;
                idx->nDataPos = pos.nPos;
                idx->nTx = 1;
                idx->nStatus |= BLOCK_HAVE_DATA;
                MBlock m;
                m.height = h; m.bytes = b->bytes; m.hash = b->hash; m.prev = b->block.hashPrevBlock; m.idx = idx; m.have_data = true; m.pos = pos;
                r.blocks.push_back(std::move(m));
                r.cur_file = pos.nFile;
                r.cur_fill = pos.nPos + n;
            } else if (op <= U_HUGE) {
                MBlock* t = nullptr;
                for (auto& m : r.blocks) if (m.have_data && !m.have_undo && (!t || m.height < t->height)) t = &m; // connect order: lowest height first
                if (!t) return false;
                const CBlockUndo& u = Undo(op);
                BlockValidationState st;
                if (!bm.WriteBlockUndo(u, st, *t->idx)) { fail("writeundo-failed", "WriteBlockUndo failed at step " + std::to_string(step)); return true; }
                t->have_undo = true;
                t->undo_bytes = Ser(u);
                t->undo_pos = t->idx->GetUndoPos();
                if (!(t->idx->nStatus & BLOCK_HAVE_UNDO) || t->undo_pos.IsNull()) { fail("writeundo-index", "WriteBlockUndo did not record the undo position in the index"); return true; }
            } else if (op == FLUSH) {
                if (r.blocks.empty()) return false;
                if (!bm.FlushChainstateBlockFile(r.blocks.back().height)) { fail("flush-failed", "FlushChainstateBlockFile failed"); return true; }
                bm.WriteBlockIndexDB(); // FlushStateToDisk writes dirty block index and file info records as well
            } else if (op == PRUNE) {
                int f = -1;
                for (auto& m : r.blocks) if (m.have_data && m.pos.nFile != r.cur_file && (f < 0 || m.pos.nFile < f)) f = m.pos.nFile;
                if (f < 0) return false;
                bm.PruneOneBlockFile(f);
                bm.UnlinkPrunedFiles({f});
                r.pruned_files.insert(f);
                for (auto& m : r.blocks) if (m.have_data && m.pos.nFile == f) { m.have_data = false; m.have_undo = false; m.pruned = true; }
            }
        }
        if (verify) Verify(r, hist, out, fail);
        return true;
    }

    template <typename F> void Verify(Run& r, const std::vector<int>& hist, fp::Out& out, F& fail)
    {
        BlockManager& bm = *r.bm;
        const auto magic = Params().MessageStart();
        const Bytes magic_b(magic.begin(), magic.end());
        std::map<int, std::vector<std::pair<unsigned, unsigned>>> blk_ranges, undo_ranges; // file -> [start,end)
        std::map<int, Bytes> blk_disk, rev_disk;
        auto disk = [&](std::map<int, Bytes>& m, const char* prefix, int f) -> const Bytes& {
            auto it = m.find(f);
            if (it == m.end()) it = m.emplace(f, ReadFile(root / fs::u8path(strprintf("%s%05u.dat", prefix, f)))).first;
            return it->second;
        };
        uint64_t reads = 0;
        for (auto& m : r.blocks) {
            const std::string tag = "h" + std::to_string(m.height);
            CBlock blk;
            if (m.pruned) {
                if (bm.ReadBlock(blk, *m.idx)) fail("pruned-block-readable", "ReadBlock succeeds for a block whose file was pruned (" + tag + ")");
                CBlockUndo u;
                if (bm.ReadBlockUndo(u, *m.idx)) fail("pruned-undo-readable", "ReadBlockUndo succeeds for a block whose file was pruned (" + tag + ")");
                if (m.idx->nStatus & (BLOCK_HAVE_DATA | BLOCK_HAVE_UNDO)) fail("pruned-flags", "BLOCK_HAVE_DATA/UNDO still set after pruning (" + tag + ")");
                reads += 2;
                continue;
            }
            const size_t n = m.bytes.size();
            // ReadBlock through the index and through the position
            if (!bm.ReadBlock(blk, *m.idx)) fail("readblock-index-failed", "ReadBlock(index) failed for an intact block " + tag + " size " + std::to_string(n));
            else if (SerBlock(blk) != m.bytes) fail("readblock-index-differs", "ReadBlock(index) returned different bytes for " + tag);
            if (m.idx->GetBlockPos().nFile != m.pos.nFile || m.idx->GetBlockPos().nPos != m.pos.nPos) fail("index-pos", "index position differs from WriteBlock's result for " + tag);
            CBlock blk2;
            if (!bm.ReadBlock(blk2, m.pos, std::nullopt) || SerBlock(blk2) != m.bytes) fail("readblock-pos", "ReadBlock(pos) failed or differs for " + tag);
            CBlock blk3;
            if (bm.ReadBlock(blk3, m.pos, uint256{1})) fail("readblock-wrong-hash-accepted", "ReadBlock(pos, other hash) succeeded for " + tag);
            // ReadRawBlock whole and parts
            auto raw = bm.ReadRawBlock(m.pos);
            if (!raw || raw->size() != n || memcmp(raw->data(), m.bytes.data(), n) != 0) fail("readraw-whole", "ReadRawBlock(whole) failed or differs for " + tag);
            const std::pair<size_t, size_t> good[] = {{0, 1}, {0, n}, {n - 1, 1}, {1, n - 1}, {80, n - 80}, {81, 7}, {n / 2, n - n / 2}};
            for (auto [off, sz] : good) {
                auto p = bm.ReadRawBlock(m.pos, std::make_pair(off, sz));
                if (!p || p->size() != sz || memcmp(p->data(), m.bytes.data() + off, sz) != 0)
                    fail("readraw-part", "ReadRawBlock(part " + std::to_string(off) + "," + std::to_string(sz) + ") failed or differs for " + tag + " size " + std::to_string(n));
            }
            const std::pair<size_t, size_t> bad[] = {{0, 0}, {n, 1}, {0, n + 1}, {n - 1, 2}, {SIZE_MAX, 2}, {1, SIZE_MAX}};
            for (auto [off, sz] : bad) {
                auto p = bm.ReadRawBlock(m.pos, std::make_pair(off, sz));
                if (p) fail("readraw-badpart-accepted", "ReadRawBlock accepted the out-of-range part (" + std::to_string(off) + "," + std::to_string(sz) + ") for " + tag);
                else if (p.error() != node::ReadRawError::BadPartRange) fail("readraw-badpart-error", "ReadRawBlock reported an I/O error instead of a bad range for " + tag);
            }
            reads += 4 + 7 + 6;
            // bytes on disk at the indexed position
            {
                const Bytes& d = disk(blk_disk, "blk", m.pos.nFile);
                Bytes want = Cat2(Cat2(magic_b, LE32((uint32_t)n)), m.bytes);
                if (m.pos.nPos < 8 || Plain(d, m.pos.nPos - 8, want.size(), key) != want) fail("disk-block-record", "bytes on disk at the indexed position are not magic|size|block for " + tag);
                blk_ranges[m.pos.nFile].push_back({m.pos.nPos - 8, m.pos.nPos + (unsigned)n});
            }
            CBlockUndo u;
            if (m.have_undo) {
                if (!bm.ReadBlockUndo(u, *m.idx)) fail("readundo-failed", "ReadBlockUndo failed for intact undo data of " + tag + " size " + std::to_string(m.undo_bytes.size()));
                else if (Ser(u) != m.undo_bytes) fail("readundo-differs", "ReadBlockUndo returned different data for " + tag);
                if (m.idx->GetUndoPos().nFile != m.undo_pos.nFile || m.idx->GetUndoPos().nPos != m.undo_pos.nPos) fail("undo-pos-moved", "undo position in the index changed for " + tag);
                if (m.undo_pos.nFile != m.pos.nFile) fail("undo-file", "undo data is not in the rev file matching the block file for " + tag);
                const Bytes& d = disk(rev_disk, "rev", m.undo_pos.nFile);
                Bytes prev(m.prev.begin(), m.prev.end());
                Bytes want = Cat2(Cat2(Cat2(magic_b, LE32((uint32_t)m.undo_bytes.size())), m.undo_bytes), Sha256d(Cat2(prev, m.undo_bytes)));
                if (m.undo_pos.nPos < 8 || Plain(d, m.undo_pos.nPos - 8, want.size(), key) != want) fail("disk-undo-record", "bytes on disk are not magic|size|undo|sha256d(prevhash|undo) for " + tag);
                undo_ranges[m.undo_pos.nFile].push_back({m.undo_pos.nPos - 8, m.undo_pos.nPos + (unsigned)m.undo_bytes.size() + 32});
            } else {
                if (bm.ReadBlockUndo(u, *m.idx)) fail("readundo-absent-succeeds", "ReadBlockUndo succeeded although no undo data was written for " + tag);
            }
            reads++;
        }
        // file level: records tile [0, nSize) / [0, nUndoSize); heights and counts agree
        std::string layout;
        uint64_t usage = 0;
        std::set<int> files;
        for (auto& [f, v] : blk_ranges) files.insert(f);
        for (int f : r.pruned_files) files.insert(f);
        for (int f : files) {
            kernel::CBlockFileInfo* fi = bm.GetBlockFileInfo(f);
            auto tile = [&](std::vector<std::pair<unsigned, unsigned>> v, unsigned total, const char* what) {
                std::sort(v.begin(), v.end());
                unsigned at = 0;
                for (auto& [a, b] : v) {
                    if (a != at) { fail(std::string("tiling-") + what, strprintf("%s records of file %d do not tile: gap/overlap at %u (expected %u)", what, f, a, at)); return; }
                    at = b;
                }
                if (at != total) fail(std::string("fileinfo-size-") + what, strprintf("%s size in CBlockFileInfo of file %d is %u, records end at %u", what, f, total, at));
            };
            tile(blk_ranges[f], fi->nSize, "block");
            tile(undo_ranges[f], fi->nUndoSize, "undo");
            unsigned cnt = 0, hmin = UINT_MAX, hmax = 0;
            for (auto& m : r.blocks) if (m.have_data && m.pos.nFile == f) { cnt++; hmin = std::min<unsigned>(hmin, m.height); hmax = std::max<unsigned>(hmax, m.height); }
            if (fi->nBlocks != cnt) fail("fileinfo-nblocks", strprintf("file %d nBlocks=%u, stored %u", f, fi->nBlocks, cnt));
            if (cnt && (fi->nHeightFirst != hmin || fi->nHeightLast != hmax)) fail("fileinfo-heights", strprintf("file %d heights %u..%u, stored %u..%u", f, fi->nHeightFirst, fi->nHeightLast, hmin, hmax));
            if (cnt) {
                if (disk(blk_disk, "blk", f).size() < fi->nSize) fail("file-shorter-than-info", strprintf("blk file %d is shorter than nSize", f));
                if (fi->nUndoSize && disk(rev_disk, "rev", f).size() < fi->nUndoSize) fail("revfile-shorter-than-info", strprintf("rev file %d is shorter than nUndoSize", f));
            } else {
                if (fs::exists(root / fs::u8path(strprintf("blk%05u.dat", f))) || fs::exists(root / fs::u8path(strprintf("rev%05u.dat", f)))) fail("pruned-file-exists", strprintf("file %d still exists after pruning", f));
            }
            usage += fi->nSize + fi->nUndoSize;
            layout += strprintf("%d:%u/%u/%u;", f, cnt, fi->nSize, fi->nUndoSize);
        }
        if (bm.CalculateCurrentUsage() != usage) fail("usage", "CalculateCurrentUsage differs from the sum over files");
        out.count("A_reads", reads);
        out.count("A_histories");
        out.count(strprintf("A_files_%d", (int)std::min<size_t>(files.size(), 4)));
        bool undo_in_left_file = false, big_undo_gt_block = false;
        for (auto& m : r.blocks) if (m.have_undo && m.undo_pos.nFile != r.cur_file) undo_in_left_file = true;
        for (int f : files) { auto* fi = bm.GetBlockFileInfo(f); if (fi->nUndoSize > fi->nSize && fi->nSize) big_undo_gt_block = true; }
        if (undo_in_left_file) out.count("A_undo_in_finalized_file");
        if (big_undo_gt_block) out.count("A_undo_larger_than_blocks");
        if (!r.pruned_files.empty()) out.count("A_pruned");
        if (r.restarts) out.count("A_restarted");
        if (r.reindexed) out.count("A_reindexed");
        if (files.size() >= 2) out.distinct(use_xor ? "layoutx" : "layout", layout);
        (void)hist;
    }
};

// Directed histories beyond the enumeration depth (both tiers). D1 is the stale-file-info scenario: undo data is
// written into the rev file of a block file that is no longer current, after that file's info record was already
// persisted; a restart then reloads the file info; the next undo record for that file must not overwrite anything.
static const std::vector<std::vector<int>> DIRECTED = {
    {W_TINY, W_TINY, W_TINY, U_EMPTY, W_OVER, FLUSH, U_BIG, RESTART, U_EMPTY},
    {W_TINY, W_TINY, W_TINY, U_EMPTY, RESTART, U_BIG, RESTART, U_EMPTY},
    {W_MID, W_MID, W_MID, W_SPILL, U_BIG, FLUSH, U_BIG, RESTART, U_HUGE, RESTART, U_BIG},
    {W_TINY, W_OVER, U_EMPTY, U_HUGE, RESTART, W_TINY, U_EMPTY, PRUNE, RESTART, W_TINY, U_EMPTY},
    {W_FIT, W_TINY, U_HUGE, RESTART, U_EMPTY, FLUSH, RESTART, W_TINY, U_BIG},
    {W_TINY, W_TINY, W_OVER, W_TINY, U_EMPTY, U_BIG, FLUSH, U_EMPTY, U_EMPTY, RESTART, W_MID, U_BIG, RESTART, W_SPILL, U_EMPTY},
    // reindex family: blocks stored out of height order (B1, B3, B2), index rebuilt through UpdateBlockInfo in height
    // order (the record at the lower position is indexed last), then more writes: nothing stored may be overwritten
    {W_TINY, W_AHEAD, W_TINY, REINDEX, W_TINY},
    {W_MID, W_AHEAD, W_MID, W_AHEAD, W_TINY, REINDEX, W_MID, U_EMPTY, U_BIG},
    {W_TINY, W_AHEAD, W_TINY, U_EMPTY, U_EMPTY, FLUSH, REINDEX, U_EMPTY, W_OVER, W_TINY, U_BIG},
    {W_MID, W_MID, W_AHEAD, W_MID, W_SPILL, REINDEX, W_TINY, RESTART, W_TINY, U_EMPTY},
    {W_AHEAD, W_TINY, REINDEX, W_FIT, W_TINY, REINDEX, W_TINY},
    {W_TINY, W_AHEAD, W_OVER, W_AHEAD, W_TINY, PRUNE, REINDEX, W_TINY, W_TINY},
};

static uint64_t ipow(uint64_t b, int e) { uint64_t r = 1; while (e-- > 0) r *= b; return r; }

// enumerate every history of length 1..depth; jobs = prefixes of length `split`
static bool RunPartA(ck::Node& node, const fs::path& scratch, bool use_xor, int depth, int split, fp::Pool& pool)
{
    if (split > depth) split = depth;
    const uint64_t nprefix = ipow(N_OPS, split);
    auto decode = [&](uint64_t j, int len) { std::vector<int> h(len); for (int i = len - 1; i >= 0; i--) { h[i] = j % N_OPS; j /= N_OPS; } return h; };
    pool.run(
        nprefix + 1 + DIRECTED.size(),
        [&](uint64_t job, fp::Out& out) {
            PartA a(node, scratch / fs::u8path(strprintf("a%d", (int)getpid())), use_xor);
            if (job > nprefix) {
                const auto& h = DIRECTED[job - nprefix - 1];
                out.count(a.Execute(h, out, true) ? "A_directed" : "A_directed_not_enabled");
                fs::remove_all(a.root);
                return;
            }
            std::function<void(std::vector<int>&)> dfs = [&](std::vector<int>& h) {
                if (!a.Execute(h, out, true)) return; // some op not enabled: not a history of the space
                if ((int)h.size() >= depth) return;
                for (int op = 0; op < N_OPS; op++) { h.push_back(op); dfs(h); h.pop_back(); }
            };
            if (job == nprefix) {
                // the short histories (length < split)
                std::function<void(std::vector<int>&)> sh = [&](std::vector<int>& h) {
                    if (!h.empty() && !a.Execute(h, out, true)) return;
                    if ((int)h.size() + 1 >= split) return;
                    for (int op = 0; op < N_OPS; op++) { h.push_back(op); sh(h); h.pop_back(); }
                };
                std::vector<int> h;
                if (split > 1) sh(h);
            } else {
                std::vector<int> h = decode(job, split);
                // every proper prefix must be executable, else this prefix is outside the space
                bool ok = true;
                for (int l = 1; l < split && ok; l++) { std::vector<int> p(h.begin(), h.begin() + l); ok = a.Execute(p, out, false); }
                if (ok) dfs(h);
            }
            fs::remove_all(a.root);
        },
        [&](uint64_t job) { return "partA xor=" + std::to_string(use_xor) + " prefix " + (job > nprefix ? "directed " + HistStr(DIRECTED[job - nprefix - 1]) : job == nprefix ? std::string("(short histories)") : HistStr(decode(job, split))); });
    return pool.complete;
}

// =========================================================================================== Part B
struct Rec {
    std::string name;
    const CBlockIndex* idx{nullptr};
    uint256 hash;
    int file{0};
    unsigned start{0}, end{0}; // record incl. the 8-byte storage header, [start,end) in the file
    Bytes orig;                // serialized block / undo
    bool undo{false};
    bool connect_test{false};
};
struct Fault { int rec; char kind; unsigned off; unsigned char mask; }; // kind: 'f' flip, 't' truncate file at off, 'z' zero [off,end)

static std::string FaultStr(const std::vector<Rec>& recs, const Fault& f)
{
    const Rec& r = recs[f.rec];
    return strprintf("%s %s rel=%u%s", r.name, f.kind == 'f' ? "flip" : f.kind == 't' ? "truncate-at" : "zero-from", f.off - r.start, f.kind == 'f' ? strprintf(" mask=%02x", f.mask) : "");
}
// in-place fault injection on an open file (cheap: the rev files are 1 MiB of preallocation)
struct FileMut {
    int fd{-1};
    const Bytes* pristine{nullptr};
    size_t data_end{0}; // one past the last non-zero byte of the pristine file
    void Open(const fs::path& p, const Bytes& pr)
    {
        fd = ::open(fs::PathToString(p).c_str(), O_RDWR);
        if (fd < 0) throw std::runtime_error("C17: cannot open " + fs::PathToString(p));
        pristine = &pr;
        data_end = pr.size();
        while (data_end > 0 && pr[data_end - 1] == 0) data_end--;
    }
    void Close() { if (fd >= 0) ::close(fd); fd = -1; }
    void PW(const unsigned char* p, size_t n, size_t off) { if (n && ::pwrite(fd, p, n, (off_t)off) != (ssize_t)n) throw std::runtime_error("C17: pwrite failed"); }
    void Apply(const Rec& r, const Fault& f)
    {
        if (f.kind == 'f') { unsigned char c = (*pristine)[f.off] ^ f.mask; PW(&c, 1, f.off); }
        else if (f.kind == 't') { if (::ftruncate(fd, f.off) != 0) throw std::runtime_error("C17: ftruncate failed"); }
        else { Bytes z(r.end - f.off, 0); PW(z.data(), z.size(), f.off); }
    }
    void Restore(const Rec& r, const Fault& f)
    {
        if (f.kind == 'f') PW(pristine->data() + f.off, 1, f.off);
        else if (f.kind == 't') {
            if (::ftruncate(fd, (off_t)pristine->size()) != 0) throw std::runtime_error("C17: ftruncate failed");
            if (data_end > f.off) PW(pristine->data() + f.off, data_end - f.off, f.off);
        } else PW(pristine->data() + f.off, r.end - f.off, f.off);
    }
    void Heal()
    {
        if (::ftruncate(fd, (off_t)pristine->size()) != 0) throw std::runtime_error("C17: ftruncate failed");
        PW(pristine->data(), data_end, 0);
    }
};
static const char* BlockRegion(unsigned rel, unsigned n)
{
    (void)n;
    if (rel < 4) return "magic";
    if (rel < 8) return "size";
    if (rel < 88) return "header";
    return "txs";
}
static const char* UndoRegion(unsigned rel, unsigned n)
{
    if (rel < 4) return "magic";
    if (rel < 8) return "size";
    if (rel < 8 + n) return "payload";
    return "checksum";
}

struct PartB {
    ck::Node& n;
    ck::RefLedger L;
    bool use_xor;
    std::vector<Rec> recs;
    std::map<int, Bytes> blk_pristine, rev_pristine;
    uint256 x1, x2;
    Bytes key = Bytes(8, 0);
    std::vector<Fault> connect_jobs;

    PartB(ck::Node& node, bool x) : n(node), use_xor(x) {}

    fs::path File(bool undo, int f) { return n.BlocksDir() / fs::u8path(strprintf("%s%05u.dat", undo ? "rev" : "blk", f)); }

    void Setup()
    {
        L.AddGenesis(Params().GenesisBlock());
        SetMockTime(Params().GenesisBlock().nTime + 600 * 100000);
        auto hs = ck::MineEmpty(n, L, 101);
        auto coin_of = [&](const uint256& bh) { const CBlock& b = L.blocks.at(bh).block; return std::make_pair(COutPoint(b.vtx[0]->GetHash(), 0), b.vtx[0]->vout[0].nValue); };
        auto [op1, v1] = coin_of(hs[0]);
        auto [op2, v2] = coin_of(hs[1]);
        auto t1 = ck::SpendTx({op1}, {v1 / 2, v1 - v1 / 2 - 1000});
        ck::BlockOpts o1; o1.fees = 1000;
        CBlock b1 = ck::MakeBlock(n, n.tip(), {t1}, o1);
        L.Add(b1);
        if (!n.ProcessBlock(b1).pnb_ret || n.tip()->GetBlockHash() != b1.GetHash()) throw std::runtime_error("C17: X1 not accepted");
        auto t2 = ck::SpendTx({COutPoint(t1->GetHash(), 0), op2}, {v1 / 2 + v2 - 500});
        ck::BlockOpts o2; o2.fees = 500;
        CBlock b2 = ck::MakeBlock(n, n.tip(), {t2}, o2);
        L.Add(b2);
        if (!n.ProcessBlock(b2).pnb_ret || n.tip()->GetBlockHash() != b2.GetHash()) throw std::runtime_error("C17: X2 not accepted");
        x1 = b1.GetHash(); x2 = b2.GetHash();
        n.Flush();
        Bytes k = ReadFile(n.BlocksDir() / "xor.dat");
        if (k.size() != 8) throw std::runtime_error("C17: xor.dat missing");
        key = k;
        bool nonzero = false;
        for (auto c : key) nonzero |= c != 0;
        if (nonzero != use_xor) throw std::runtime_error("C17: XOR key mode is not the requested one");
        auto add = [&](const std::string& name, const uint256& bh, bool connect) {
            const CBlockIndex* idx = n.index_of(bh);
            FlatFilePos bp, up;
            { LOCK(cs_main); bp = idx->GetBlockPos(); up = idx->GetUndoPos(); }
            CBlock blk;
            if (!n.chainman().m_blockman.ReadBlock(blk, *idx)) throw std::runtime_error("C17: cannot read intact block");
            if (SerBlock(blk) != SerBlock(L.blocks.at(bh).block)) throw std::runtime_error("C17: intact block differs from what was delivered");
            CBlockUndo u;
            if (!n.chainman().m_blockman.ReadBlockUndo(u, *idx)) throw std::runtime_error("C17: cannot read intact undo");
            Rec rb; rb.name = name + "-block"; rb.idx = idx; rb.hash = bh; rb.file = bp.nFile; rb.orig = SerBlock(blk); rb.start = bp.nPos - 8; rb.end = bp.nPos + rb.orig.size(); rb.connect_test = connect;
            Rec ru; ru.name = name + "-undo"; ru.idx = idx; ru.hash = bh; ru.file = up.nFile; ru.orig = Ser(u); ru.start = up.nPos - 8; ru.end = up.nPos + ru.orig.size() + 32; ru.undo = true;
            recs.push_back(rb);
            recs.push_back(ru);
            if (!blk_pristine.count(bp.nFile)) blk_pristine[bp.nFile] = ReadFile(File(false, bp.nFile));
            if (!rev_pristine.count(up.nFile)) rev_pristine[up.nFile] = ReadFile(File(true, up.nFile));
        };
        if (!n.chainman().m_blockman.m_opts.fast_prune) throw std::runtime_error("C17: -fastprune not in effect");
        add("mid50", hs[49], false);
        add("x1", x1, true);
        add("x2", x2, true);
        // the undo data the reference ledger predicts for X2: the two spent coins
        {
            CBlockUndo u;
            n.chainman().m_blockman.ReadBlockUndo(u, *n.index_of(x2));
            auto ref = L.UtxoAt(x1);
            bool ok = ref && u.vtxundo.size() == 1 && u.vtxundo[0].vprevout.size() == 2;
            for (int i = 0; ok && i < 2; i++) {
                auto it = ref->find(t2->vin[i].prevout);
                const Coin& c = u.vtxundo[0].vprevout[i];
                ok = it != ref->end() && c.out.nValue == it->second.value && c.out.scriptPubKey == it->second.spk && (int)c.nHeight == it->second.height && (bool)c.fCoinBase == it->second.coinbase;
            }
            if (!ok) vx::violation("B-undo-content", "undo data stored for X2 is not the two coins it spends (per the reference ledger)", "partB setup");
        }
        // on-disk format of the intact records (independent de-obfuscation)
        const auto magic = Params().MessageStart();
        const Bytes magic_b(magic.begin(), magic.end());
        for (auto& r : recs) {
            const Bytes& d = r.undo ? rev_pristine[r.file] : blk_pristine[r.file];
            Bytes want = Cat2(Cat2(magic_b, LE32((uint32_t)r.orig.size())), r.orig);
            if (r.undo) {
                uint256 ph = r.idx->pprev->GetBlockHash();
                want = Cat2(want, Sha256d(Cat2(Bytes(ph.begin(), ph.end()), r.orig)));
            }
            if (Plain(d, r.start, want.size(), key) != want) vx::violation("B-disk-format-" + r.name, "intact record on disk is not magic|size|payload" + std::string(r.undo ? "|sha256d(prevhash|payload)" : "") + " at the indexed position", "partB setup xor=" + std::to_string(use_xor));
        }
    }

    std::vector<Fault> FaultsOf(int ri)
    {
        const Rec& r = recs[ri];
        std::vector<Fault> v;
        for (unsigned off = r.start; off < r.end; off++) for (unsigned char m : {0x01, 0x80}) v.push_back({ri, 'f', off, m});
        for (unsigned off = r.start; off < r.end; off++) v.push_back({ri, 't', off, 0});
        const Bytes& d = r.undo ? rev_pristine[r.file] : blk_pristine[r.file];
        for (unsigned off = r.start; off < r.end; off++) {
            bool changes = false;
            for (unsigned i = off; i < r.end; i++) changes |= d[i] != 0;
            if (changes) v.push_back({ri, 'z', off, 0});
        }
        return v;
    }

    // read-level enumeration (in this process; the node's files are rewritten per case and restored)
    void ReadLevel(vx::Distinct& rejected, std::map<std::string, uint64_t>& cls, bool all_connect)
    {
        auto& bm = n.chainman().m_blockman;
        auto& E = vx::ev();
        for (int ri = 0; ri < (int)recs.size(); ri++) {
            const Rec& r = recs[ri];
            const Bytes& pristine = r.undo ? rev_pristine[r.file] : blk_pristine[r.file];
            const fs::path path = File(r.undo, r.file);
            FileMut fm;
            fm.Open(path, pristine);
            for (const Fault& f : FaultsOf(ri)) {
                fm.Apply(r, f);
                E.evaluations++;
                const unsigned rel = f.off - r.start;
                const std::string id = strprintf("%s:%c:%u:%02x:x%d", r.name, f.kind, rel, f.mask, (int)use_xor);
                const std::string replay = "partB xor=" + std::to_string(use_xor) + "\nfault: " + FaultStr(recs, f);
                if (!r.undo) {
                    const char* region = BlockRegion(rel, r.orig.size());
                    CBlock blk;
                    bool ok = bm.ReadBlock(blk, *r.idx);
                    std::string outcome;
                    if (!ok) { outcome = "rejected"; rejected.add(id); }
                    else if (SerBlock(blk) == r.orig) outcome = "original";
                    else if (blk.GetHash() != r.hash) {
                        outcome = "WRONG-HASH";
                        vx::violation(strprintf("B-readblock-wrong-block:%s:%s:%c", r.name, region, f.kind), "ReadBlock(index) returned a block that does not hash to the indexed block: " + FaultStr(recs, f) + " (" + region + ")", replay);
                    } else {
                        outcome = "body-differs";
                    }
                    if (r.connect_test && ok && (outcome == "body-differs" || all_connect)) connect_jobs.push_back(f);
                    if (f.kind == 'f' && (rel < 4 || (rel >= 8 && rel < 88)) && ok)
                        vx::violation(strprintf("B-framing-not-rejected:%s:%s", r.name, region), std::string("a flipped ") + region + " byte was not reported as a read failure: " + FaultStr(recs, f), replay);
                    cls[strprintf("block %s %c %s", region, f.kind, outcome)]++;
                } else {
                    const unsigned n_payload = r.orig.size();
                    const char* region = UndoRegion(rel, n_payload);
                    CBlockUndo u;
                    bool ok = bm.ReadBlockUndo(u, *r.idx);
                    bool strict = rel >= 8; // payload or checksum bytes changed/lost: the checksum cannot match
                    std::string outcome;
                    if (!ok) { outcome = "rejected"; rejected.add(id); }
                    else if (Ser(u) != r.orig) {
                        outcome = "DIFFERENT";
                        vx::violation(strprintf("B-readundo-different:%s:%s:%c", r.name, region, f.kind), "ReadBlockUndo returned different undo data: " + FaultStr(recs, f) + " (" + region + ")", replay);
                    } else {
                        outcome = "original";
                        if (strict) vx::violation(strprintf("B-undo-checksum-not-enforced:%s:%s:%c", r.name, region, f.kind), "ReadBlockUndo succeeded although the stored payload/checksum bytes were changed: " + FaultStr(recs, f) + " (" + region + ")", replay);
                    }
                    cls[strprintf("undo %s %c %s", region, f.kind, outcome)]++;
                }
                fm.Restore(r, f);
            }
            fm.Heal();
            fm.Close();
            if (ReadFile(path) != pristine) throw std::runtime_error("C17: file not restored");
        }
    }

    bool PrepareWorker(const fs::path& dir)
    {
        n.RepointBlocksDir(dir);
        return n.Invalidate(x1) && n.tip()->GetBlockHash() == L.blocks.at(x1).prev;
    }
    // connection test, runs in a throw-away fork of the node
    void ConnectJob(const Fault& f, fp::Out& out, const fs::path& scratch)
    {
        const Rec& r = recs[f.rec];
        (void)scratch;
        // the worker owns a private copy of the block files and has already disconnected X1/X2 with intact
        // files (PrepareWorker); start from intact bytes, inject the fault, let ReconsiderBlock re-read from disk
        // Jobs run one after another in the worker: every job starts from (tip = parent of X1, X1/X2 stored
        // intact, no shutdown requested) and re-establishes that state at its end.
        FileMut fm;
        fm.Open(File(false, r.file), blk_pristine[r.file]);
        fm.Heal();
        fm.Apply(r, f);
        (void)n.m_interrupt.reset();
        n.Reconsider(x1);
        struct Restore {
            PartB& b; FileMut& fm; fp::Out& out; std::string what;
            ~Restore()
            {
                fm.Heal();
                fm.Close();
                (void)b.n.m_interrupt.reset();
                if (b.n.tip()->GetBlockHash() != b.L.blocks.at(b.x1).prev) {
                    if (!b.n.Invalidate(b.x1) || b.n.tip()->GetBlockHash() != b.L.blocks.at(b.x1).prev) {
                        // only reachable after a (reported) violation: the corrupted block is in the chain and cannot be
                        // disconnected with the genuine bytes. This worker stops; its remaining jobs go to the others.
                        out.count("B_worker_gave_up");
                        out.send_counts();
                        out.flush();
                        _exit(0);
                    }
                }
            }
        } restore{*this, fm, out, FaultStr(recs, f)};
        bool active;
        int h;
        unsigned status;
        {
            LOCK(cs_main);
            active = n.chainman().ActiveChain().Contains(*r.idx);
            h = n.chainman().ActiveChain().Height();
            status = r.idx->nStatus;
        }
        const std::string fs_ = FaultStr(recs, f);
        if (active) {
            CBlock blk;
            bool same = n.chainman().m_blockman.ReadBlock(blk, *r.idx) && SerBlock(blk) == r.orig;
            if (!same) {
                // where the changed byte sits (stable key): "coinbase" = the coinbase's witness stack (covered only by
                // the witness commitment), "coinbase-body" = any other coinbase byte, "txs" = the other transactions
                const char* sub = "txs";
                unsigned rel = f.off - r.start;
                const CBlock& ob = L.blocks.at(r.hash).block;
                unsigned cb_size = GetSerializeSize(TX_WITH_WITNESS(*ob.vtx[0]));
                unsigned ws = GetSerializeSize(ob.vtx[0]->vin[0].scriptWitness.stack);
                if (rel >= 89 && rel < 89 + cb_size) sub = (rel >= 89 + cb_size - 4 - ws && rel < 89 + cb_size - 4) ? "coinbase" : "coinbase-body";
                if (f.kind != 'f') sub = "multi-byte";
                out.violation(strprintf("B-corrupted-block-connected:%s:%s", r.name, sub), "a block whose stored transaction bytes were corrupted became part of the active chain: " + fs_ + " (tip height " + std::to_string(h) + ")", "partB xor=" + std::to_string(use_xor) + "\nfault: " + fs_ + "\nsequence: InvalidateBlock(X1) with intact files, corrupt the file, ReconsiderBlock(X1)");
            }
            out.count("B_connect_connected_same", same);
        } else {
            out.count("B_connect_blocked");
            out.distinct("blocked", strprintf("%s:%c:%u:%02x:x%d", r.name, f.kind, f.off - r.start, f.mask, (int)use_xor));
            if (status & BLOCK_FAILED_VALID) out.count("B_connect_blocked_marked_invalid");
            else out.count("B_connect_blocked_fatal_error");
        }
        out.count("B_connect_tests");
        out.count(strprintf("B_tip_after_%d", h));
    }
};

static int Run();
int main(int argc, char** argv)
{
    vx::init(argc, argv, "C17", "fault_enumeration");
    return fp::guarded(Run, "C17 main process (node setup / read-level enumeration)");
}
static int Run()
{
    if (!vx::ctx().replay.empty()) {
        // a replay file names one case; the enumeration is cheap, so the whole check is re-run and reports it again
        std::ifstream f(vx::ctx().replay);
        std::string l;
        while (std::getline(f, l)) printf("replay> %s\n", l.c_str());
    }
    setenv("RANDOM_CTX_SEED", "c17c17c17c17", 1);
    auto& E = vx::ev();
    const bool big = vx::thorough();
    std::string sroot = vx::scratch_dir() + "/C17-" + std::to_string(getpid());
    fs::path scratch = fs::PathFromString(sroot);
    fs::create_directories(scratch);
    struct Cleanup { fs::path p; ~Cleanup() { std::error_code ec; std::filesystem::remove_all(p, ec); } } cleanup{scratch};

    std::map<std::string, uint64_t> cls;
    vx::Distinct rejected;
    std::map<std::string, uint64_t> counts;
    size_t layouts = 0, blocked = 0;
    bool complete = true;
    int depth_done_min = 99;

    for (bool use_xor : {true, false}) {
        ck::NodeOpts o;
        o.extra_args = {"-fastprune"};
        if (!use_xor) o.extra_args.push_back("-blocksxor=0");
        ck::Node node(o);
        if (ck::ThreadCount() != 1) { printf("HARNESS-ERROR process is not single-threaded\n"); return 2; }

        // ---- Part B
        PartB b(node, use_xor);
        b.Setup();
        b.ReadLevel(rejected, cls, /*all_connect=*/big);
        {
            fp::Pool pool;
            pool.workers = 8;
            pool.on_worker_start = [&](unsigned) {
                if (!b.PrepareWorker(scratch / fs::u8path(strprintf("c%d", (int)getpid())))) { fprintf(stderr, "C17: cannot disconnect X1/X2 with intact files\n"); _exit(9); }
            };
            pool.on_worker_end = [&](unsigned) { fs::remove_all(node.BlocksDir()); };
            if (getenv("C17_SKIP_CONNECT")) b.connect_jobs.clear();
            if (!big && !use_xor) b.connect_jobs.clear(); // quick tier: connection tests on the XOR-key node only (obfuscation is below ReadBlock)
            pool.run(
                b.connect_jobs.size(), [&](uint64_t j, fp::Out& out) { b.ConnectJob(b.connect_jobs[j], out, scratch); },
                [&](uint64_t j) { return "partB connect test xor=" + std::to_string(use_xor) + " " + FaultStr(b.recs, b.connect_jobs[j]); });
            for (auto& [k, v] : pool.counts) counts[k] += v;
            blocked += pool.distinct_size("blocked");
            E.evaluations += pool.counts["B_connect_tests"];
            if (!pool.complete) complete = false;
        }
        if (use_xor) for (auto& r : b.recs) E.sample(strprintf("record %s: file %d bytes [%u,%u) payload %u bytes", r.name, r.file, r.start, r.end, (unsigned)r.orig.size()));

        // ---- Part A (depth by depth so that a deadline leaves a completed bound)
        if (getenv("C17_SKIP_A")) continue;
        int maxd = big ? 5 : 4;
        if (const char* e = getenv("C17_DEPTH")) maxd = atoi(e);
        int done = 0;
        {
            fp::Pool pool;
            pool.workers = 8;
            bool ok = RunPartA(node, scratch, use_xor, maxd, big ? 3 : 2, pool);
            for (auto& [k, v] : pool.counts) counts[k] += v;
            layouts += pool.distinct_size("layout") + pool.distinct_size("layoutx");
            if (ok) done = maxd; else complete = false;
        }
        depth_done_min = std::min(depth_done_min, done);
        if (vx::deadline_reached()) { complete = false; break; }
    }
    E.evaluations += counts["A_histories"];
    E.distinct_nontrivial = rejected.size() + blocked + layouts;
    E.exhaustive = complete;
    E.set("partA_depth", (uint64_t)std::max(depth_done_min == 99 ? 0 : depth_done_min, 0));
    E.set("partA_histories", counts["A_histories"]);
    E.set("partA_read_calls", counts["A_reads"]);
    E.set("partA_distinct_multi_file_layouts", (uint64_t)layouts);
    E.set("partB_faults_rejected_at_read", (uint64_t)rejected.size());
    E.set("partB_connect_tests", counts["B_connect_tests"]);
    E.set("partB_connect_blocked", counts["B_connect_blocked"]);
    E.set("partB_blocked_by_fatal_error", counts["B_connect_blocked_fatal_error"]);
    E.set("partB_blocked_block_marked_invalid", counts["B_connect_blocked_marked_invalid"]);
    std::string oc = "{";
    for (auto& [k, v] : cls) oc += (oc.size() > 1 ? ", " : "") + vx::q(k) + ": " + std::to_string(v);
    E.set("partB_outcomes", oc + "}");
    for (auto& [k, v] : counts) printf("  %s = %llu\n", k.c_str(), (unsigned long long)v);
    for (auto& [k, v] : cls) printf("  [%s] = %llu\n", k.c_str(), (unsigned long long)v);
    E.rule = "Part A: every history of length 1..depth over {WriteBlock x5 size classes (160 B, 20 kB, exactly filling the 64 KiB -fastprune file, one byte too many, 70 kB), WriteBlockUndo x3 (1 B, 30 kB, 69 kB), FlushChainstateBlockFile + WriteBlockIndexDB, prune oldest file, clean restart (flush, WriteBlockIndexDB, destroy the BlockManager, re-create it on the same directory and block tree DB, LoadBlockIndexDB)} plus 12 directed histories of length 5..15 (6 of them a reindex family: blocks stored out of height order, index rebuilt on a fresh BlockManager through UpdateBlockInfo in parents-first order, further writes) (incl. undo data written into a no-longer-current file around a restart) on a fresh real BlockManager, XOR key on and off; after each history all reads (ReadBlock index/pos, ReadRawBlock whole + 13 part ranges, ReadBlockUndo) compared byte for byte, records tile their files and match CBlockFileInfo, raw disk bytes match magic|size|payload(|checksum). "
             "Part B: on a regtest node, for 3 block records and 3 undo records: every byte x {0x01,0x80} flip, every truncation length, every zeroed tail; ReadBlock/ReadBlockUndo must fail or return the original (strictly fail for magic/header/undo payload/checksum changes); flips that ReadBlock lets through with different tx bytes are replayed in a fork (InvalidateBlock, corrupt, ReconsiderBlock) and must not become active. "
             "distinct_nontrivial = distinct faults rejected at read + distinct faults blocked at connection + distinct multi-file layouts reached.";
    E.assume("regtest, -fastprune (64 KiB block files, 16 KiB chunks); stored blocks of part A are deserialisable one-transaction blocks hanging off a header-only spine (BlockManager does not look at transaction validity)");
    E.assume("a SHA256d collision is not found by a single bit flip");
    // sanity gates
    auto need = [&](bool c, const char* what) { if (!c && vx::rep().violations == 0) { printf("HARNESS-ERROR C17 vacuous: %s\n", what); return false; } return true; };
    bool g = true;
    g &= need(rejected.size() > 100, "no rejected faults");
    g &= need(counts["B_connect_tests"] > 0 && counts["B_connect_blocked"] > 0, "no connection test blocked");
    g &= need(counts["A_pruned"] > 0, "no history pruned a file");
    g &= need(counts["A_restarted"] > 0, "no history restarted the BlockManager");
    g &= need(counts["A_reindexed"] > 0, "no history re-indexed the block files");
    g &= need(counts["A_directed"] > 0 && counts["A_directed_not_enabled"] == 0 && counts["A_directed"] % DIRECTED.size() == 0, "a directed history was not executable");
    g &= need(counts["A_undo_in_finalized_file"] > 0, "no history wrote undo data into a file the block cursor had left");
    g &= need(counts["A_undo_larger_than_blocks"] > 0, "no file whose undo data exceeds its block data");
    g &= need(layouts > 10, "too few multi-file layouts");
    g &= need(cls.count("block header f rejected") && cls.count("block magic f rejected") && cls.count("undo payload f rejected") && cls.count("undo checksum f rejected"), "an expected outcome class is missing");
    int rc = vx::finish();
    // the gates describe a complete run; a run cut by the wall-clock deadline (exhaustive=false) is not a harness error
    if (!g && rc == 0 && complete && !vx::deadline_reached()) return 2;
    return rc;
}
