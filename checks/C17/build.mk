LINK := full
KITS := chainkit
CXXEXTRA := -I$(REPO)/src/leveldb
