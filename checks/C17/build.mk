LINK := full
KITS := chainkit
CXXEXTRA := -I/repo/src/leveldb
