// C13 — Validation caches never change a verdict.
// Twin run: the same event histories are executed on node A (default signature + script-execution caches) and on the
// reference node B (minimal caches that are additionally emptied before every event), each in its own process tree
// (fork per transition: ck::Node is single-threaded). Every event's verdict and the visible state after it
// (tip, mempool wtxids) must be identical in both twins.
// Events: TestBlockValidity(block with T) / ProcessTransaction(T) / test-accept(T) / connect block with T,
// invalidate tip, reconsider, empty block.  Transactions (each family spends one dedicated coin):
//   family 1: NS   P2WSH(OP_NOP4 OP_TRUE) spend — valid under consensus flags, rejected by STANDARD flags
//             NSx  same txid, wrong witness script — invalid
//   family 2: SG   real-key P2WPKH spend (low-S signature) — valid;  SGh same txid, high-S signature — consensus-valid,
//             policy-invalid;  SGx same txid, corrupted signature — invalid
//   family 3: TR   real-key P2TR key-path spend (BIP340 signature) — valid;  TRs same txid, same R but altered s — invalid;
//             TRr  same txid, altered R — invalid
// Plus VX-STATE on CuckooCache itself (all insert/contains/erase sequences on a heavily colliding small table).
#include <vx/vx.h>
#include <kits/chainkit.h>

#include <addresstype.h>
#include <chainparams.h>
#include <cuckoocache.h>
#include <key.h>
#include <script/interpreter.h>
#include <script/sign.h>
#include <script/signingprovider.h>
#include <util/time.h>

#include <fcntl.h>
#include <sys/resource.h>
#include <sys/wait.h>

using Bytes = std::vector<unsigned char>;
static std::string S(uint64_t v) { return std::to_string(v); }

// ------------------------------------------------------------------------------------------------ the twin
struct TxDef { std::string name; CTransactionRef tx; CAmount fee; };

struct Twin {
    ck::Node n;
    bool reference;
    std::vector<TxDef> txs;       // menu for the current family
    std::vector<uint256> invalidated;
    int base_height = 0;

    static ck::NodeOpts opts(bool reference)
    {
        ck::NodeOpts o;
        o.min_validation_cache = reference;
        o.mempool_tweak = [](CTxMemPool::Options& m) { m.require_standard = true; };
        return o;
    }
    explicit Twin(bool ref, int family) : n(opts(ref)), reference(ref)
    {
        SetMockTime(Params().GenesisBlock().nTime + 600 * 100000);
        // fixed key
        CKey key;
        Bytes secret(32, 0x11);
        secret[31] = 0x42;
        key.Set(secret.begin(), secret.end(), true);
        const CPubKey pub = key.GetPubKey();
        const CScript spk_wpkh = GetScriptForDestination(WitnessV0KeyHash(pub));
        const CScript ws_nop = CScript() << OP_NOP4 << OP_TRUE;
        const CScript spk_nop = GetScriptForDestination(WitnessV0ScriptHash(ws_nop));
        auto mine = [&](const CScript& cb_spk) {
            ck::BlockOpts bo;
            bo.coinbase_spk = cb_spk;
            CBlock b = ck::MakeBlock(n, n.tip(), {}, bo);
            auto r = n.ProcessBlock(b);
            if (!r.pnb_ret || n.tip()->GetBlockHash() != b.GetHash()) throw std::runtime_error("base block rejected: " + r.reason);
            return b;
        };
        TaprootBuilder tb;
        tb.Finalize(XOnlyPubKey(pub));
        const CScript spk_tr = GetScriptForDestination(tb.GetOutput());
        CBlock b1 = mine(spk_wpkh), b2 = mine(spk_nop), b3 = mine(spk_tr);
        for (int i = 0; i < 99; i++) mine(CScript());
        base_height = n.height(); // 102: all three coins are spendable in the next block
        const COutPoint c1(b1.vtx[0]->GetHash(), 0), c2(b2.vtx[0]->GetHash(), 0), c3(b3.vtx[0]->GetHash(), 0);
        const CAmount v1 = b1.vtx[0]->vout[0].nValue, v2 = b2.vtx[0]->vout[0].nValue, v3 = b3.vtx[0]->vout[0].nValue, fee = 10000;
        if (family == 1) {
            CMutableTransaction m;
            m.version = 2;
            m.vin.emplace_back(c2);
            m.vout.emplace_back(v2 - fee, ck::OpTrueSpk());
            m.vin[0].scriptWitness.stack = {Bytes(ws_nop.begin(), ws_nop.end())};
            txs.push_back({"NS", MakeTransactionRef(m), fee});
            CScript wrong = CScript() << OP_TRUE;
            m.vin[0].scriptWitness.stack = {Bytes(wrong.begin(), wrong.end())};
            txs.push_back({"NSx", MakeTransactionRef(m), fee});
        } else if (family == 3) {
            CMutableTransaction m;
            m.version = 2;
            m.vin.emplace_back(c3);
            m.vout.emplace_back(v3 - fee, ck::OpTrueSpk());
            // BIP341 key-path signature made by hand: sighash (SIGHASH_DEFAULT, no annex), key tweaked with the empty script tree
            PrecomputedTransactionData txdata;
            txdata.Init(m, {CTxOut(v3, spk_tr)}, /*force=*/true);
            ScriptExecutionData ed;
            ed.m_annex_init = true;
            ed.m_annex_present = false;
            uint256 sighash;
            if (!SignatureHashSchnorr(sighash, ed, m, 0, SIGHASH_DEFAULT, SigVersion::TAPROOT, txdata, MissingDataBehavior::FAIL)) throw std::runtime_error("taproot sighash failed");
            Bytes sig(64);
            const uint256 no_tree, aux{0x33};
            if (!key.SignSchnorr(sighash, sig, &no_tree, aux)) throw std::runtime_error("schnorr signing failed");
            m.vin[0].scriptWitness.stack = {sig};
            txs.push_back({"TR", MakeTransactionRef(m), fee});
            Bytes s2 = sig;
            s2[40] ^= 0x01; // same R, different s
            m.vin[0].scriptWitness.stack = {s2};
            txs.push_back({"TRs", MakeTransactionRef(m), fee});
            Bytes s3 = sig;
            s3[5] ^= 0x01; // different R
            m.vin[0].scriptWitness.stack = {s3};
            txs.push_back({"TRr", MakeTransactionRef(m), fee});
        } else {
            CMutableTransaction m;
            m.version = 2;
            m.vin.emplace_back(c1);
            m.vout.emplace_back(v1 - fee, ck::OpTrueSpk());
            FillableSigningProvider ks;
            ks.AddKey(key);
            SignatureData sd;
            if (!ProduceSignature(ks, MutableTransactionSignatureCreator(m, 0, v1, {.sighash_type = SIGHASH_ALL}), spk_wpkh, sd)) throw std::runtime_error("signing failed");
            UpdateInput(m.vin[0], sd);
            txs.push_back({"SG", MakeTransactionRef(m), fee});
            const Bytes sig = m.vin[0].scriptWitness.stack.at(0);
            // high-S twin: s' = n - s, re-encoded (DER: 30 len 02 rl r 02 sl s | hashtype)
            {
                size_t rl = sig[3];
                Bytes r(sig.begin() + 4, sig.begin() + 4 + rl);
                size_t sl = sig[5 + rl];
                Bytes s(sig.begin() + 6 + rl, sig.begin() + 6 + rl + sl);
                static const unsigned char N[32] = {0xFF,0xFF,0xFF,0xFF,0xFF,0xFF,0xFF,0xFF,0xFF,0xFF,0xFF,0xFF,0xFF,0xFF,0xFF,0xFE,0xBA,0xAE,0xDC,0xE6,0xAF,0x48,0xA0,0x3B,0xBF,0xD2,0x5E,0x8C,0xD0,0x36,0x41,0x41};
                Bytes s32(32, 0);
                for (size_t i = 0; i < s.size() && i < 32; i++) s32[31 - i] = s[s.size() - 1 - i];
                Bytes ns(32);
                int borrow = 0;
                for (int i = 31; i >= 0; i--) { int d = N[i] - s32[i] - borrow; borrow = d < 0; ns[i] = (unsigned char)(d + (borrow ? 256 : 0)); }
                Bytes sder(ns.begin(), ns.end());
                while (sder.size() > 1 && sder[0] == 0) sder.erase(sder.begin());
                if (sder[0] & 0x80) sder.insert(sder.begin(), 0);
                Bytes hs{0x30, 0, 0x02, (unsigned char)r.size()};
                hs.insert(hs.end(), r.begin(), r.end());
                hs.push_back(0x02);
                hs.push_back((unsigned char)sder.size());
                hs.insert(hs.end(), sder.begin(), sder.end());
                hs[1] = (unsigned char)(hs.size() - 2);
                hs.push_back(sig.back());
                CMutableTransaction h = m;
                h.vin[0].scriptWitness.stack[0] = hs;
                txs.push_back({"SGh", MakeTransactionRef(h), fee});
            }
            CMutableTransaction x = m;
            x.vin[0].scriptWitness.stack[0][10] ^= 0x01; // corrupt r
            txs.push_back({"SGx", MakeTransactionRef(x), fee});
        }
        for (size_t i = 1; i < txs.size(); i++)
            if (txs[i].tx->GetHash() != txs[0].tx->GetHash() || txs[i].tx->GetWitnessHash() == txs[0].tx->GetWitnessHash()) throw std::runtime_error("twin transactions must share the txid and differ in wtxid");
    }

    // reference twin: make the (2-slot) caches really empty before every event
    void empty_caches()
    {
        auto wipe = [](auto& c) {
            for (auto& e : c.table) e = uint256();
            c.collection_flags.setup(c.size);
            for (uint32_t i = 0; i < c.size; i++) c.epoch_flags[i] = false;
        };
        ValidationCache& vc = n.chainman().m_validation_cache;
        wipe(vc.m_script_execution_cache);
        wipe(vc.m_signature_cache.setValid);
    }
    // entries currently stored (diagnostics / vacuity gate only)
    std::pair<int, int> cache_fill()
    {
        // live entries = slots whose "collectable" flag is clear (scanning the 32 MiB tables themselves on every event is too slow)
        auto cnt = [](auto& c) { int k = 0; for (uint32_t i = 0; i < c.size; i++) k += !c.collection_flags.bit_is_set(i); return k; };
        ValidationCache& vc = n.chainman().m_validation_cache;
        return {cnt(vc.m_script_execution_cache), cnt(vc.m_signature_cache.setValid)};
    }

    CBlock block_with(int k)
    {
        ck::BlockOpts bo;
        std::vector<CTransactionRef> v;
        if (k >= 0) { v.push_back(txs[k].tx); bo.fees = txs[k].fee; }
        bo.extra_nonce = (int)invalidated.size(); // reconnectable siblings differ
        return ck::MakeBlock(n, n.tip(), v, bo);
    }

    // event = op char + tx digit ('_' when unused). returns "verdict|tip|pool"
    std::string apply(const std::string& ev)
    {
        if (reference) empty_caches();
        const char op = ev[0];
        const int k = ev[1] == '_' ? -1 : ev[1] - '0';
        std::string verdict = "-";
        switch (op) {
        case 'V': {
            CBlock b = block_with(k);
            LOCK(cs_main);
            BlockValidationState st = TestBlockValidity(n.cs(), b, /*check_pow=*/true, /*check_merkle_root=*/true);
            verdict = st.IsValid() ? "valid" : "invalid";
            break;
        }
        case 'P': case 'A': {
            auto r = n.SubmitTx(txs[k].tx, op == 'A');
            verdict = r.m_result_type == MempoolAcceptResult::ResultType::VALID ? "accepted" : r.m_result_type == MempoolAcceptResult::ResultType::MEMPOOL_ENTRY ? "already" : "rejected";
            break;
        }
        case 'B': case 'E': {
            CBlock b = block_with(op == 'E' ? -1 : k);
            auto r = n.ProcessBlock(b);
            verdict = n.tip()->GetBlockHash() == b.GetHash() ? "connected" : "notconnected";
            break;
        }
        case 'I':
            if (n.height() > base_height) { uint256 h = n.tip()->GetBlockHash(); n.Invalidate(h); invalidated.push_back(h); verdict = "invalidated"; }
            break;
        case 'R':
            if (!invalidated.empty()) { n.Reconsider(invalidated.back()); invalidated.pop_back(); verdict = "reconsidered"; }
            break;
        }
        std::vector<std::string> pool;
        for (auto& i : n.pool().infoAll()) pool.push_back(i.tx->GetWitnessHash().ToString().substr(0, 8));
        std::sort(pool.begin(), pool.end());
        std::string s = verdict + "|" + n.tip()->GetBlockHash().ToString().substr(0, 12) + "@" + S(n.height()) + "|";
        for (auto& p : pool) s += p + ",";
        auto cf = cache_fill();
        return s + "\t" + S(cf.first) + "\t" + S(cf.second);
    }

    bool reduced = false; // deep exploration: without test-accept and empty-block events
    std::vector<std::string> events()
    {
        std::vector<std::string> e;
        for (size_t k = 0; k < txs.size(); k++) for (char op : {'V', 'P', 'A', 'B'}) if (!(reduced && op == 'A')) e.push_back(std::string(1, op) + char('0' + k));
        if (!reduced) e.push_back("E_");
        e.push_back("I_");
        e.push_back("R_");
        return e;
    }
};

static void put(int fd, const std::string& l)
{
    std::string s = l + "\n";
    if (write(fd, s.data(), s.size()) < 0) {}
}

// fork-per-transition DFS; every transition appends "history \t outcome \t scriptcache \t sigcache" to fd
static void explore(Twin& t, const std::string& hist, int depth, int fd, unsigned par)
{
    std::vector<std::string> evs = t.events();
    std::vector<std::pair<pid_t, std::string>> running;
    auto reap = [&](size_t keep) {
        while (running.size() > keep) {
            int st = 0;
            pid_t p = waitpid(running.front().first, &st, 0);
            if (p > 0 && !(WIFEXITED(st) && WEXITSTATUS(st) == 0)) put(fd, running.front().second + "\tCRASH|status " + S(st) + "\t0\t0");
            running.erase(running.begin());
        }
    };
    for (auto& ev : evs) {
        // events that cannot do anything in this state are skipped in both twins alike (pure function of visible state)
        if (ev[0] == 'I' && t.n.height() <= t.base_height) continue;
        if (ev[0] == 'R' && t.invalidated.empty()) continue;
        const std::string h2 = hist + ev;
        // wall-clock budget: stop between complete first-level subtrees; the parent then compares the common part only
        if (hist.empty() && vx::elapsed() > vx::ctx().deadline_s * 0.93) { put(fd, "#CUT\t-\t0\t0"); break; }
        const double tf0 = vx::elapsed();
        pid_t p = fork();
        if (p != 0 && getenv("VERIF_C13_PROF")) fprintf(stderr, "fork %.4f\n", vx::elapsed() - tf0);
        if (p == 0) {
            // siblings that run concurrently must not share block/undo files
            if (par > 1) t.n.RepointBlocksDir(t.n.BlocksDir() / fs::PathFromString("w" + std::to_string(getpid())));
            const double ta0 = vx::elapsed();
            std::string out = t.apply(ev);
            if (getenv("VERIF_C13_PROF")) { struct rusage ru; getrusage(RUSAGE_SELF, &ru); fprintf(stderr, "apply %s %.4f user=%.4f sys=%.4f minflt=%ld\n", ev.c_str(), vx::elapsed() - ta0, ru.ru_utime.tv_sec + ru.ru_utime.tv_usec / 1e6, ru.ru_stime.tv_sec + ru.ru_stime.tv_usec / 1e6, ru.ru_minflt); }
            put(fd, h2 + "\t" + out);
            if (depth > 1) explore(t, h2, depth - 1, fd, 1);
            _exit(0);
        }
        running.emplace_back(p, h2);
        reap(par - 1);
    }
    reap(0);
}

static int run_twin(bool reference, int family, int depth, bool reduced, const std::string& file, unsigned par)
{
    int fd = open(file.c_str(), O_WRONLY | O_CREAT | O_TRUNC | O_APPEND, 0644);
    if (fd < 0) return 3;
    // private temp root: the fixture's temp-path generator was seeded before the fork, so the twins would share a datadir
    const std::string mytmp = file + ".tmp";
    mkdir(mytmp.c_str(), 0755);
    setenv("TMPDIR", mytmp.c_str(), 1);
    try {
        Twin t(reference, family);
        t.reduced = reduced;
        double t0 = vx::elapsed();
        explore(t, "", depth, fd, par);
        fprintf(stderr, "[C13] twin %s family %d depth %d: %.1fs\n", reference ? "B" : "A", family, depth, vx::elapsed() - t0);
    } catch (const std::exception& e) {
        put(fd, std::string("#ERROR\t") + e.what());
        close(fd);
        return 4;
    }
    close(fd);
    return 0;
}

// ------------------------------------------------------------------------------------------------ CuckooCache vs set model
struct CollidingHasher {
    // every element has only three candidate slots (of 16): evictions happen with 4 live elements
    template <uint8_t hash_select>
    uint32_t operator()(const uint32_t& e) const { uint32_t slot = (e * 7 + hash_select * (e % 3 + 1)) % 3 + (e % 2); return slot << 28 | 0x0fffffff; }
};

static void cuckoo_part(bool big, uint64_t& states, uint64_t& transitions, uint64_t& evictions, uint64_t& erased_hits)
{
    const int NSYM = 6, NOPS = NSYM * 3; // insert(x), contains(x,false), contains(x,true)
    const int depth = big ? 6 : 5;
    vx::Distinct keys;
    std::vector<int> seq;
    uint64_t total = 1;
    for (int i = 0; i < depth; i++) total *= NOPS;
    for (uint64_t code = 0; code < total; code++) {
        // one maximal sequence; all its prefixes are checked on the way
        CuckooCache::cache<uint32_t, CollidingHasher> c;
        c.setup(16);
        std::set<uint32_t> ever;      // model: everything ever inserted
        std::set<uint32_t> flagged;   // erase requested by us and not re-inserted since
        uint64_t x = code;
        std::string hist;
        for (int d = 0; d < depth; d++) {
            int op = x % NOPS; x /= NOPS;
            uint32_t sym = 100 + op % NSYM;
            int kind = op / NSYM;
            hist += (kind == 0 ? "i" : kind == 1 ? "c" : "e") + S(sym - 100) + " ";
            std::set<uint32_t> before;
            for (uint32_t s = 100; s < 100 + NSYM; s++) if (c.contains(s, false)) before.insert(s);
            bool r = false;
            if (kind == 0) c.insert(sym); else r = c.contains(sym, kind == 2);
            transitions++;
            std::set<uint32_t> after;
            for (uint32_t s = 100; s < 100 + NSYM; s++) if (c.contains(s, false)) after.insert(s);
            auto bad = [&](const std::string& key, const std::string& what) { vx::violation(key, what + " after [" + hist + "]", "part cuckoo\nops " + hist); };
            if (kind == 0) {
                ever.insert(sym);
                flagged.erase(sym);
                // post-condition from the header: everything kept, or one previously inserted (not erasable) element evicted, or the new one dropped
                int missing = 0;
                for (uint32_t s : before) if (!flagged.count(s) && !after.count(s) && s != sym) missing++;
                if (!after.count(sym)) missing++;
                if (missing) evictions++;
                if (missing > 1) bad("cuckoo-insert-loses-many", "insert(" + S(sym - 100) + ") made " + S(missing) + " live elements disappear (documented: at most one)");
                for (uint32_t s : after) if (!before.count(s) && s != sym) bad("cuckoo-resurrect", "insert made element " + S(s - 100) + " appear that was not in the table");
                for (uint32_t s : flagged) if (!after.count(s)) {} // erasable elements may go
                std::set<uint32_t> gone;
                for (uint32_t s : flagged) if (!after.count(s)) gone.insert(s);
                for (uint32_t s : gone) flagged.erase(s);
            } else {
                if (r && !ever.count(sym)) bad("cuckoo-false-positive", "contains(" + S(sym - 100) + ") is true although it was never inserted");
                if (r != (bool)before.count(sym)) bad("cuckoo-contains-unstable", "contains(" + S(sym - 100) + ") disagrees with the immediately preceding probe");
                if (after != before) bad("cuckoo-contains-mutates", "contains() changed which elements are found");
                if (kind == 2 && r) { flagged.insert(sym); erased_hits++; }
            }
            for (uint32_t s : after) if (!ever.count(s)) bad("cuckoo-false-positive", "element " + S(s - 100) + " is found although it was never inserted");
            std::string k;
            for (uint32_t s : after) k += S(s) + (flagged.count(s) ? "f" : "") + ",";
            keys.add(k);
        }
    }
    states = keys.size();
}

int main(int argc, char** argv)
{
    vx::init(argc, argv, "C13", "model_checking");
    auto& E = vx::ev();
    const bool big = vx::thorough();
    vx::scratch_dir();
    const std::string dir = vx::scratch_dir() + "/c13-" + std::to_string(getpid());
    mkdir(dir.c_str(), 0755);
    if (!vx::ctx().replay.empty()) {
        std::ifstream f(vx::ctx().replay);
        std::string l, h;
        int fam = 1;
        while (std::getline(f, l)) { if (l.rfind("history ", 0) == 0) h = l.substr(8); if (l.rfind("family ", 0) == 0) fam = atoi(l.c_str() + 7); }
        for (int ref = 0; ref < 2; ref++) {
            pid_t p = fork();
            if (p == 0) {
                const std::string mytmp = dir + "/r" + S(ref);
                mkdir(mytmp.c_str(), 0755);
                setenv("TMPDIR", mytmp.c_str(), 1);
                Twin t(ref, fam);
                for (size_t i = 0; i + 1 < h.size(); i += 2) printf("%s %s: %s\n", ref ? "reference" : "cached   ", h.substr(i, 2).c_str(), t.apply(h.substr(i, 2)).c_str());
                fflush(stdout);
                _exit(0);
            }
            int st;
            waitpid(p, &st, 0);
        }
        { std::error_code ec; std::filesystem::remove_all(dir, ec); }
        return 0;
    }
    // quick: every sequence of the full alphabet to depth 2. thorough: additionally every sequence of the reduced alphabet
    // (no test-accept, no empty block) to depth 3. VERIF_C13_DEPTH overrides the depth of the full-alphabet run.
    struct Job { int fam; int depth; bool reduced; pid_t pid[2]; int status[2]; };
    std::vector<Job> jobs;
    for (int fam = 1; fam <= 3; fam++) jobs.push_back({fam, getenv("VERIF_C13_DEPTH") ? atoi(getenv("VERIF_C13_DEPTH")) : 2, false, {0, 0}, {0, 0}});
    if (big) for (int fam = 1; fam <= 3; fam++) jobs.push_back({fam, 3, true, {0, 0}, {0, 0}});
    const int dd = big ? 3 : jobs[0].depth;
    const unsigned par = std::max(1u, std::min(vx::ncpu(), 12u) / (unsigned)(2 * jobs.size()));
    uint64_t transitions = 0, diffs = 0, max_script = 0, max_sig = 0, ref_fill = 0;
    std::map<std::string, uint64_t> verdicts;
    vx::Distinct states;
    std::set<std::string> counted; // a history explored by both runs is counted once
    bool exhaustive = true;
    auto fname = [&](const Job& j, int ref) { return dir + (ref ? "/B" : "/A") + S(j.fam) + (j.reduced ? "r" : "f"); };
    for (auto& j : jobs)
        for (int ref = 0; ref < 2; ref++) {
            pid_t p = fork();
            if (p == 0) _exit(run_twin(ref, j.fam, j.depth, j.reduced, fname(j, ref), par));
            j.pid[ref] = p;
        }
    for (auto& j : jobs) for (int ref = 0; ref < 2; ref++) waitpid(j.pid[ref], &j.status[ref], 0);
    for (auto& j : jobs) {
        const int fam = j.fam;
        std::string fa = fname(j, 0), fb = fname(j, 1);
        const int sa = j.status[0], sb = j.status[1];
        if (!(WIFEXITED(sa) && WEXITSTATUS(sa) == 0) || !(WIFEXITED(sb) && WEXITSTATUS(sb) == 0)) { printf("HARNESS-ERROR twin process failed (family %d, status %d / %d)\n", fam, sa, sb); std::error_code ec; std::filesystem::remove_all(dir, ec); return 2; }
        auto load = [&](const std::string& file) {
            std::map<std::string, std::vector<std::string>> m;
            std::ifstream f(file);
            std::string l;
            while (std::getline(f, l)) {
                std::vector<std::string> c;
                size_t s = 0;
                while (true) { size_t t = l.find('\t', s); c.push_back(l.substr(s, t == std::string::npos ? t : t - s)); if (t == std::string::npos) break; s = t + 1; }
                if (c.size() >= 4) m[c[0]] = {c[1], c[2], c[3]};
            }
            return m;
        };
        auto A = load(fa), B = load(fb);
        if (A.count("#CUT") || B.count("#CUT")) {
            exhaustive = false;
            A.erase("#CUT"); B.erase("#CUT");
            for (auto it = A.begin(); it != A.end();) it = B.count(it->first) ? std::next(it) : A.erase(it);
            for (auto it = B.begin(); it != B.end();) it = A.count(it->first) ? std::next(it) : B.erase(it);
        }
        if (A.size() != B.size() || A.empty()) { printf("HARNESS-ERROR twins explored different history sets (%zu vs %zu) %s\n", A.size(), B.size(), dir.c_str()); if (!getenv("VERIF_C13_KEEP")) { std::error_code ec; std::filesystem::remove_all(dir, ec); } return 2; }
        for (auto& [h, a] : A) {
            auto it = B.find(h);
            if (it == B.end()) { printf("HARNESS-ERROR history %s missing in the reference twin\n", h.c_str()); return 2; }
            if (!counted.insert(S(fam) + h).second) continue;
            transitions++;
            E.evaluations += 1;
            const std::string last = h.substr(h.size() - 2);
            const char op = last[0];
            std::string txname = last[1] == '_' ? "" : (fam == 1 ? std::vector<std::string>{"NS", "NSx"} : fam == 2 ? std::vector<std::string>{"SG", "SGh", "SGx"} : std::vector<std::string>{"TR", "TRs", "TRr"})[last[1] - '0'];
            verdicts[std::string(1, op) + ":" + txname + ":" + a[0].substr(0, a[0].find('|'))]++;
            states.add(S(fam) + a[0].substr(a[0].find('|')));
            max_script = std::max<uint64_t>(max_script, strtoull(a[1].c_str(), nullptr, 10));
            max_sig = std::max<uint64_t>(max_sig, strtoull(a[2].c_str(), nullptr, 10));
            ref_fill = std::max<uint64_t>(ref_fill, strtoull(it->second[1].c_str(), nullptr, 10));
            if (a[0] != it->second[0]) {
                diffs++;
                const bool crash = a[0].rfind("CRASH", 0) == 0 || it->second[0].rfind("CRASH", 0) == 0;
                vx::violation(std::string(crash ? "cache-crash-" : "cache-verdict-") + op + ":" + txname,
                              "with validation caches the outcome of " + std::string(1, op) + "(" + txname + ") is [" + a[0] + "], the cache-free reference twin gives [" + it->second[0] + "] after the same history " + h + " (family " + S(fam) + ")",
                              "family " + S(fam) + "\nhistory " + h);
            }
        }
    }
    if (!getenv("VERIF_C13_KEEP")) { std::error_code ec; std::filesystem::remove_all(dir, ec); } else fprintf(stderr, "kept %s\n", dir.c_str());
    fprintf(stderr, "[C13] twins done t=%.1fs\n", vx::elapsed());
    uint64_t cstates = 0, ctrans = 0, cevict = 0, cerased = 0;
    cuckoo_part(big, cstates, ctrans, cevict, cerased);
    // vacuity gates
    auto need = [&](const std::string& k) { if (exhaustive && !verdicts.count(k) && vx::rep().violations == 0) { printf("HARNESS-ERROR outcome class never occurred: %s\n", k.c_str()); exit(2); } };
    for (const char* k : {"V:NS:valid", "P:NS:rejected", "A:NS:rejected", "B:NS:connected", "V:NSx:invalid", "B:NSx:notconnected", "P:SG:accepted", "A:SG:accepted", "P:SG:rejected", "V:SG:valid", "B:SG:connected",
                          "P:SGh:rejected", "V:SGh:valid", "B:SGh:connected", "P:SGx:rejected", "V:SGx:invalid", "B:SGx:notconnected", "I::invalidated",
                          "P:TR:accepted", "V:TR:valid", "B:TR:connected", "P:TRs:rejected", "V:TRs:invalid", "B:TRs:notconnected", "P:TRr:rejected", "B:TRr:notconnected"}) need(k);
    if (dd >= 3) need("R::reconsidered");
    if (vx::rep().violations == 0 && (max_script < 1 || max_sig < 1 || cevict < 1 || cerased < 1)) { printf("HARNESS-ERROR caches never populated in twin A (script %lu, sig %lu) or cuckoo evictions never happened\n", (unsigned long)max_script, (unsigned long)max_sig); return 2; }
    E.states = states.size() + cstates;
    E.transitions = 2 * transitions + ctrans;
    E.traces_validated = 2 * transitions + ctrans;
    E.evaluations += ctrans;
    E.distinct_nontrivial = verdicts.size();
    E.exhaustive = exhaustive;
    E.set("max_depth", (uint64_t)dd);
    E.set("twin_histories", transitions);
    E.set("differences", diffs);
    E.set("max_script_cache_entries", max_script);
    E.set("max_signature_cache_entries", max_sig);
    E.set("cuckoo_sequences_depth", (uint64_t)(big ? 6 : 5));
    E.set("cuckoo_evictions", cevict);
    std::string vs;
    for (auto& [k, c] : verdicts) vs += k + "=" + S(c) + " ";
    E.sample("twin histories (every prefix of every event sequence to depth 2 (full alphabet)" + std::string(big ? " and depth 3 (without test-accept / empty block)" : "") + ", 3 families): " + S(transitions) + ", differences " + S(diffs) + "; twin A cache fill up to " + S(max_script) + " script / " + S(max_sig) + " signature entries");
    E.sample("outcome classes: " + vs);
    E.sample("cuckoocache: " + S(ctrans) + " operations over all sequences of depth " + S(big ? 6 : 5) + " on 6 symbols / 3 candidate slots each; evicting inserts " + S(cevict) + ", erase hits " + S(cerased));
    E.rule = "twin run by fork-per-transition: all event sequences to the depth over {TestBlockValidity(block with T), ProcessTransaction(T), test-accept(T), connect block with T} x T in family, empty block, invalidate tip, reconsider; "
             "family 1 = {consensus-valid/policy-invalid NOP4 spend, its bad-witness twin}, family 2 = {real-key P2WPKH spend, its high-S twin (policy-invalid), its corrupted-signature twin}, family 3 = {real-key P2TR key-path spend, same-R-different-s twin, different-R twin}; outcome + tip + mempool after every event compared between the "
             "default-cache node and a node whose caches are emptied before every event. CuckooCache: every operation sequence to the depth vs a set model (no false positives, contains is pure, an insert loses at most one live element). "
             "states = distinct (tip, mempool) per family + cuckoo content states; distinct = outcome classes seen";
    E.assume("the reference twin is made cache-free by zeroing its 2-slot caches through private access before every event; within one event the reference may still hit entries it inserted itself in that event");
    E.assume("both twins build identical blocks/transactions (deterministic builders, RFC6979 signatures)");
    return vx::finish();
}
