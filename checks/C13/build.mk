LINK := full
KITS := chainkit
