// C46 — signing produces valid spends and never fakes a satisfaction.
// VX-ENUM. Miniscript expressions are generated bottom-up from a leaf alphabet (keys A..E, older/after in blocks and in
// time units, sha256/hash160 images, 0, 1, multi / multi_a), wrappers a s c d v j n t l u and the combinators and_v and_b
// or_b or_c or_d or_i andor thresh; the tree's own parser/type checker is used only as a *filter* (valid fragment, sane
// top level = accepted by the descriptor parser as wsh(X) resp. tr(K,X)). For every accepted expression and every
// resource state (each key: absent / present / wrong private key; each hash: absent / right / wrong preimage) and
// every transaction variant (per timelock leaf: unset, just below, satisfying) the real ProduceSignature is run.
// Oracles:  (1) complete  =>  the spend passes an independent VerifyScript(STANDARD) on the finished transaction;
//           (2) reference-unsatisfiable (boolean evaluation of the expression over the resources)  =>  not complete;
//           (3) [completeness, sane miniscripts, no wrong resources] reference-satisfiable  =>  complete.
// Plus the classic templates (pk, pkh, wpkh, sh(wpkh), multi in sh/wsh/sh(wsh), tr key path, tr script path incl.
// multi_a and two leaves) with every subset of keys, through SignTransaction.
#include <vx/vx.h>

#include <addresstype.h>
#include <coins.h>
#include <key.h>
#include <policy/policy.h>
#include <primitives/transaction.h>
#include <pubkey.h>
#include <script/descriptor.h>
#include <script/interpreter.h>
#include <script/miniscript.h>
#include <script/script.h>
#include <script/sign.h>
#include <script/signingprovider.h>
#include <crypto/sha256.h>
#include <hash.h>
#include <util/strencodings.h>
#include <util/translation.h>

#include <fstream>
#include <functional>

namespace {
using valtype = std::vector<unsigned char>;
const CAmount AMOUNT = 50000;
constexpr int NKEYS = 6;              // A..E usable in expressions, F = taproot internal key (never available)

struct Keys {
    CKey priv[NKEYS], wrong[NKEYS];
    CPubKey pub[NKEYS];
    std::string hex[NKEYS];
    valtype pre1 = valtype(32, 0x31), pre2 = valtype(32, 0x32), prewrong = valtype(32, 0x33);
    valtype h1, h2;
    std::string h1hex, h2hex;
};
Keys& K = *new Keys; // never destroyed: CKey memory lives in the locked pool singleton, which is torn down before globals

void init_keys()
{
    for (int i = 0; i < NKEYS; i++) {
        valtype b(32, (unsigned char)(0x41 + i)); K.priv[i].Set(b.begin(), b.end(), true);
        valtype w(32, (unsigned char)(0x61 + i)); K.wrong[i].Set(w.begin(), w.end(), true);
        K.pub[i] = K.priv[i].GetPubKey();
        K.hex[i] = HexStr(K.pub[i]);
    }
    K.h1.resize(32); CSHA256().Write(K.pre1.data(), 32).Finalize(K.h1.data());
    K.h2.resize(20); CHash160().Write(K.pre2).Finalize(K.h2);
    K.h1hex = HexStr(K.h1); K.h2hex = HexStr(K.h2);
}

// ------------------------------------------------------------------------------------------ generation (filter = tree's parser)
struct GenCtx {
    using Key = int;
    miniscript::MiniscriptContext ctx;
    bool KeyCompare(const Key& a, const Key& b) const { return a < b; }
    std::optional<Key> FromString(std::span<const char>& in) const
    {
        if (in.size() == 1 && in[0] >= 'A' && in[0] < 'A' + NKEYS) return in[0] - 'A';
        return {};
    }
    std::optional<std::string> ToString(const Key& k, bool&) const { return std::string(1, (char)('A' + k)); }
    miniscript::MiniscriptContext MsContext() const { return ctx; }
};

bool keys_canonical(const std::string& s)
{
    // keys A,B,C used by pk_k()/pk_h() must be distinct and appear in first-use order A, B, C (symmetry reduction)
    int next = 0;
    for (size_t i = 1; i + 1 < s.size(); i++) {
        char c = s[i];
        if (c >= 'A' && c <= 'C' && s[i - 1] == '(' && s[i + 1] == ')') {
            if (c - 'A' != next) return false;
            next++;
        }
    }
    return true;
}
// multi uses keys (C,)D,E: at most one multi per expression, and no pk on a key the multi uses
bool multi_ok(const std::string& s)
{
    size_t a = s.find("multi");
    if (a == std::string::npos) return true;
    if (s.find("multi", a + 1) != std::string::npos) return false;
    if (s.find(",C,") != std::string::npos && s.find("(C)") != std::string::npos) return false;
    return true;
}

struct Gen {
    miniscript::MiniscriptContext mctx;
    GenCtx g;
    explicit Gen(miniscript::MiniscriptContext c) : mctx(c), g{c} {}
    bool valid(const std::string& s) const
    {
        auto n = miniscript::FromString(s, g);
        return n && n->IsValid() && n->CheckTimeLocksMix();
    }
    static std::string wrap(const std::string& w, const std::string& e)
    {
        // e is either "core" or "ws:core"
        size_t c = e.find(':');
        size_t p = e.find('(');
        if (c != std::string::npos && (p == std::string::npos || c < p)) return w + e;
        return w + ":" + e;
    }
};

// ------------------------------------------------------------------------------------------ reference evaluator (independent)
struct Resources {
    bool key[NKEYS] = {};      // correct private key available
    bool h1 = false, h2 = false;
    uint32_t locktime = 0, sequence = 0xffffffff, version = 2;
};
bool ref_older(uint32_t n, const Resources& r)
{   // BIP68/112
    if (r.version < 2) return false;
    if (r.sequence & (1u << 31)) return false;
    const uint32_t T = 1u << 22, M = 0xffff;
    if ((n & T) != (r.sequence & T)) return false;
    return (n & M) <= (r.sequence & M);
}
bool ref_after(uint32_t n, const Resources& r)
{   // BIP65
    if ((n < 500000000) != (r.locktime < 500000000)) return false;
    if (n > r.locktime) return false;
    return r.sequence != 0xffffffff;
}
struct RefParser {
    const std::string& s; size_t p = 0; const Resources& r;
    RefParser(const std::string& str, const Resources& res) : s(str), r(res) {}
    bool eat(const char* lit) { size_t n = strlen(lit); if (s.compare(p, n, lit) == 0) { p += n; return true; } return false; }
    uint32_t num() { uint64_t v = 0; while (p < s.size() && isdigit((unsigned char)s[p])) v = v * 10 + (s[p++] - '0'); return (uint32_t)v; }
    int key() { int k = s[p] - 'A'; p++; return k; }
    void skip_hex() { while (p < s.size() && isxdigit((unsigned char)s[p]) && !(s[p] >= 'A' && s[p] <= 'F')) p++; }
    bool expr()
    {
        // wrappers: all transparent for satisfiability (l:X = or_i(0,X), u:X = or_i(X,0), t:X = and_v(X,1))
        size_t c = s.find(':', p), q = s.find_first_of("(,)", p);
        if (c != std::string::npos && (q == std::string::npos || c < q)) p = c + 1;
        bool v;
        if (eat("pk_k(") || eat("pk_h(") || eat("pk(") || eat("pkh(")) { v = r.key[key()]; }
        else if (eat("older(")) { v = ref_older(num(), r); }
        else if (eat("after(")) { v = ref_after(num(), r); }
        else if (eat("sha256(")) { skip_hex(); v = r.h1; }
        else if (eat("hash160(")) { skip_hex(); v = r.h2; }
        else if (eat("and_v(") || eat("and_b(")) { bool a = expr(); eat(","); bool b = expr(); v = a && b; }
        else if (eat("or_b(") || eat("or_c(") || eat("or_d(") || eat("or_i(")) { bool a = expr(); eat(","); bool b = expr(); v = a || b; }
        else if (eat("andor(")) { bool a = expr(); eat(","); bool b = expr(); eat(","); bool c2 = expr(); v = (a && b) || c2; }
        else if (eat("thresh(")) { uint32_t k = num(); uint32_t cnt = 0; while (eat(",")) cnt += expr(); v = cnt >= k; }
        else if (eat("multi_a(") || eat("multi(")) { uint32_t k = num(); uint32_t cnt = 0; while (eat(",")) cnt += r.key[key()]; v = cnt >= k; }
        else if (eat("0")) { return false; }
        else if (eat("1")) { return true; }
        else { throw std::runtime_error("ref parser: cannot parse at " + s.substr(p)); }
        if (!eat(")")) throw std::runtime_error("ref parser: expected ) at " + s.substr(p));
        return v;
    }
};
bool ref_sat(const std::string& e, const Resources& r) { RefParser rp(e, r); bool v = rp.expr(); if (rp.p != e.size()) throw std::runtime_error("ref parser: trailing " + e.substr(rp.p)); return v; }

// ------------------------------------------------------------------------------------------ running the real signer
std::string to_descriptor_expr(const std::string& e)
{
    std::string o;
    for (size_t i = 0; i < e.size(); i++) {
        char c = e[i];
        if (c >= 'A' && c < 'A' + NKEYS && i > 0 && (e[i - 1] == '(' || e[i - 1] == ',') && i + 1 < e.size() && (e[i + 1] == ')' || e[i + 1] == ',')) o += K.hex[c - 'A'];
        else o += c;
    }
    return o;
}

struct Parsed {
    std::unique_ptr<Descriptor> desc;
    CScript spk;
    FlatSigningProvider pubprov;   // scripts, pubkeys, taproot trees; no private keys
};
std::optional<Parsed> parse_desc(const std::string& d)
{
    FlatSigningProvider keys;
    std::string err;
    auto v = Parse(d, keys, err, false);
    if (v.size() != 1) return {};
    Parsed p;
    p.desc = std::move(v[0]);
    std::vector<CScript> out;
    if (!p.desc->Expand(0, keys, out, p.pubprov) || out.size() != 1) return {};
    p.spk = out[0];
    return p;
}

enum KeyState { ABSENT = 0, PRESENT = 1, WRONG = 2 };
struct RunState {
    int key[NKEYS] = {};
    int h1 = 0, h2 = 0;          // 0 absent, 1 right preimage, 2 wrong preimage
    uint32_t locktime = 0, sequence = 0xffffffff;
    std::string str() const
    {
        std::string s = "keys=";
        for (int i = 0; i < NKEYS; i++) s += "apw"[key[i]];
        s += " h1=" + std::to_string(h1) + " h2=" + std::to_string(h2) + " nLockTime=" + std::to_string(locktime) + " nSequence=" + std::to_string(sequence);
        return s;
    }
};

struct Outcome { bool complete, verifies; };
Outcome run_sign_inner(const Parsed& p, const RunState& st, bool via_sign_transaction);
// An exception escaping the signer (e.g. its internal consistency checks) on an in-scope input is reported as a violation.
Outcome run_sign(const Parsed& p, const RunState& st, bool via_sign_transaction)
{
    try {
        return run_sign_inner(p, st, via_sign_transaction);
    } catch (const std::exception& e) {
        std::string d = p.desc->ToString();
        vx::violation("signer-exception|" + d, std::string("exception escaped the signing code: ") + e.what() + " | " + d + " | " + st.str(), d + " | " + st.str());
        return {false, false};
    }
}
Outcome run_sign_inner(const Parsed& p, const RunState& st, bool via_sign_transaction)
{
    FlatSigningProvider prov = p.pubprov;
    for (int i = 0; i < NKEYS; i++) {
        if (st.key[i] == PRESENT) prov.keys[K.pub[i].GetID()] = K.priv[i];
        else if (st.key[i] == WRONG) prov.keys[K.pub[i].GetID()] = K.wrong[i];
    }
    CMutableTransaction tx;
    tx.version = 2;
    tx.nLockTime = st.locktime;
    tx.vin.resize(1);
    tx.vin[0].prevout = COutPoint(Txid::FromUint256(uint256{5}), 1);
    tx.vin[0].nSequence = st.sequence;
    tx.vout.resize(1);
    tx.vout[0].nValue = AMOUNT - 1000;
    tx.vout[0].scriptPubKey = CScript() << OP_1;
    bool complete;
    if (via_sign_transaction) {
        std::map<COutPoint, Coin> coins;
        coins.emplace(tx.vin[0].prevout, Coin(CTxOut(AMOUNT, p.spk), 1, false));
        std::map<int, bilingual_str> errors;
        complete = SignTransaction(tx, &prov, coins, SignOptions{}, errors);
    } else {
        PrecomputedTransactionData txdata;
        txdata.Init(tx, {CTxOut(AMOUNT, p.spk)}, true);
        MutableTransactionSignatureCreator creator(tx, 0, AMOUNT, &txdata, SignOptions{});
        SignatureData sigdata;
        if (st.h1) sigdata.sha256_preimages[K.h1] = st.h1 == 1 ? K.pre1 : K.prewrong;
        if (st.h2) sigdata.hash160_preimages[K.h2] = st.h2 == 1 ? K.pre2 : K.prewrong;
        complete = ProduceSignature(prov, creator, p.spk, sigdata);
        if (complete != sigdata.complete) complete = true; // reported either way counts as "reports complete"
        UpdateInput(tx.vin[0], sigdata);
    }
    // independent verification of the finished transaction
    PrecomputedTransactionData txdata2;
    txdata2.Init(tx, {CTxOut(AMOUNT, p.spk)}, true);
    MutableTransactionSignatureChecker checker(&tx, 0, AMOUNT, txdata2, MissingDataBehavior::FAIL);
    ScriptError err;
    bool ok = VerifyScript(tx.vin[0].scriptSig, p.spk, &tx.vin[0].scriptWitness, STANDARD_SCRIPT_VERIFY_FLAGS, checker, &err);
    return {complete, ok};
}

struct Expr { std::string s; bool tap; bool tri; };   // tri: resources take 3 states (absent/present/wrong), else 2 (absent/present)

std::vector<uint32_t> timelock_values(const std::string& e, const char* frag)
{
    std::vector<uint32_t> out;
    size_t p = 0;
    std::string f = std::string(frag) + "(";
    while ((p = e.find(f, p)) != std::string::npos) { p += f.size(); out.push_back((uint32_t)strtoul(e.c_str() + p, nullptr, 10)); }
    std::sort(out.begin(), out.end()); out.erase(std::unique(out.begin(), out.end()), out.end());
    return out;
}

} // namespace

int main(int argc, char** argv)
{
    vx::init(argc, argv, "C46", "exploration");
    auto& E = vx::ev();
    const bool big = vx::thorough();
    ECC_Context ecc;
    init_keys();
    if (!vx::ctx().replay.empty()) {
        // replay: "<descriptor> | keys=apw... h1=.. h2=.. nLockTime=.. nSequence=.. [| SignTransaction]"
        std::ifstream f(vx::ctx().replay);
        std::string line;
        while (std::getline(f, line)) {
            if (line.empty() || line[0] == '#') continue;
            size_t bar = line.find(" | ");
            if (bar == std::string::npos) continue;
            if (line.find("@outpoint") != std::string::npos) { printf("replay (multi-input case, re-run the tier to re-evaluate): %s\n", line.c_str()); continue; }
            auto p = parse_desc(line.substr(0, bar));
            if (!p) { printf("replay: descriptor does not parse\n"); return 2; }
            RunState st;
            size_t kp = line.find("keys=");
            for (int i = 0; i < NKEYS; i++) { char c = line[kp + 5 + i]; st.key[i] = c == 'p' ? PRESENT : c == 'w' ? WRONG : ABSENT; }
            auto num = [&](const char* k) { size_t a = line.find(k); return a == std::string::npos ? 0ul : strtoul(line.c_str() + a + strlen(k), nullptr, 10); };
            st.h1 = (int)num("h1="); st.h2 = (int)num("h2="); st.locktime = (uint32_t)num("nLockTime="); st.sequence = (uint32_t)num("nSequence=");
            Outcome o = run_sign(*p, st, line.find("SignTransaction") != std::string::npos);
            printf("replay %s\n  complete=%d verifies=%d\n", line.c_str(), o.complete, o.verifies);
        }
        return 0;
    }

    // ---------------------------------------------------------------- generate expressions
    std::vector<Expr> exprs;
    std::map<std::string, uint64_t> gen_stats;
    for (bool tap : {false, true}) {
        Gen G(tap ? miniscript::MiniscriptContext::TAPSCRIPT : miniscript::MiniscriptContext::P2WSH);
        const std::string m = tap ? "multi_a" : "multi";
        const std::string tag = tap ? "tap" : "wsh";
        std::vector<std::string> atoms{"pk_k(A)", "pk_k(B)", "pk_k(C)", "pk_h(A)", "pk_h(B)", "older(1)", "after(1)", "sha256(" + K.h1hex + ")", "0", "1", m + "(1,D,E)"};
        if (big) for (const std::string& a : {std::string("pk_h(C)"), std::string("older(4194305)"), std::string("after(500000001)"), "hash160(" + K.h2hex + ")", m + "(2,C,D,E)"}) atoms.push_back(a);
        const std::string W = "asc" "dvjntlu";
        auto filter_par = [&](const std::vector<std::string>& cand) {   // keeps the candidates the tree's parser accepts as valid fragments (order preserved)
            std::vector<char> ok(cand.size(), 0);
            vx::par_for(cand.size(), 2048, [&](uint64_t lo, uint64_t hi, unsigned) { for (uint64_t i = lo; i < hi; i++) ok[i] = G.valid(cand[i]); });
            std::vector<std::string> out;
            for (size_t i = 0; i < cand.size(); i++) if (ok[i]) out.push_back(cand[i]);
            return out;
        };
        auto ok_keys = [&](const std::string& s) { return keys_canonical(s) && multi_ok(s); };
        // P0: atoms with one wrapper, or two wrappers when the inner one is c (key check) or v (verify)
        std::vector<std::string> c0, c0s;
        for (const auto& a : atoms) {
            c0.push_back(a); c0s.push_back(a);
            for (char w1 : W) {
                std::string x = Gen::wrap(std::string(1, w1), a);
                c0.push_back(x); c0s.push_back(x);
                if (w1 == 'c' || w1 == 'v') for (char w2 : W) c0.push_back(Gen::wrap(std::string(1, w2), x));
            }
        }
        std::vector<std::string> p0 = filter_par(c0), p0s = filter_par(c0s);
        // D1: combinators over P0 (binary), over singly-wrapped atoms (andor / thresh)
        std::vector<std::string> c1;
        for (const char* f : {"and_v", "and_b", "or_b", "or_c", "or_d", "or_i"})
            for (const auto& x : p0) for (const auto& y : p0) { std::string s2 = std::string(f) + "(" + x + "," + y + ")"; if (ok_keys(s2)) c1.push_back(s2); }
        for (const auto& x : p0s) for (const auto& y : p0s) {
            for (int k = 1; k <= 2; k++) { std::string t = "thresh(" + std::to_string(k) + "," + x + "," + y + ")"; if (ok_keys(t)) c1.push_back(t); }
            for (const auto& z : p0s) {
                std::string s3 = "andor(" + x + "," + y + "," + z + ")";
                if (!ok_keys(s3)) continue;
                c1.push_back(s3);
                for (int k = 1; k <= 3; k++) c1.push_back("thresh(" + std::to_string(k) + "," + x + "," + y + "," + z + ")");
            }
        }
        std::vector<std::string> d1 = filter_par(c1);
        std::vector<std::string> cw;
        for (const auto& x : d1) for (char w : W) cw.push_back(Gen::wrap(std::string(1, w), x));
        std::vector<std::string> wd1 = filter_par(cw);
        gen_stats[tag + "_p0"] = p0.size();
        gen_stats[tag + "_d1"] = d1.size();
        gen_stats[tag + "_wd1"] = wd1.size();
        // (expression, 3-state resources?)  quick: 3-state everywhere; thorough: 3-state for atoms and depth-1, 2-state for the larger wrapped/depth-2 sets
        std::vector<std::pair<std::string, bool>> cands;
        for (auto* v : {&p0, &d1}) for (const auto& s2 : *v) if (ok_keys(s2)) cands.emplace_back(s2, true);
        for (const auto& s2 : wd1) if (ok_keys(s2)) cands.emplace_back(s2, !big);
        if (big) {
            // depth 2: a depth-1 binary combinator expression over the quick atoms, combined with a wrapped leaf on key C /
            // older(1) / after(1) / sha256, both operand orders (keys distinct, no first-use-order reduction here)
            std::vector<std::string> tiny_c;
            for (const std::string& a : {std::string("pk_k(C)"), std::string("older(1)"), std::string("after(1)"), "sha256(" + K.h1hex + ")"}) {
                tiny_c.push_back(a);
                for (char w1 : W) {
                    std::string x = Gen::wrap(std::string(1, w1), a);
                    tiny_c.push_back(x);
                    if (w1 == 'c') for (char w2 : W) tiny_c.push_back(Gen::wrap(std::string(1, w2), x));
                }
            }
            std::vector<std::string> tiny = filter_par(tiny_c);
            auto quick_atoms_only = [&](const std::string& e) { return e.find("4194305") == std::string::npos && e.find("500000001") == std::string::npos && e.find("hash160") == std::string::npos && e.find(",C,") == std::string::npos && e.find("(C)") == std::string::npos && e.find("andor") == std::string::npos && e.find("thresh") == std::string::npos; };
            std::vector<std::string> c2;
            for (const char* f : {"and_v", "and_b", "or_b", "or_c", "or_d", "or_i"})
                for (const auto& x : d1) {
                    if (!quick_atoms_only(x) || !ok_keys(x)) continue;
                    for (const auto& y : tiny)
                        for (int order = 0; order < 2; order++) c2.push_back(std::string(f) + "(" + (order ? y : x) + "," + (order ? x : y) + ")");
                }
            std::vector<std::string> d2 = filter_par(c2);
            gen_stats[tag + "_tiny"] = tiny.size();
            gen_stats[tag + "_d2_candidates"] = c2.size();
            gen_stats[tag + "_d2"] = d2.size();
            for (const auto& s2 : d2) cands.emplace_back(s2, false);
        }
        std::sort(cands.begin(), cands.end(), [](const auto& x, const auto& y) { return x.first != y.first ? x.first < y.first : x.second > y.second; });
        cands.erase(std::unique(cands.begin(), cands.end(), [](const auto& x, const auto& y) { return x.first == y.first; }), cands.end());
        gen_stats[tag + "_candidates"] = cands.size();
        for (auto& s2 : cands) exprs.push_back({s2.first, tap, s2.second});
    }
    // deterministic interleaving (order by hash of the text): if a deadline cuts the run, the completed prefix still mixes all fragment kinds
    std::stable_sort(exprs.begin(), exprs.end(), [](const Expr& x, const Expr& y) { return vx::fnv1a(x.s) < vx::fnv1a(y.s); });
    for (auto& [k, v] : gen_stats) E.set("gen_" + k, v);
    printf("generated %zu valid candidate expressions in %.1fs\n", exprs.size(), vx::elapsed());

    // ---------------------------------------------------------------- run
    std::atomic<uint64_t> n_sane{0}, n_runs{0}, n_complete{0}, n_refsat{0}, n_unsat_checked{0}, n_wrong_runs{0};
    vx::Distinct nontrivial;
    std::atomic<bool> cut{false};
    std::mutex mu;
    std::map<std::string, uint64_t> frag_complete;   // fragments seen in completed spends
    vx::par_for(exprs.size(), 8, [&](uint64_t lo, uint64_t hi, unsigned) {
        for (uint64_t i = lo; i < hi; i++) {
            if (vx::deadline_reached()) { cut = true; return; }
            const Expr& ex = exprs[i];
            // key symmetry: canonical first-use order was enforced on generation
            const std::string dexpr = to_descriptor_expr(ex.s);
            const std::string d = ex.tap ? "tr(" + K.hex[5] + "," + dexpr + ")" : "wsh(" + dexpr + ")";
            auto p = parse_desc(d);
            if (!p) continue;                                   // not sane / not satisfiable at top level: outside the property
            n_sane++;
            // resources mentioned by the expression
            std::vector<int> keys;
            for (int k = 0; k < 5; k++) if (ex.s.find(std::string("(") + (char)('A' + k) + ")") != std::string::npos || ex.s.find(std::string(",") + (char)('A' + k)) != std::string::npos) keys.push_back(k);
            const bool has_h1 = ex.s.find("sha256(") != std::string::npos, has_h2 = ex.s.find("hash160(") != std::string::npos;
            std::vector<uint32_t> olders = timelock_values(ex.s, "older"), afters = timelock_values(ex.s, "after");
            std::vector<uint32_t> seqs{0xffffffff}, lts{0};
            for (uint32_t o : olders) { seqs.push_back(o); seqs.push_back(o - 1); }
            if (olders.empty() && !afters.empty()) seqs.push_back(0);
            for (uint32_t a : afters) { lts.push_back(a); lts.push_back(a - 1); }
            std::sort(seqs.begin(), seqs.end()); seqs.erase(std::unique(seqs.begin(), seqs.end()), seqs.end());
            std::sort(lts.begin(), lts.end()); lts.erase(std::unique(lts.begin(), lts.end()), lts.end());
            // all resource states: 3^keys x 3^hashes
            const uint64_t NS = ex.tri ? 3 : 2;
            uint64_t nstates = 1;
            for (size_t k = 0; k < keys.size() + has_h1 + has_h2; k++) nstates *= NS;
            bool any_complete = false;
            for (uint64_t code = 0; code < nstates; code++) {
                RunState st; Resources r;
                uint64_t c = code; bool any_wrong = false;
                for (int k : keys) { st.key[k] = c % NS; c /= NS; r.key[k] = st.key[k] == PRESENT; any_wrong |= st.key[k] == WRONG; }
                if (has_h1) { st.h1 = c % NS; c /= NS; r.h1 = st.h1 == 1; any_wrong |= st.h1 == 2; }
                if (has_h2) { st.h2 = c % NS; c /= NS; r.h2 = st.h2 == 1; any_wrong |= st.h2 == 2; }
                for (uint32_t sq : seqs) for (uint32_t lt : lts) {
                    st.sequence = sq; st.locktime = lt; r.sequence = sq; r.locktime = lt;
                    const bool sat = ref_sat(ex.s, r);
                    Outcome o = run_sign(*p, st, false);
                    n_runs++; if (any_wrong) n_wrong_runs++;
                    if (sat) n_refsat++;
                    if (o.complete) { n_complete++; any_complete = true; }
                    const std::string what = d + " | " + st.str();
                    if (o.complete && !o.verifies)
                        vx::violation("complete-but-invalid|" + ex.s + "|" + (ex.tap ? "tr" : "wsh"), "signer reports complete but the spend fails VerifyScript(STANDARD): " + what, what);
                    if (!sat) {
                        n_unsat_checked++;
                        if (o.complete)
                            vx::violation("fake-satisfaction|" + ex.s + "|" + (ex.tap ? "tr" : "wsh"), "signer reports complete although the available resources cannot satisfy the policy: " + what, what);
                    } else if (!any_wrong && !o.complete) {
                        vx::violation("incomplete-but-satisfiable|" + ex.s + "|" + (ex.tap ? "tr" : "wsh"), "sane miniscript, resources suffice, but the signer does not complete: " + what, what);
                    }
                }
            }
            if (any_complete) nontrivial.add(d);
        }
    });
    if (cut) E.exhaustive = false;

    // ---------------------------------------------------------------- classic templates through SignTransaction
    uint64_t n_tmpl = 0, n_tmpl_complete = 0;
    {
        struct T { std::string desc; std::vector<int> keys; int k; int alt = -1; };  // satisfiable iff >= k of keys present (or key alt present)
        const auto& H = K.hex;
        std::vector<T> ts{
            {"pk(" + H[0] + ")", {0}, 1}, {"pkh(" + H[0] + ")", {0}, 1}, {"wpkh(" + H[0] + ")", {0}, 1}, {"sh(wpkh(" + H[0] + "))", {0}, 1},
            {"sh(pk(" + H[0] + "))", {0}, 1}, {"wsh(pk(" + H[0] + "))", {0}, 1}, {"sh(wsh(pkh(" + H[0] + ")))", {0}, 1},
            {"tr(" + H[0] + ")", {0}, 1}, {"tr(" + H[5] + ",pk(" + H[0] + "))", {0}, 1}, {"tr(" + H[1] + ",pk(" + H[0] + "))", {0}, 1, 1},
            {"tr(" + H[5] + ",{pk(" + H[0] + "),pk(" + H[1] + ")})", {0, 1}, 1},
        };
        for (int n = 1; n <= 4; n++) for (int k = 1; k <= n; k++) {
            std::string ks; std::vector<int> idx;
            for (int i = 0; i < n; i++) { ks += "," + H[i]; idx.push_back(i); }
            if (n <= 3) ts.push_back({"multi(" + std::to_string(k) + ks + ")", idx, k});
            if (n <= 3) ts.push_back({"sh(multi(" + std::to_string(k) + ks + "))", idx, k});
            ts.push_back({"wsh(multi(" + std::to_string(k) + ks + "))", idx, k});
            ts.push_back({"sh(wsh(sortedmulti(" + std::to_string(k) + ks + ")))", idx, k});
            ts.push_back({"tr(" + H[5] + ",multi_a(" + std::to_string(k) + ks + "))", idx, k});
        }
        for (const auto& t : ts) {
            auto p = parse_desc(t.desc);
            if (!p) { printf("HARNESS-ERROR property=C46 template does not parse: %s\n", t.desc.c_str()); return 2; }
            std::vector<int> all = t.keys; if (t.alt >= 0) all.push_back(t.alt);
            for (uint32_t mask = 0; mask < (1u << all.size()); mask++) {
                RunState st;
                int have = 0;
                for (size_t j = 0; j < all.size(); j++) if (mask >> j & 1) { st.key[all[j]] = PRESENT; if (j < t.keys.size()) have++; }
                const bool sat = have >= t.k || (t.alt >= 0 && st.key[t.alt] == PRESENT);
                for (bool via_tx : {true, false}) {
                    Outcome o = run_sign(*p, st, via_tx);
                    n_tmpl++; n_runs++;
                    if (o.complete) { n_tmpl_complete++; n_complete++; nontrivial.add(t.desc); }
                    const std::string what = t.desc + " | " + st.str() + (via_tx ? " | SignTransaction" : " | ProduceSignature");
                    if (o.complete && !o.verifies) vx::violation("complete-but-invalid|" + t.desc, "signer reports complete but the spend fails VerifyScript(STANDARD): " + what, what);
                    if (!sat && o.complete) vx::violation("fake-satisfaction|" + t.desc, "signer reports complete without enough keys: " + what, what);
                    if (sat && !o.complete) vx::violation("incomplete-but-satisfiable|" + t.desc, "enough keys but the signer does not complete: " + what, what);
                }
            }
        }
    }

    // ---------------------------------------------------------------- multi-input transactions through SignTransaction
    // 2..3 (thorough: ..4) inputs of different script types and amounts, every ordered selection of templates x every assignment of
    // the outpoints to the inputs (all permutations: input order != outpoint order) x key availability; every input is verified
    // afterwards with PrecomputedTransactionData rebuilt in input order.
    uint64_t n_multi = 0, n_multi_complete = 0, n_multi_inputs_verified = 0;
    {
        struct MT { std::string desc; std::function<bool(bool, bool, bool)> sat; };   // satisfiable given (A, B, C) availability
        const auto& H = K.hex;
        std::vector<MT> mts{
            {"pkh(" + H[0] + ")", [](bool a, bool, bool) { return a; }},
            {"wpkh(" + H[0] + ")", [](bool a, bool, bool) { return a; }},
            {"sh(wpkh(" + H[1] + "))", [](bool, bool b, bool) { return b; }},
            {"wsh(multi(1," + H[0] + "," + H[1] + "))", [](bool a, bool b, bool) { return a || b; }},
            {"tr(" + H[0] + ")", [](bool a, bool, bool) { return a; }},
            {"tr(" + H[5] + ",pk(" + H[1] + "))", [](bool, bool b, bool) { return b; }},
        };
        if (big) {
            mts.push_back({"tr(" + H[5] + ",and_v(v:pk(" + H[0] + "),pk(" + H[2] + ")))", [](bool a, bool, bool c) { return a && c; }});
            mts.push_back({"tr(" + H[2] + ",{pk(" + H[0] + "),pk(" + H[1] + ")})", [](bool a, bool b, bool c) { return a || b || c; }});
            mts.push_back({"wsh(or_d(pk(" + H[2] + "),pk(" + H[1] + ")))", [](bool, bool b, bool c) { return b || c; }});
            mts.push_back({"sh(multi(2," + H[0] + "," + H[1] + "))", [](bool a, bool b, bool) { return a && b; }});
        }
        std::vector<Parsed> parsed;
        for (const auto& t : mts) {
            auto p = parse_desc(t.desc);
            if (!p) { printf("HARNESS-ERROR property=C46 template does not parse: %s\n", t.desc.c_str()); return 2; }
            parsed.push_back(std::move(*p));
        }
        const int NT = (int)mts.size();
        // work list: (ordered template selection, outpoint permutation)
        struct Job { std::vector<int> sel; std::vector<int> perm; };
        std::vector<Job> jobs;
        for (int n = 2; n <= (big ? 4 : 3); n++) {
            const int lim = (n == 4) ? 6 : NT;       // 4 inputs: over the first six templates
            std::vector<int> idx(n, 0);
            std::function<void(int)> rec = [&](int pos) {
                if (pos == n) {
                    std::vector<int> perm(n); for (int i = 0; i < n; i++) perm[i] = i;
                    do { jobs.push_back({idx, perm}); } while (std::next_permutation(perm.begin(), perm.end()));
                    return;
                }
                for (int t = 0; t < lim; t++) { bool used = false; for (int q = 0; q < pos; q++) used |= idx[q] == t; if (used) continue; idx[pos] = t; rec(pos + 1); }
            };
            rec(0);
        }
        std::atomic<uint64_t> a_multi{0}, a_complete{0}, a_verified{0};
        vx::par_for(jobs.size(), 16, [&](uint64_t lo, uint64_t hi, unsigned) {
            for (uint64_t j = lo; j < hi; j++) {
                if (vx::deadline_reached()) { cut = true; return; }
                const Job& job = jobs[j];
                const int n = (int)job.sel.size();
                for (int avail = 0; avail < 8; avail++) {          // subsets of {A,B,C}
                    if (!big && (avail & 4) == 0) continue;         // quick templates do not use C: keep it present
                    const bool hasA = avail & 1, hasB = avail & 2, hasC = avail & 4;
                    FlatSigningProvider prov;
                    for (int i = 0; i < n; i++) { FlatSigningProvider c = parsed[job.sel[i]].pubprov; prov.Merge(std::move(c)); }
                    if (hasA) prov.keys[K.pub[0].GetID()] = K.priv[0];
                    if (hasB) prov.keys[K.pub[1].GetID()] = K.priv[1];
                    if (hasC) prov.keys[K.pub[2].GetID()] = K.priv[2];
                    CMutableTransaction tx;
                    tx.version = 2; tx.nLockTime = 0;
                    tx.vin.resize(n); tx.vout.resize(1);
                    tx.vout[0].nValue = 1000; tx.vout[0].scriptPubKey = CScript() << OP_1;
                    std::map<COutPoint, Coin> coins;
                    std::vector<CTxOut> spent(n);
                    std::string what;
                    bool all_sat = true;
                    for (int i = 0; i < n; i++) {
                        // outpoint number perm[i] goes to input i: hashes ascend with the number, so input order != outpoint order for non-identity perms
                        tx.vin[i].prevout = COutPoint(Txid::FromUint256(uint256{(uint8_t)(0x10 + job.perm[i])}), (uint32_t)(3 - job.perm[i]));
                        tx.vin[i].nSequence = 0xfffffffd;
                        spent[i] = CTxOut(AMOUNT + 1111 * (job.sel[i] + 1), parsed[job.sel[i]].spk);
                        coins.emplace(tx.vin[i].prevout, Coin(spent[i], 1, false));
                        all_sat = all_sat && mts[job.sel[i]].sat(hasA, hasB, hasC);
                        what += (i ? " + " : "") + mts[job.sel[i]].desc + "@outpoint" + std::to_string(job.perm[i]);
                    }
                    what += std::string(" | keys A=") + (hasA ? "1" : "0") + " B=" + (hasB ? "1" : "0") + " C=" + (hasC ? "1" : "0");
                    std::map<int, bilingual_str> errors;
                    bool complete = false;
                    try {
                        complete = SignTransaction(tx, &prov, coins, SignOptions{}, errors);
                    } catch (const std::exception& e) {
                        vx::violation("signer-exception|multi|" + what, std::string("exception escaped SignTransaction: ") + e.what() + " | " + what, what);
                        continue;
                    }
                    a_multi++;
                    // independent verification of every input, spent outputs in INPUT order
                    PrecomputedTransactionData txdata2;
                    txdata2.Init(tx, std::vector<CTxOut>(spent), true);
                    bool all_verify = true;
                    for (int i = 0; i < n; i++) {
                        MutableTransactionSignatureChecker checker(&tx, i, spent[i].nValue, txdata2, MissingDataBehavior::FAIL);
                        ScriptError err;
                        const bool ok = VerifyScript(tx.vin[i].scriptSig, spent[i].scriptPubKey, &tx.vin[i].scriptWitness, STANDARD_SCRIPT_VERIFY_FLAGS, checker, &err);
                        all_verify = all_verify && ok;
                        if (ok) a_verified++;
                        const bool reported_signed = !errors.count(i);
                        if (reported_signed && !ok)
                            vx::violation("complete-but-invalid|multi|" + std::to_string(n) + "|" + mts[job.sel[i]].desc, "SignTransaction reports input " + std::to_string(i) + " signed but it fails VerifyScript(STANDARD) (" + ScriptErrorString(err) + "): " + what, what);
                        if (reported_signed && !mts[job.sel[i]].sat(hasA, hasB, hasC))
                            vx::violation("fake-satisfaction|multi|" + mts[job.sel[i]].desc, "SignTransaction reports input " + std::to_string(i) + " signed without the needed keys: " + what, what);
                    }
                    if (complete) a_complete++;
                    if (complete && !all_verify) vx::violation("complete-but-invalid|multi-tx|" + std::to_string(n), "SignTransaction returned complete but not every input verifies: " + what, what);
                    if (complete && !all_sat) vx::violation("fake-satisfaction|multi-tx", "SignTransaction returned complete without the needed keys: " + what, what);
                    if (!complete && all_sat) vx::violation("incomplete-but-satisfiable|multi-tx|" + std::to_string(n), "all keys available but SignTransaction does not complete: " + what, what);
                }
            }
        });
        n_multi = a_multi.load(); n_multi_complete = a_complete.load(); n_multi_inputs_verified = a_verified.load();
        n_runs += n_multi; n_complete += n_multi_complete;
        if (cut) E.exhaustive = false;
        E.set("multi_input_transactions", n_multi);
        E.set("multi_input_transactions_complete", n_multi_complete);
        E.set("multi_input_inputs_verified", n_multi_inputs_verified);
        if (E.exhaustive && (n_multi_complete < 100 || n_multi_complete == n_multi)) { printf("HARNESS-ERROR property=C46 vacuous multi-input family\n"); vx::finish(); return 2; }
    }

    E.evaluations = n_runs.load();
    E.distinct_nontrivial = nontrivial.size();
    E.set("expressions_generated", (uint64_t)exprs.size());
    E.set("expressions_sane", n_sane.load());
    E.set("runs_complete", n_complete.load());
    E.set("runs_reference_satisfiable", n_refsat.load());
    E.set("runs_reference_unsatisfiable", n_unsat_checked.load());
    E.set("runs_with_wrong_key_or_preimage", n_wrong_runs.load());
    E.set("template_runs", n_tmpl);
    E.set("template_runs_complete", n_tmpl_complete);
    size_t k = 0;
    for (const auto& ex : exprs) { if (k++ % std::max<size_t>(1, exprs.size() / 8) == 0) E.sample(std::string(ex.tap ? "tr: " : "wsh: ") + ex.s); }
    E.rule = std::string("miniscript expressions generated bottom-up (atoms pk_k/pk_h on A,B,C; older(1|4194305), after(1|500000001), sha256, hash160, 0, 1, multi/multi_a on C,D,E; <=2 wrappers from "
             "a s c d v j n t l u on atoms; binary combinators over all wrapped atoms; andor/thresh over singly-wrapped atoms; one wrapper on top") + (big ? "; depth 2 = binary combinators of a depth-1 expression with a singly-wrapped atom, both orders" : "") +
             "), key-symmetry reduced (first-use order A,B,C); kept iff the tree's descriptor parser accepts wsh(X) resp. tr(K,X) (sane + satisfiable); for each: every state in {absent,present,wrong}^(keys,hashes) (thorough: {absent,present} for the wrapped depth-1 and the depth-2 sets) x every "
             "(nSequence,nLockTime) in {unset, n-1, n} per timelock leaf; real ProduceSignature, then independent VerifyScript(STANDARD) of the finished tx; reference = boolean evaluation of the expression; templates: "
             "pk/pkh/wpkh/sh-wpkh/multi k-of-n (n<=4) in bare/sh/wsh/sh-wsh/tr multi_a, tr key path, tr 2 leaves x every key subset via SignTransaction and ProduceSignature; multi-input: every ordered selection of 2..3 (thorough ..4) templates from {pkh,wpkh,sh(wpkh),wsh(multi),tr key path,tr script path (+4 in thorough)} with different amounts x every permutation of the outpoints over the inputs x key subsets through SignTransaction, each input verified with PrecomputedTransactionData rebuilt in input order; distinct_nontrivial = descriptors completed at least once";
    E.assume("the tree's miniscript parser/type system is used as generator filter only (which expressions are in scope), never as the oracle");
    E.assume("clause (3) reference-satisfiable => complete is checked only when no key/preimage is in the 'wrong' state (a wrong resource may legitimately be preferred by the satisfier and then fail the final check)");
    if (E.exhaustive && (n_sane.load() < 200 || n_complete.load() < 1000 || n_unsat_checked.load() < 1000 || n_tmpl_complete < 50)) {
        printf("HARNESS-ERROR property=C46 vacuous: sane=%" PRIu64 " complete=%" PRIu64 " unsat=%" PRIu64 "\n", n_sane.load(), n_complete.load(), n_unsat_checked.load());
        vx::finish();
        return 2;
    }
    return vx::finish();
}
