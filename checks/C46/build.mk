LINK := full
