LINK := small
