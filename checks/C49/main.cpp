// C49 — Cryptographic primitives compute the standard functions.
// Producer: drives the real src/crypto classes over a bounded-exhaustive space and prints one line per case that
// check.py recomputes with hashlib / the vendored pure-Python references. Self-consistency clauses of the property
// (every chunking == one shot, decrypt∘encrypt, every single-bit tamper rejected) are decided here and reported
// as "V" lines. Output protocol (tab separated):
//   <KIND>\t<fields...>      a case for the Python oracle
//   V\t<key>\t<what>         violation found on the C++ side
//   S\t<counter>\t<n>        counter (C++ side evaluations)
//   M\t<text>                marker (AUTODETECT-BEGIN/OK, INCOMPLETE)
//   END\t<number of case lines>
#include <vx/vx.h>

#include <crypto/aes.h>
#include <crypto/chacha20.h>
#include <crypto/chacha20poly1305.h>
#include <crypto/hkdf_sha256_32.h>
#include <crypto/hmac_sha256.h>
#include <crypto/hmac_sha512.h>
#include <crypto/poly1305.h>
#include <crypto/ripemd160.h>
#include <crypto/sha1.h>
#include <crypto/sha256.h>
#include <crypto/sha3.h>
#include <crypto/sha512.h>
#include <crypto/siphash.h>
#include <uint256.h>

#include <cpuid.h>

// optimized backends (declared like in sha256.cpp)
namespace sha256_sse4 { void Transform(uint32_t* s, const unsigned char* chunk, size_t blocks); }
namespace sha256d64_sse41 { void Transform_4way(unsigned char* out, const unsigned char* in); }
namespace sha256d64_avx2 { void Transform_8way(unsigned char* out, const unsigned char* in); }
namespace sha256d64_x86_shani { void Transform_2way(unsigned char* out, const unsigned char* in); }
namespace sha256_x86_shani { void Transform(uint32_t* s, const unsigned char* chunk, size_t blocks); }

using Bytes = std::vector<uint8_t>;

// ---------------------------------------------------------------- content patterns (mirrored in check.py)
static const int NPAT = 4;
static Bytes g_pat[NPAT];
static void init_patterns(size_t n)
{
    for (int p = 0; p < NPAT; p++) g_pat[p].resize(n);
    uint64_t x = 0x9E3779B97F4A7C15ULL;
    for (size_t i = 0; i < n; i++) {
        g_pat[0][i] = (uint8_t)i;     // counter bytes
        g_pat[1][i] = 0xFF;           // all ones (carries / padding edges)
        x = x * 6364136223846793005ULL + 1442695040888963407ULL;
        g_pat[2][i] = (uint8_t)(x >> 56); // fixed LCG stream ("arbitrary" content; deterministic)
        g_pat[3][i] = 0x00;
    }
}
static const uint8_t* pat(int p, size_t off = 0) { return g_pat[p].data() + off; }
static std::span<const std::byte> bspan(const uint8_t* p, size_t n) { return {reinterpret_cast<const std::byte*>(p), n}; }
static std::span<std::byte> bspan(uint8_t* p, size_t n) { return {reinterpret_cast<std::byte*>(p), n}; }

// ---------------------------------------------------------------- sink
struct Sink {
    std::mutex mu;
    std::vector<std::string> lines;
    uint64_t emitted = 0;
    std::map<std::string, uint64_t> stats;
    std::set<std::string> vkeys;
    void line(std::string s) { std::lock_guard<std::mutex> l(mu); lines.push_back(std::move(s)); }
    void stat(const std::string& k, uint64_t n) { std::lock_guard<std::mutex> l(mu); stats[k] += n; }
    void viol(const std::string& key, const std::string& what)
    {
        std::lock_guard<std::mutex> l(mu);
        if (!vkeys.insert(key).second || vkeys.size() > 40) return;
        printf("V\t%s\t%s\n", key.c_str(), what.c_str());
        fflush(stdout);
    }
    void flush()
    {
        std::lock_guard<std::mutex> l(mu);
        std::sort(lines.begin(), lines.end());
        for (auto& s : lines) { fputs(s.c_str(), stdout); fputc('\n', stdout); }
        emitted += lines.size();
        lines.clear();
        fflush(stdout);
    }
    void finish()
    {
        flush();
        for (auto& kv : stats) printf("S\t%s\t%" PRIu64 "\n", kv.first.c_str(), kv.second);
        printf("END\t%" PRIu64 "\n", emitted);
        fflush(stdout);
    }
};
static Sink S;
static std::atomic<bool> g_incomplete{false};
static bool out_of_time() { if (vx::deadline_reached()) { g_incomplete = true; return true; } return false; }
static std::string T(std::initializer_list<std::string> f)
{
    std::string o;
    for (auto& x : f) { if (!o.empty()) o += '\t'; o += x.empty() ? "-" : x; }
    return o;
}
static std::string hx(const uint8_t* p, size_t n) { return n ? vx::hex(p, n) : std::string("-"); }
static std::string hx(const std::string& s) { return hx((const uint8_t*)s.data(), s.size()); }
static std::string u(uint64_t v) { return std::to_string(v); }

// ---------------------------------------------------------------- streaming hashers: adapters
template <class H> struct PtrH {
    H h;
    void w(const uint8_t* p, size_t n) { h.Write(p, n); }
    std::string fin() { uint8_t o[H::OUTPUT_SIZE]; h.Finalize(o); return std::string((char*)o, H::OUTPUT_SIZE); }
    void reset() { h.Reset(); }
    static constexpr bool has_reset = true;
};
struct Sha3H {
    SHA3_256 h;
    void w(const uint8_t* p, size_t n) { h.Write(std::span<const unsigned char>(p, n)); }
    std::string fin() { uint8_t o[32]; h.Finalize(o); return std::string((char*)o, 32); }
    void reset() { h.Reset(); }
    static constexpr bool has_reset = true;
};
template <class H> struct HmacH {
    H h;
    HmacH(const uint8_t* k, size_t kl) : h(k, kl) {}
    void w(const uint8_t* p, size_t n) { h.Write(p, n); }
    std::string fin() { uint8_t o[H::OUTPUT_SIZE]; h.Finalize(o); return std::string((char*)o, H::OUTPUT_SIZE); }
    void reset() {}
    static constexpr bool has_reset = false;
};
struct SipH {
    CSipHasher h;
    SipH(uint64_t k0, uint64_t k1) : h(k0, k1) {}
    void w(const uint8_t* p, size_t n) { h.Write(std::span<const unsigned char>(p, n)); }
    std::string fin()
    {
        uint64_t a = h.Finalize(), b = h.Finalize(); // Finalize is const: must be repeatable
        if (a != b) S.viol("siphash-finalize-not-const", "two Finalize() calls differ");
        char buf[20]; snprintf(buf, sizeof buf, "%016" PRIx64, a); return buf;
    }
    void reset() {}
    static constexpr bool has_reset = false;
};
struct PolyH {
    Poly1305 h;
    explicit PolyH(const uint8_t* key) : h(bspan(key, 32)) {}
    void w(const uint8_t* p, size_t n) { h.Update(bspan(p, n)); }
    std::string fin() { uint8_t o[16]; h.Finalize(bspan(o, 16)); return std::string((char*)o, 16); }
    void reset() {}
    static constexpr bool has_reset = false;
};

// For every content pattern and every length 0..L2: one-shot digest (emitted for the Python oracle), every 2-way
// chunking, every 3-way chunking for lengths <= L3, byte-at-a-time, and Reset()+reuse.
template <class Make>
static void stream_section(const std::string& kind, const std::string& algo, const std::string& extra, Make make,
                           const std::vector<int>& pats, size_t L2, size_t L3, bool fin_is_hex = false)
{
    const size_t nl = L2 + 1;
    std::atomic<uint64_t> n_chunk{0}, n_reuse{0};
    vx::par_for(pats.size() * nl, 1, [&](uint64_t lo, uint64_t hi, unsigned) {
        for (uint64_t idx = lo; idx < hi; idx++) {
            if (out_of_time()) continue; // a deadline is not a violation: complete (pattern,length) units only
            const int p = pats[idx / nl];
            const size_t len = L2 - idx % nl; // long ones first (better balance)
            const uint8_t* d = pat(p);
            auto h = make();
            h.w(d, len);
            const std::string ref = h.fin();
            std::string where = algo + (extra.empty() ? "" : "/" + extra) + " pat=" + u(p) + " len=" + u(len);
            if constexpr (decltype(h)::has_reset) {
                h.reset();
                h.w(d, len);
                if (h.fin() != ref) S.viol(algo + "-reset-p" + u(p) + "-len" + u(len), "digest after Reset() differs: " + where);
            }
            if constexpr (decltype(h)::has_reset) {
                // object reuse: a hasher that has absorbed k bytes (buffer partly filled, no Finalize) and is Reset() must
                // behave like a fresh one, for every k up to two blocks
                if (len <= 200 && (len % 7 == 0 || len < 4 || len % 64 >= 55)) {
                    for (size_t k = 0; k <= 260; k++) {
                        auto g = make();
                        g.w(pat(p == 1 ? 2 : 1), k);
                        g.reset();
                        g.w(d, len);
                        n_reuse++;
                        if (g.fin() != ref) { S.viol(algo + "-reset-after-partial-write-p" + u(p) + "-len" + u(len), "Write(" + u(k) + " bytes); Reset(); Write(msg); Finalize() differs from a fresh object: " + where); break; }
                    }
                }
            }
            if (extra.empty()) S.line(T({kind, algo, u(p), u(len), fin_is_hex ? ref : hx(ref)}));
            else S.line(T({kind, algo, extra, u(p), u(len), fin_is_hex ? ref : hx(ref)}));
            uint64_t n = 0;
            for (size_t i = 0; i <= len; i++) {
                auto g = make();
                g.w(d, i);
                g.w(d + i, len - i);
                n++;
                if (g.fin() != ref) { S.viol(algo + "-chunk2-p" + u(p) + "-len" + u(len), "2-way chunking differs from one shot: " + where + " cut=" + u(i)); break; }
            }
            if (len <= L3) {
                bool bad = false;
                for (size_t i = 0; i <= len && !bad; i++)
                    for (size_t j = i; j <= len; j++) {
                        auto g = make();
                        g.w(d, i);
                        g.w(d + i, j - i);
                        g.w(d + j, len - j);
                        n++;
                        if (g.fin() != ref) { S.viol(algo + "-chunk3-p" + u(p) + "-len" + u(len), "3-way chunking differs from one shot: " + where + " cuts=" + u(i) + "," + u(j)); bad = true; break; }
                    }
            }
            {
                auto g = make();
                for (size_t i = 0; i < len; i++) g.w(d + i, 1);
                n++;
                if (g.fin() != ref) S.viol(algo + "-bytewise-p" + u(p) + "-len" + u(len), "byte-at-a-time differs from one shot: " + where);
            }
            n_chunk += n;
        }
    });
    S.stat("chunkings", n_chunk);
    if (n_reuse) S.stat("hasher_reset_reuse", n_reuse);
    S.flush();
}

// ---------------------------------------------------------------- SHA-256 backends called directly
static const uint32_t SHA256_INIT[8] = {0x6a09e667, 0xbb67ae85, 0x3c6ef372, 0xa54ff53a, 0x510e527f, 0x9b05688c, 0x1f83d9ab, 0x5be0cd19};
static Bytes sha256_pad(const uint8_t* d, size_t len)
{
    Bytes m(d, d + len);
    m.push_back(0x80);
    while (m.size() % 64 != 56) m.push_back(0);
    uint64_t bits = (uint64_t)len * 8;
    for (int i = 7; i >= 0; i--) m.push_back((uint8_t)(bits >> (8 * i)));
    return m;
}
typedef void (*TransformFn)(uint32_t*, const unsigned char*, size_t);
static void direct_transform(const std::string& name, TransformFn fn, size_t L)
{
    std::atomic<uint64_t> n{0};
    vx::par_for((L + 1) * NPAT, 4, [&](uint64_t lo, uint64_t hi, unsigned) {
        for (uint64_t idx = lo; idx < hi; idx++) {
            int p = idx / (L + 1);
            size_t len = idx % (L + 1);
            Bytes m = sha256_pad(pat(p), len);
            size_t nb = m.size() / 64;
            std::string ref;
            for (size_t k = 0; k <= nb; k++) { // every split of the block run into two Transform calls
                uint32_t s[8];
                memcpy(s, SHA256_INIT, sizeof s);
                if (k) fn(s, m.data(), k);
                if (nb - k) fn(s, m.data() + 64 * k, nb - k);
                std::string out;
                for (int i = 0; i < 8; i++) for (int b = 3; b >= 0; b--) out += (char)(s[i] >> (8 * b));
                if (k == 0) ref = out;
                else if (out != ref) { S.viol(name + "-blocksplit-p" + u(p) + "-len" + u(len), "Transform(k blocks)+Transform(rest) != Transform(all) k=" + u(k)); break; }
                n++;
            }
            S.line(T({"H", "sha256!" + name, u(p), u(len), hx(ref)}));
        }
    });
    S.stat("direct_transform_calls", n);
    S.flush();
}
typedef void (*D64Fn)(unsigned char*, const unsigned char*);
static void direct_d64(const std::string& name, D64Fn fn, int ways, size_t noff)
{
    for (int p = 0; p < NPAT; p++)
        for (size_t off = 0; off < noff; off++) {
            Bytes out(32 * ways + 1);
            fn(out.data() + (off & 1), pat(p, off)); // also an unaligned output pointer
            S.line(T({"D", "d64!" + name, u(p), u(off), u(ways), hx(out.data() + (off & 1), 32 * ways)}));
        }
    S.flush();
}

static void sha256_api_sections(const std::string& tag, size_t L2, size_t L3, size_t dblocks)
{
    stream_section("H", "sha256" + tag, "", [] { return PtrH<CSHA256>{}; }, {0, 1, 2, 3}, L2, L3);
    // SHA256D64 through the dispatcher: every block count (mixes 8/4/2/1-way runs), two input offsets
    for (int p = 0; p < NPAT; p++)
        for (size_t off : {size_t(0), size_t(1), size_t(37)})
            for (size_t nb = 0; nb <= dblocks; nb++) {
                Bytes out(32 * nb + 2, 0xAA);
                SHA256D64(out.data() + 1, pat(p, off), nb);
                if (out[0] != 0xAA || out[32 * nb + 1] != 0xAA) S.viol("sha256d64-oob" + tag, "SHA256D64 wrote outside its output buffer blocks=" + u(nb));
                S.line(T({"D", "d64" + tag, u(p), u(off), u(nb), hx(out.data() + 1, 32 * nb)}));
                // cross-check with the streaming class (same backend selection)
                for (size_t b = 0; b < nb; b++) {
                    uint8_t h1[32], h2[32];
                    CSHA256().Write(pat(p, off + 64 * b), 64).Finalize(h1);
                    CSHA256().Write(h1, 32).Finalize(h2);
                    if (memcmp(h2, out.data() + 1 + 32 * b, 32)) { S.viol("sha256d64-vs-csha256" + tag + "-nb" + u(nb), "SHA256D64 lane " + u(b) + " of " + u(nb) + " != CSHA256 double hash (pat " + u(p) + " off " + u(off) + ")"); break; }
                }
                S.stat("d64_lanes", nb);
            }
    S.flush();
}

// ---------------------------------------------------------------- ChaCha20
struct NonceCase { uint32_t lo; uint64_t hi; };
static const NonceCase NONCES[] = {{0, 0}, {1, 0x0807060504030201ULL}, {0xFFFFFFFFu, 0xFFFFFFFFFFFFFFFFULL}, {0x01020304u, 0x8000000000000000ULL}};
static const uint32_t COUNTERS[] = {0, 1, 0x7FFFFFFFu, 0xFFFFFFFEu, 0xFFFFFFFFu};

static void chacha_sections(size_t Lmax, size_t L2, size_t L3)
{
    struct Item { int kp; int ni; int ci; };
    std::vector<Item> items;
    for (int kp = 0; kp < NPAT; kp++) for (int ni = 0; ni < 4; ni++) for (int ci = 0; ci < 5; ci++) items.push_back({kp, ni, ci});
    std::atomic<uint64_t> nchunk{0}, nprefix{0};
    vx::par_for(items.size(), 1, [&](uint64_t lo, uint64_t hi, unsigned) {
        for (uint64_t it = lo; it < hi; it++) {
            auto [kp, ni, ci] = items[it];
            const uint8_t* key = pat(kp, kp == 2 ? 100 : 0);
            ChaCha20::Nonce96 nonce{NONCES[ni].lo, NONCES[ni].hi};
            uint32_t ctr = COUNTERS[ci];
            std::string tagk = "k" + u(kp) + "-n" + u(ni) + "-c" + u(ci);
            // one-shot keystream of Lmax bytes: value decided by Python
            Bytes ks(Lmax);
            { ChaCha20 c(bspan(key, 32)); c.Seek(nonce, ctr); c.Keystream(bspan(ks.data(), Lmax)); }
            S.line(T({"CC", u(kp), u(NONCES[ni].lo), u(NONCES[ni].hi), u(ctr), u(Lmax), hx(ks.data(), Lmax)}));
            // aligned class, whole blocks
            {
                size_t nb = Lmax / 64;
                Bytes a(nb * 64), b(nb * 64);
                ChaCha20Aligned c(bspan(key, 32));
                c.Seek(nonce, ctr);
                c.Keystream(bspan(a.data(), a.size()));
                c.Seek(nonce, ctr);
                c.Crypt(bspan(pat(2), b.size()), bspan(b.data(), b.size()));
                bool ok = !memcmp(a.data(), ks.data(), a.size());
                for (size_t i = 0; i < b.size() && ok; i++) ok = b[i] == (uint8_t)(ks[i] ^ pat(2)[i]);
                if (!ok) S.viol("chacha20aligned-" + tagk, "ChaCha20Aligned Keystream/Crypt differs from ChaCha20 keystream");
                // block-at-a-time
                c.Seek(nonce, ctr);
                for (size_t i = 0; i < nb; i++) { uint8_t blk[64]; c.Keystream(bspan(blk, 64)); if (memcmp(blk, ks.data() + 64 * i, 64)) { S.viol("chacha20aligned-blockwise-" + tagk, "block " + u(i)); break; } }
            }
            // SetKey on an object that was used before == fresh object
            {
                Bytes o(130);
                ChaCha20 c(bspan(pat(1), 32));
                c.Keystream(bspan(o.data(), 7));
                c.SetKey(bspan(key, 32));
                c.Seek(nonce, ctr);
                c.Keystream(bspan(o.data(), 130));
                if (memcmp(o.data(), ks.data(), 130)) S.viol("chacha20-setkey-" + tagk, "SetKey+Seek on a used object differs from a fresh object");
            }
            // every length: prefix property (Keystream and Crypt)
            for (size_t len = 0; len <= Lmax; len++) {
                Bytes o(len + 1, 0x5A), e(len + 1, 0x5A);
                ChaCha20 c(bspan(key, 32));
                c.Seek(nonce, ctr);
                c.Keystream(bspan(o.data(), len));
                c.Seek(nonce, ctr);
                c.Crypt(bspan(pat(2), len), bspan(e.data(), len));
                bool ok = !memcmp(o.data(), ks.data(), len) && o[len] == 0x5A && e[len] == 0x5A;
                for (size_t i = 0; i < len && ok; i++) ok = e[i] == (uint8_t)(ks[i] ^ pat(2)[i]);
                nprefix += 2;
                if (!ok) { S.viol("chacha20-len-" + tagk, "Keystream/Crypt of len " + u(len) + " is not the prefix of the long keystream (or wrote out of bounds)"); break; }
            }
            // chunkings with every mix of Keystream / Crypt pieces (they share the 64-byte buffer)
            uint64_t n = 0;
            bool bad = false;
            auto run = [&](size_t len, const size_t* cuts, int npieces, unsigned opmask) {
                Bytes o(len);
                ChaCha20 c(bspan(key, 32));
                c.Seek(nonce, ctr);
                size_t a = 0;
                for (int k = 0; k < npieces; k++) {
                    size_t b = k + 1 < npieces ? cuts[k] : len;
                    if ((opmask >> k) & 1) c.Crypt(bspan(pat(2, a), b - a), bspan(o.data() + a, b - a));
                    else c.Keystream(bspan(o.data() + a, b - a));
                    a = b;
                }
                a = 0;
                for (int k = 0; k < npieces; k++) {
                    size_t b = k + 1 < npieces ? cuts[k] : len;
                    for (size_t i = a; i < b; i++) {
                        uint8_t want = ((opmask >> k) & 1) ? (uint8_t)(ks[i] ^ pat(2)[i]) : ks[i];
                        if (o[i] != want) return false;
                    }
                    a = b;
                }
                return true;
            };
            for (size_t len = 0; len <= L2 && !bad; len++) {
                for (size_t i = 0; i <= len && !bad; i++) {
                    size_t cuts[1] = {i};
                    for (unsigned m = 0; m < 4; m++) { n++; if (!run(len, cuts, 2, m)) { S.viol("chacha20-chunk2-" + tagk, "len=" + u(len) + " cut=" + u(i) + " opmask=" + u(m)); bad = true; break; } }
                }
                if (len <= L3)
                    for (size_t i = 0; i <= len && !bad; i++)
                        for (size_t j = i; j <= len && !bad; j++) {
                            size_t cuts[2] = {i, j};
                            for (unsigned m = 0; m < 8; m++) { n++; if (!run(len, cuts, 3, m)) { S.viol("chacha20-chunk3-" + tagk, "len=" + u(len) + " cuts=" + u(i) + "," + u(j) + " opmask=" + u(m)); bad = true; break; } }
                        }
            }
            nchunk += n;
        }
    });
    S.stat("chacha20_chunkings", nchunk);
    S.stat("chacha20_lengths", nprefix);
    // ---- object reuse: SetKey() is documented as "set key, and seek to nonce 0 and block position 0". An object that has
    // produced k bytes (k not a multiple of 64 leaves keystream in its buffer) with an old key / nonce / position and is
    // then given a new key WITHOUT Seek must hand out exactly the stream of the new key from (nonce 0, block 0), which
    // is one of the streams check.py recomputes (CC line with nonce (0,0), counter 0). Also SetKey -> Seek -> stream.
    {
        const size_t KMAX = L3 > 100 ? 200 : 130, N = 200;
        std::atomic<uint64_t> nreuse{0};
        vx::par_for(NPAT * NPAT, 1, [&](uint64_t lo, uint64_t hi, unsigned) {
            for (uint64_t it = lo; it < hi; it++) {
                const int kold = it / NPAT, knew = it % NPAT;
                const uint8_t *oldkey = pat(kold, kold == 2 ? 100 : 0), *newkey = pat(knew, knew == 2 ? 100 : 0);
                Bytes fresh(N), fresh_noseek(N), seeked(N);
                { ChaCha20 c(bspan(newkey, 32)); c.Seek({0, 0}, 0); c.Keystream(bspan(fresh.data(), N)); }
                { ChaCha20 c(bspan(newkey, 32)); c.Keystream(bspan(fresh_noseek.data(), N)); }
                if (fresh != fresh_noseek) S.viol("chacha20-fresh-object-position-k" + u(knew), "a fresh object does not start at nonce 0, block 0");
                { ChaCha20 c(bspan(newkey, 32)); c.Seek({NONCES[1].lo, NONCES[1].hi}, 5); c.Keystream(bspan(seeked.data(), N)); }
                uint64_t n = 0;
                for (size_t k = 0; k <= KMAX; k++)
                    for (int mode = 0; mode < 4; mode++) { // how the k bytes were consumed: Keystream / Crypt / after a Seek elsewhere / split in two calls
                        ChaCha20 c(bspan(oldkey, 32));
                        Bytes junk(k + 1);
                        if (mode == 2) c.Seek({7, 9}, 0xFFFFFFFFu);
                        if (mode == 1) c.Crypt(bspan(pat(2), k), bspan(junk.data(), k));
                        else if (mode == 3) { c.Keystream(bspan(junk.data(), k / 2)); c.Crypt(bspan(pat(0), k - k / 2), bspan(junk.data() + k / 2, k - k / 2)); }
                        else c.Keystream(bspan(junk.data(), k));
                        c.SetKey(bspan(newkey, 32));
                        Bytes out(N), out2(N);
                        // consume the new stream in two pieces, one Keystream and one Crypt
                        c.Keystream(bspan(out.data(), 70));
                        c.Crypt(bspan(pat(3), N - 70), bspan(out.data() + 70, N - 70)); // pattern 3 is all zero: Crypt == Keystream
                        n++;
                        if (out != fresh) {
                            size_t pos = 0; while (pos < N && out[pos] == fresh[pos]) pos++;
                            S.viol("chacha20-setkey-without-seek-k" + u(k % 64 ? 1 : 0) + "-mode" + u(mode), "after producing " + u(k) + " bytes, SetKey(new key) without Seek does not restart at nonce 0 / block 0 of the new key (first difference at byte " + u(pos) + ", old key pattern " + u(kold) + ", new key pattern " + u(knew) + ")");
                        }
                        ChaCha20 d(bspan(oldkey, 32));
                        d.Keystream(bspan(junk.data(), k));
                        d.SetKey(bspan(newkey, 32));
                        d.Seek({NONCES[1].lo, NONCES[1].hi}, 5);
                        d.Keystream(bspan(out2.data(), N));
                        n++;
                        if (out2 != seeked) S.viol("chacha20-setkey-seek-k" + u(k % 64 ? 1 : 0), "after producing " + u(k) + " bytes, SetKey + Seek differs from a fresh object with the same key and position");
                    }
                // aligned core: whole blocks only
                for (size_t kb = 0; kb <= 3; kb++) {
                    ChaCha20Aligned a(bspan(oldkey, 32));
                    a.Seek({3, 4}, 0xFFFFFFFEu);
                    Bytes junk(64 * kb + 1), out(192);
                    a.Keystream(bspan(junk.data(), 64 * kb));
                    a.SetKey(bspan(newkey, 32));
                    a.Keystream(bspan(out.data(), 192));
                    n++;
                    if (memcmp(out.data(), fresh.data(), 192)) S.viol("chacha20aligned-setkey-position", "ChaCha20Aligned::SetKey does not restart at nonce 0 / block 0 after " + u(kb) + " blocks at another position");
                }
                nreuse += n;
            }
        });
        S.stat("chacha20_setkey_reuse", nreuse);
    }
    S.flush();
}

// chunk / packet length schedule used for the forward-secure wrappers (fixed list, cycled)
static const size_t FS_LENS[] = {0, 1, 3, 63, 64, 65, 32, 130, 16, 17, 5, 128, 31, 2, 100};
static void fschacha_sections(const std::vector<uint32_t>& intervals)
{
    for (uint32_t iv : intervals)
        for (int kp : {0, 2}) {
            size_t nchunks = 3 * (size_t)iv + 2;
            FSChaCha20 enc(bspan(pat(kp, 7), 32), iv), dec(bspan(pat(kp, 7), 32), iv);
            std::string lens, out;
            size_t pos = 0;
            for (size_t i = 0; i < nchunks; i++) {
                size_t len = FS_LENS[i % 15];
                Bytes o(len), back(len);
                enc.Crypt(bspan(pat(2, pos % 4000), len), bspan(o.data(), len));
                dec.Crypt(bspan(o.data(), len), bspan(back.data(), len));
                if (memcmp(back.data(), pat(2, pos % 4000), len)) S.viol("fschacha20-roundtrip-i" + u(iv), "chunk " + u(i) + " does not decrypt to the plaintext");
                lens += (i ? "," : "") + u(len);
                out += vx::hex(o.data(), len);
                pos += len;
            }
            S.stat("fschacha20_chunks", nchunks);
            S.line(T({"FSC", u(kp), u(iv), lens, out}));
        }
    S.flush();
}

// ---------------------------------------------------------------- Poly1305
static Bytes unhex(const char* s)
{
    Bytes o;
    auto v = [](char c) { return c <= '9' ? c - '0' : (c | 32) - 'a' + 10; };
    for (; s[0] && s[1]; s += 2) o.push_back((uint8_t)(v(s[0]) * 16 + v(s[1])));
    return o;
}
static std::vector<Bytes> poly_keys()
{
    std::vector<Bytes> k;
    k.emplace_back(pat(0), pat(0) + 32);
    k.emplace_back(pat(1), pat(1) + 32);           // r = clamp(ff..ff) (max r), s = ff..ff
    k.emplace_back(pat(2, 40), pat(2, 40) + 32);
    k.emplace_back(pat(3), pat(3) + 32);           // r = 0, s = 0
    for (const char* h : {"0100000000000000000000000000000000000000000000000000000000000000",  // r=1 s=0
                          "01000000000000000000000000000000ffffffffffffffffffffffffffffffff",  // r=1 s=max
                          "0200000000000000000000000000000000000000000000000000000000000000",  // r=2
                          "02000000000000000000000000000000ffffffffffffffffffffffffffffffff",
                          "ffffff0ffcffff0ffcffff0ffcffff0f00000000000000000000000000000000",  // r = max clamped, s=0
                          "ffffff0ffcffff0ffcffff0ffcffff0f05000000000000000000000000000000",
                          "0100000000000000040000000000000000000000000000000000000000000000",  // RFC A.3 #10/#11 key
                          "85d6be7857556d337f4452fe42d506a80103808afb0db2fd4abff6af4149f51b"}) // RFC 2.5.2
        k.push_back(unhex(h));
    return k;
}
static void poly_sections(size_t L2, size_t L3)
{
    auto keys = poly_keys();
    for (auto& key : keys)
        stream_section("P", "poly1305", vx::hex(key), [&] { return PolyH(key.data()); }, {0, 1, 2, 3}, L2, L3);
    // explicit edge messages: with r=1 the accumulator is the plain sum of the blocks; hit p-8 .. p+8 and 2^130 wrap
    std::vector<Bytes> msgs;
    for (int delta = -8; delta <= 8; delta++) {
        Bytes m(48, 0);
        for (int i = 0; i < 16; i++) m[i] = 0xFF;
        m[0] = 0xF0;                   // 2^128 - 16
        m[16] = (uint8_t)(11 + delta); // sum = 2^128 - 5 + delta ; +3*2^128 from the pad bits => p + delta
        msgs.push_back(m);
    }
    for (const char* h : {"ffffffffffffffffffffffffffffffff", "02000000000000000000000000000000", "fdffffffffffffffffffffffffffffff",
                          "fffffffffffffffffffffffffffffffff0ffffffffffffffffffffffffffffff11000000000000000000000000000000",
                          "fffffffffffffffffffffffffffffffffbfefefefefefefefefefefefefefefe01010101010101010101010101010101",
                          "e33594d7505e43b900000000000000003394d7505e4379cd01000000000000000000000000000000000000000000000001000000000000000000000000000000",
                          "e33594d7505e43b900000000000000003394d7505e4379cd010000000000000000000000000000000000000000000000",
                          "fbffffffffffffffffffffffffffffff03", "faffffffffffffffffffffffffffffff", "fbffffffffffffffffffffffffffffff", "fcffffffffffffffffffffffffffffff"})
        msgs.push_back(unhex(h));
    for (auto& key : keys)
        for (auto& m : msgs) {
            uint8_t tag[16];
            Poly1305(bspan(key.data(), 32)).Update(bspan(m.data(), m.size())).Finalize(bspan(tag, 16));
            S.line(T({"PX", vx::hex(key), vx::hex(m), hx(tag, 16)}));
        }
    S.flush();
}

// ---------------------------------------------------------------- AES
static void aes_sections(bool big)
{
    std::vector<Bytes> keys;
    for (int p = 0; p < NPAT; p++) keys.emplace_back(pat(p, p == 2 ? 64 : 0), pat(p, p == 2 ? 64 : 0) + 32);
    std::vector<Bytes> blocks;
    for (int b = 0; b < 256; b++) blocks.emplace_back(16, (uint8_t)b);              // every S-box input in every lane
    for (int bit = 0; bit < 128; bit++) { Bytes x(16, 0); x[bit / 8] = 1 << (bit % 8); blocks.push_back(x); }
    for (int i = 0; i < 16; i++) blocks.emplace_back(pat(2, 16 * i), pat(2, 16 * i) + 16);
    std::vector<std::pair<Bytes, Bytes>> cases;
    for (auto& k : keys) for (auto& b : blocks) cases.emplace_back(k, b);
    int nkeybits = big ? 256 : 32;
    for (int bit = 0; bit < nkeybits; bit++) { // single-bit keys: key schedule coverage
        Bytes k(32, 0);
        int bb = big ? bit : bit * 8 + (bit % 8);
        k[bb / 8] = 1 << (bb % 8);
        cases.emplace_back(k, Bytes(pat(0), pat(0) + 16));
    }
    for (auto& [k, b] : cases) {
        uint8_t ct[16], back[16];
        AES256Encrypt(k.data()).Encrypt(ct, b.data());
        AES256Decrypt(k.data()).Decrypt(back, ct);
        if (memcmp(back, b.data(), 16)) S.viol("aes256-roundtrip-" + vx::hex(k).substr(0, 8) + "-" + vx::hex(b).substr(0, 8), "Decrypt(Encrypt(x)) != x");
        S.line(T({"AES", vx::hex(k), vx::hex(b), hx(ct, 16)}));
    }
    S.stat("aes_roundtrips", cases.size());
    S.flush();
    // CBC: every length
    size_t L = big ? 300 : 100;
    for (int kp : {0, 2})
        for (int ip : {1, 2})
            for (int pad = 0; pad <= 1; pad++)
                for (size_t len = 1; len <= L; len++) {
                    const uint8_t *key = pat(kp, 3), *iv = pat(ip, 50);
                    Bytes out(len + 32, 0xCC);
                    int n = AES256CBCEncrypt(key, iv, pad).Encrypt(pat(2, len), (int)len, out.data());
                    if (out[n] != 0xCC) S.viol("cbc-enc-oob", "wrote past returned size");
                    S.line(T({"CBC", u(kp), u(ip), u(pad), u(len), u(n), hx(out.data(), n)}));
                    if (n > 0) {
                        Bytes back(n + 16, 0xCC);
                        int m = AES256CBCDecrypt(key, iv, pad).Decrypt(out.data(), n, back.data());
                        if (m != (int)len || memcmp(back.data(), pat(2, len), len)) S.viol("cbc-roundtrip-pad" + u(pad) + "-len" + u(len), "CBC decrypt(encrypt(x)) != x (ret " + u(m) + ")");
                        S.stat("cbc_roundtrips", 1);
                        // wrong sizes must be refused
                        if (AES256CBCDecrypt(key, iv, pad).Decrypt(out.data(), n - 1, back.data()) != 0) S.viol("cbc-dec-size-" + u(n - 1), "ciphertext length not a multiple of 16 accepted");
                    }
                }
    S.flush();
    // CBC decrypt with padding over crafted final blocks: last byte v, one other byte optionally different
    {
        const uint8_t *key = pat(2, 9), *iv = pat(0, 77);
        std::vector<int> vs;
        if (big) for (int v = 0; v < 256; v++) vs.push_back(v);
        else { for (int v = 0; v <= 18; v++) vs.push_back(v); vs.push_back(0x80); vs.push_back(0xFF); vs.push_back(0x20); }
        for (int nblk = 1; nblk <= 2; nblk++)
            for (int v : vs)
                for (int k = -1; k < 15; k++) {
                    Bytes plain(16 * nblk);
                    for (size_t i = 0; i < plain.size(); i++) plain[i] = (i >= plain.size() - 16) ? (uint8_t)v : pat(2)[i];
                    if (k >= 0) plain[plain.size() - 16 + k] ^= 0x01; // differs from v at position k
                    Bytes ct(plain.size());
                    int n = AES256CBCEncrypt(key, iv, false).Encrypt(plain.data(), (int)plain.size(), ct.data());
                    if (n != (int)plain.size()) { S.viol("cbc-nopad-enc", "unpadded encrypt of whole blocks failed"); continue; }
                    Bytes out(plain.size() + 1, 0xCC);
                    int m = AES256CBCDecrypt(key, iv, true).Decrypt(ct.data(), n, out.data());
                    S.line(T({"CBCD", vx::hex(Bytes(key, key + 32)), vx::hex(Bytes(iv, iv + 16)), vx::hex(ct), u(m), hx(out.data(), m)}));
                }
        // every single-bit change of IV / ciphertext of a padded message
        for (size_t len : {size_t(1), size_t(15), size_t(16), size_t(17)}) {
            Bytes ct(len + 16);
            int n = AES256CBCEncrypt(key, iv, true).Encrypt(pat(0, 5), (int)len, ct.data());
            ct.resize(n);
            for (int bit = 0; bit < (16 + n) * 8; bit++) {
                Bytes iv2(iv, iv + 16), c2 = ct;
                if (bit < 128) iv2[bit / 8] ^= 1 << (bit % 8); else c2[(bit - 128) / 8] ^= 1 << (bit % 8);
                Bytes out(n + 1, 0xCC);
                int m = AES256CBCDecrypt(key, iv2.data(), true).Decrypt(c2.data(), n, out.data());
                S.line(T({"CBCD", vx::hex(Bytes(key, key + 32)), vx::hex(iv2), vx::hex(c2), u(m), hx(out.data(), m)}));
            }
        }
    }
    S.flush();
}

// ---------------------------------------------------------------- AEAD
static void aead_sections(size_t Lmax, bool big)
{
    const std::vector<size_t> aads = {0, 1, 15, 16, 17, 32};
    struct Item { int kp; int ni; size_t al; size_t ml; };
    std::vector<Item> items;
    for (int kp : {0, 2}) for (int ni = 0; ni < 3; ni++) for (size_t al : aads) for (size_t ml = 0; ml <= Lmax; ml++) items.push_back({kp, ni, al, ml});
    std::atomic<uint64_t> nsplit{0};
    vx::par_for(items.size(), 8, [&](uint64_t lo, uint64_t hi, unsigned) {
        for (uint64_t it = lo; it < hi; it++) {
            auto [kp, ni, al, ml] = items[it];
            const uint8_t* key = pat(kp, 11);
            AEADChaCha20Poly1305::Nonce96 nonce{NONCES[ni].lo, NONCES[ni].hi};
            const uint8_t *aad = pat(0, 200), *msg = pat(2, 300);
            Bytes ct(ml + 16);
            AEADChaCha20Poly1305 a(bspan(key, 32));
            a.Encrypt(bspan(msg, ml), bspan(aad, al), nonce, bspan(ct.data(), ct.size()));
            S.line(T({"AE", u(kp), u(NONCES[ni].lo), u(NONCES[ni].hi), u(al), u(ml), hx(ct.data(), ct.size())}));
            std::string where = "key pat " + u(kp) + " nonce#" + u(ni) + " aadlen " + u(al) + " msglen " + u(ml);
            uint64_t n = 0;
            for (size_t s = 0; s <= ml; s++) { // every split of plaintext (encrypt) and of the output (decrypt); object reused
                Bytes c2(ml + 16), p1(s + 1, 0x77), p2(ml - s + 1, 0x77);
                a.Encrypt(bspan(msg, s), bspan(msg + s, ml - s), bspan(aad, al), nonce, bspan(c2.data(), c2.size()));
                if (c2 != ct) { S.viol("aead-split-enc-al" + u(al) + "-ml" + u(ml), "split Encrypt differs: " + where + " split " + u(s)); break; }
                bool ok = a.Decrypt(bspan(ct.data(), ct.size()), bspan(aad, al), nonce, bspan(p1.data(), s), bspan(p2.data(), ml - s));
                if (!ok || memcmp(p1.data(), msg, s) || memcmp(p2.data(), msg + s, ml - s) || p1[s] != 0x77 || p2[ml - s] != 0x77) {
                    S.viol("aead-roundtrip-al" + u(al) + "-ml" + u(ml), "Decrypt(Encrypt(x)) failed: " + where + " split " + u(s));
                    break;
                }
                n += 2;
            }
            {   // Keystream(nonce) == Encrypt of zeros without the tag
                Bytes z(ml, 0), cz(ml + 16), ksb(ml);
                a.Encrypt(bspan(z.data(), ml), bspan(aad, al), nonce, bspan(cz.data(), cz.size()));
                a.Keystream(nonce, bspan(ksb.data(), ml));
                if (memcmp(ksb.data(), cz.data(), ml)) S.viol("aead-keystream-ml" + u(ml), "Keystream() != Encrypt(zeros): " + where);
            }
            nsplit += n;
        }
    });
    S.stat("aead_splits", nsplit);
    S.flush();
    // every single-bit tamper of ciphertext, tag, aad, nonce; plus truncation/extension by one byte
    std::atomic<uint64_t> ntamper{0};
    std::vector<std::pair<size_t, size_t>> tm;
    for (size_t ml : {size_t(0), size_t(1), size_t(16), size_t(17), size_t(64), size_t(65)}) for (size_t al : {size_t(0), size_t(1), size_t(16), size_t(17)}) tm.emplace_back(ml, al);
    vx::par_for(tm.size() * 2, 1, [&](uint64_t lo, uint64_t hi, unsigned) {
        for (uint64_t it = lo; it < hi; it++) {
            auto [ml, al] = tm[it / 2];
            int kp = (it & 1) ? 2 : 1;
            const uint8_t* key = pat(kp, 5);
            AEADChaCha20Poly1305::Nonce96 nonce{NONCES[1].lo, NONCES[1].hi};
            Bytes aad(pat(2, 500), pat(2, 500) + al), msg(pat(0, 9), pat(0, 9) + ml), ct(ml + 16), out(ml + 1);
            AEADChaCha20Poly1305 a(bspan(key, 32));
            a.Encrypt(bspan(msg.data(), ml), bspan(aad.data(), al), nonce, bspan(ct.data(), ct.size()));
            std::string where = "msglen " + u(ml) + " aadlen " + u(al) + " keypat " + u(kp);
            uint64_t n = 0;
            if (!a.Decrypt(bspan(ct.data(), ct.size()), bspan(aad.data(), al), nonce, bspan(out.data(), ml))) S.viol("aead-tamper-baseline", "untampered rejected " + where);
            for (size_t bit = 0; bit < ct.size() * 8; bit++) {
                Bytes c2 = ct;
                c2[bit / 8] ^= 1 << (bit % 8);
                n++;
                if (a.Decrypt(bspan(c2.data(), c2.size()), bspan(aad.data(), al), nonce, bspan(out.data(), ml)))
                    S.viol("aead-accepts-tampered-" + std::string(bit / 8 < ml ? "ciphertext" : "tag") + "-byte" + u(bit / 8 < ml ? 0 : bit / 8 - ml), where + " flipped bit " + u(bit) + " of ciphertext||tag");
            }
            for (size_t bit = 0; bit < al * 8; bit++) {
                Bytes a2 = aad;
                a2[bit / 8] ^= 1 << (bit % 8);
                n++;
                if (a.Decrypt(bspan(ct.data(), ct.size()), bspan(a2.data(), al), nonce, bspan(out.data(), ml))) S.viol("aead-accepts-tampered-aad", where + " flipped aad bit " + u(bit));
            }
            for (int bit = 0; bit < 96; bit++) {
                AEADChaCha20Poly1305::Nonce96 n2 = nonce;
                if (bit < 32) n2.first ^= 1u << bit; else n2.second ^= 1ULL << (bit - 32);
                n++;
                if (a.Decrypt(bspan(ct.data(), ct.size()), bspan(aad.data(), al), n2, bspan(out.data(), ml))) S.viol("aead-accepts-wrong-nonce", where + " nonce bit " + u(bit));
            }
            // aad one byte longer / shorter, ciphertext one byte shorter (tag shifted) / longer
            {
                Bytes a2 = aad; a2.push_back(0);
                n++;
                if (a.Decrypt(bspan(ct.data(), ct.size()), bspan(a2.data(), a2.size()), nonce, bspan(out.data(), ml))) S.viol("aead-accepts-extended-aad", where);
                if (al) { n++; if (a.Decrypt(bspan(ct.data(), ct.size()), bspan(aad.data(), al - 1), nonce, bspan(out.data(), ml))) S.viol("aead-accepts-truncated-aad", where); }
                if (ml) { n++; if (a.Decrypt(bspan(ct.data() + 1, ct.size() - 1), bspan(aad.data(), al), nonce, bspan(out.data(), ml - 1))) S.viol("aead-accepts-truncated-ct", where); }
                Bytes c3 = ct; c3.insert(c3.begin() + ml, 0); Bytes o3(ml + 1);
                n++;
                if (a.Decrypt(bspan(c3.data(), c3.size()), bspan(aad.data(), al), nonce, bspan(o3.data(), ml + 1))) S.viol("aead-accepts-extended-ct", where);
            }
            ntamper += n;
        }
    });
    S.stat("aead_tampers", ntamper);

    // forward-secure wrapper: packet sequences across several rekeys, every packet tampered once
    std::vector<uint32_t> intervals = {1, 2, 3, 4, 224};
    if (big) intervals.push_back(7);
    std::atomic<uint64_t> nfs{0};
    for (uint32_t iv : intervals)
        for (int kp : {0, 2}) {
            size_t np = iv == 224 ? 230 : 3 * (size_t)iv + 2;
            const uint8_t* key = pat(kp, 21);
            FSChaCha20Poly1305 enc(bspan(key, 32), iv), dec(bspan(key, 32), iv), dec2(bspan(key, 32), iv);
            std::string desc, out;
            size_t pos = 0;
            for (size_t i = 0; i < np; i++) {
                size_t ml = FS_LENS[i % 15], al = FS_LENS[(i * 7 + 3) % 15] % 40;
                Bytes ct(ml + 16), back(ml + 1, 0x11);
                size_t split = ml / 3;
                enc.Encrypt(bspan(pat(2, pos % 4000), split), bspan(pat(2, pos % 4000 + split), ml - split), bspan(pat(0, i), al), bspan(ct.data(), ct.size()));
                bool ok = dec.Decrypt(bspan(ct.data(), ct.size()), bspan(pat(0, i), al), bspan(back.data(), ml - split), bspan(back.data() + (ml - split), split));
                if (!ok || memcmp(back.data(), pat(2, pos % 4000), ml)) S.viol("fsaead-roundtrip-i" + u(iv), "packet " + u(i) + " of interval " + u(iv) + " does not decrypt");
                // second receiver sees packet i with one flipped bit (position walks with i): must fail, and must stay in sync
                Bytes c2 = ct;
                size_t bit = (i * 13) % (c2.size() * 8);
                c2[bit / 8] ^= 1 << (bit % 8);
                if (i % 2 == 0) {
                    if (dec2.Decrypt(bspan(c2.data(), c2.size()), bspan(pat(0, i), al), bspan(back.data(), ml))) S.viol("fsaead-accepts-tampered-i" + u(iv), "packet " + u(i) + " bit " + u(bit));
                } else {
                    if (!dec2.Decrypt(bspan(ct.data(), ct.size()), bspan(pat(0, i), al), bspan(back.data(), ml)) || memcmp(back.data(), pat(2, pos % 4000), ml))
                        S.viol("fsaead-desync-after-failure-i" + u(iv), "packet " + u(i) + " rejected/garbled after an earlier failed decryption (counters must advance on failure too)");
                }
                nfs += 2;
                desc += (i ? "," : "") + u(al) + ":" + u(ml);
                out += vx::hex(ct);
                pos += ml;
            }
            S.line(T({"FSAE", u(kp), u(iv), desc, out}));
        }
    S.stat("fsaead_packets", nfs);
    S.flush();
}

// ---------------------------------------------------------------- SipHash / HMAC / HKDF
static const std::pair<uint64_t, uint64_t> SIPKEYS[] = {{0, 0}, {0x0706050403020100ULL, 0x0F0E0D0C0B0A0908ULL}, {~0ULL, ~0ULL}, {0x8000000000000001ULL, 0x0123456789ABCDEFULL}};
static std::string h64(uint64_t v) { char b[20]; snprintf(b, sizeof b, "%016" PRIx64, v); return b; }
static void siphash_sections(size_t L2, size_t L3)
{
    for (auto [k0, k1] : SIPKEYS)
        stream_section("SIP", "siphash24", h64(k0) + ":" + h64(k1), [k0 = k0, k1 = k1] { return SipH(k0, k1); }, {0, 1, 2}, L2, L3, true);
    // Write(uint64) for the first w words, bytes for the rest == all bytes
    uint64_t n = 0;
    for (auto [k0, k1] : SIPKEYS)
        for (size_t len = 0; len <= 96; len++)
            for (size_t w = 0; w * 8 <= len; w++) {
                CSipHasher a(k0, k1), b(k0, k1);
                a.Write(std::span<const unsigned char>(pat(2), len));
                for (size_t i = 0; i < w; i++) { uint64_t v = 0; for (int j = 7; j >= 0; j--) v = (v << 8) | pat(2)[8 * i + j]; b.Write(v); }
                b.Write(std::span<const unsigned char>(pat(2, 8 * w), len - 8 * w));
                n++;
                if (a.Finalize() != b.Finalize()) S.viol("siphash-write-u64-len" + u(len), "Write(uint64) x" + u(w) + " + bytes != bytes");
            }
    S.stat("siphash_u64_mixes", n);
    // fixed-width variants
    std::vector<Bytes> vals;
    for (int p = 0; p < NPAT; p++) vals.emplace_back(pat(p, 13), pat(p, 13) + 32);
    for (int bit = 0; bit < 256; bit++) { Bytes v(32, 0); v[bit / 8] = 1 << (bit % 8); vals.push_back(v); }
    const uint32_t extras[] = {0, 1, 0x80000000u, 0xFFFFFFFFu, 0x01020304u};
    for (auto [k0, k1] : SIPKEYS)
        for (auto& v : vals) {
            uint256 val{std::span<const unsigned char>(v.data(), 32)};
            PresaltedSipHasher ps(k0, k1);
            S.line(T({"SIPU", h64(k0), h64(k1), vx::hex(v), "", h64(ps(val))}));
            for (uint32_t e : extras) S.line(T({"SIPU", h64(k0), h64(k1), vx::hex(v), u(e), h64(ps(val, e))}));
            // SipHash-1-3-UJ: every block-kind sequence up to length 3 (n = normal 8-byte, j = jumbo 32-byte)
            for (int nblk = 0; nblk <= 3; nblk++)
                for (int kinds = 0; kinds < (1 << nblk); kinds++) {
                    SipHasher13UJ h(k0, k1);
                    std::string spec;
                    for (int i = 0; i < nblk; i++) {
                        if ((kinds >> i) & 1) {
                            Bytes jb(v); jb[0] ^= (uint8_t)i;
                            h.WriteJumbo(uint256{std::span<const unsigned char>(jb.data(), 32)});
                            spec += "j" + vx::hex(jb);
                        } else {
                            uint64_t w = 0; for (int j = 7; j >= 0; j--) w = (w << 8) | v[8 * (i % 4) + j];
                            w += i;
                            h.Write(w);
                            spec += "n" + h64(w);
                        }
                        spec += ",";
                    }
                    uint64_t r = h.Finalize();
                    if (r != h.Finalize()) S.viol("siphash13uj-finalize-not-const", spec);
                    S.line(T({"SIP13", h64(k0), h64(k1), spec, h64(r)}));
                    // Hash() conveniences == WriteJumbo[.Write].Finalize on a copy, object untouched
                    SipHasher13UJ c1 = h, c2 = h;
                    uint64_t e1 = c1.WriteJumbo(val).Finalize(), e2 = c2.WriteJumbo(val).Write(0x1122334455667788ULL + nblk).Finalize();
                    if (h.Hash(val) != e1 || h.Hash(val, 0x1122334455667788ULL + nblk) != e2 || h.Finalize() != r) S.viol("siphash13uj-hash-shortcut", spec);
                    S.stat("siphash13uj_shortcuts", 2);
                }
        }
    S.flush();
}

static void hmac_sections(bool big)
{
    // (a) every key length 0..KL x boundary message lengths ; (b) boundary key lengths x every message length (chunkings)
    const size_t KL = big ? 300 : 150, ML = big ? 600 : 300;
    const std::vector<size_t> mlens = {0, 1, 55, 56, 63, 64, 65, 111, 112, 127, 128, 129, 200};
    for (size_t kl = 0; kl <= KL; kl++)
        for (size_t ml : mlens)
            for (int kp : {1, 2}) {
                uint8_t o1[32], o2[64];
                CHMAC_SHA256(pat(kp, 3), kl).Write(pat(0, 1), ml).Finalize(o1);
                CHMAC_SHA512(pat(kp, 3), kl).Write(pat(0, 1), ml).Finalize(o2);
                S.line(T({"HM", "256", u(kp), u(kl), u(ml), hx(o1, 32)}));
                S.line(T({"HM", "512", u(kp), u(kl), u(ml), hx(o2, 64)}));
            }
    S.flush();
    for (size_t kl : {size_t(0), size_t(1), size_t(32), size_t(63), size_t(64), size_t(65), size_t(127), size_t(128), size_t(129), size_t(200)}) {
        stream_section("HMS", "hmac256", u(kl), [kl] { return HmacH<CHMAC_SHA256>(pat(2, 17), kl); }, {0, 1}, ML, 70);
        stream_section("HMS", "hmac512", u(kl), [kl] { return HmacH<CHMAC_SHA512>(pat(2, 17), kl); }, {0, 1}, ML, 70);
    }
    // HKDF
    const size_t IL = big ? 200 : 100;
    for (size_t il = 0; il <= IL; il++)
        for (size_t sl : {size_t(0), size_t(1), size_t(32), size_t(64), size_t(65), size_t(100)})
            for (size_t nl : {size_t(0), size_t(1), size_t(22), size_t(55), size_t(64), size_t(128)}) {
                std::string salt((const char*)pat(2, 9), sl), info((const char*)pat(0, 60), nl);
                uint8_t o[32], o2[32];
                CHKDF_HMAC_SHA256_L32 k(pat(1 + (il & 1), 0), il, salt);
                k.Expand32(info, o);
                k.Expand32(info, o2);
                if (memcmp(o, o2, 32)) S.viol("hkdf-expand-not-repeatable", "Expand32 twice differs");
                S.line(T({"HK", u(1 + (il & 1)), u(il), u(sl), u(nl), hx(o, 32)}));
            }
    S.flush();
}

// ----------------------------------------------------------------
static bool cpu_has(const char* what)
{
    unsigned a, b, c, d;
    if (!strcmp(what, "sse4.1")) return __builtin_cpu_supports("sse4.1");
    if (!strcmp(what, "avx2")) return __builtin_cpu_supports("avx2");
    if (!strcmp(what, "sha")) { if (!__get_cpuid_count(7, 0, &a, &b, &c, &d)) return false; return ((b >> 29) & 1) && __builtin_cpu_supports("sse4.1"); }
    return false;
}

int main(int argc, char** argv)
{
    vx::init(argc, argv, "C49", "exploration");
    const bool big = vx::thorough();
    std::string part = "base";
    auto& a = vx::ctx().args;
    for (size_t i = 0; i + 1 < a.size(); i++) if (a[i] == "--part") part = a[i + 1];
    init_patterns(8192);
    const size_t L2 = big ? 2000 : 300, L3 = big ? 200 : 130;

    if (part.rfind("sha:", 0) == 0) {
        int mask = atoi(part.c_str() + 4);
        printf("M\tAUTODETECT-BEGIN\t%d\n", mask);
        fflush(stdout);
        std::string name = SHA256AutoDetect((sha256_implementation::UseImplementation)mask); // asserts its own self-test
        printf("M\tAUTODETECT-OK\t%d\t%s\n", mask, name.c_str());
        fflush(stdout);
        sha256_api_sections("@m" + std::to_string(mask), L2, L3, big ? 64 : 40);
        if (g_incomplete) printf("M\tINCOMPLETE\n");
        S.finish();
        return 0;
    }
    if (part != "base") { printf("M\tbad part\n"); return 2; }

    // default (no AutoDetect call): standard C++ transform
    sha256_api_sections("@default", L2, L3, big ? 64 : 40);
    size_t LT = big ? 1200 : 300;
    if (cpu_has("sse4.1")) { direct_transform("sse4", sha256_sse4::Transform, LT); direct_d64("sse41_4way", sha256d64_sse41::Transform_4way, 4, 70); S.stat("backend_sse4", 1); }
    if (cpu_has("avx2")) { direct_d64("avx2_8way", sha256d64_avx2::Transform_8way, 8, 70); S.stat("backend_avx2", 1); }
    if (cpu_has("sha")) { direct_transform("x86_shani", sha256_x86_shani::Transform, LT); direct_d64("x86_shani_2way", sha256d64_x86_shani::Transform_2way, 2, 70); S.stat("backend_shani", 1); }

    stream_section("H", "sha512", "", [] { return PtrH<CSHA512>{}; }, {0, 1, 2, 3}, L2, big ? 270 : 130);
    stream_section("H", "sha1", "", [] { return PtrH<CSHA1>{}; }, {0, 1, 2, 3}, L2, L3);
    stream_section("H", "ripemd160", "", [] { return PtrH<CRIPEMD160>{}; }, {0, 1, 2, 3}, L2, L3);
    stream_section("H", "sha3_256", "", [] { return Sha3H{}; }, {0, 1, 2, 3}, L2, big ? 280 : 140);
    hmac_sections(big);
    siphash_sections(big ? 1000 : 300, big ? 80 : 40);
    chacha_sections(big ? 640 : 320, big ? 200 : 140, big ? 132 : 70);
    fschacha_sections(big ? std::vector<uint32_t>{1, 2, 3, 5, 224} : std::vector<uint32_t>{1, 2, 3, 224});
    poly_sections(big ? 300 : 80, big ? 80 : 50);
    aes_sections(big);
    aead_sections(big ? 300 : 130, big);
    if (g_incomplete) printf("M\tINCOMPLETE\n");
    S.finish();
    return 0;
}
