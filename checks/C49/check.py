#!/usr/bin/env python3
"""C49 consumer: recomputes every case line printed by the C++ producer with hashlib / hmac / the vendored
pure-Python references (chacha20.py, poly1305.py, bip324_cipher.py, hkdf.py, siphash.py) and ref_aes.py.
The producer is started once per "part": `base` (default SHA-256 transform + everything else) and `sha:<mask>` for
every sha256_implementation mask (SHA256AutoDetect is process-global and asserts its own self-test: an abort
between AUTODETECT-BEGIN and AUTODETECT-OK is reported as a violation, any other abnormal exit as a harness error).
"""
import sys, os, hashlib, hmac, subprocess, multiprocessing
from concurrent.futures import ThreadPoolExecutor
sys.path.insert(0, '/verif')
from vx.vxpy import Run, ROOT
sys.path.insert(0, os.path.join(ROOT, 'ref'))
import ref_aes
from test_framework.crypto import chacha20 as ref_chacha, poly1305 as ref_poly, bip324_cipher as ref_aead, hkdf as ref_hkdf, siphash as ref_sip
from test_framework.crypto.ripemd160 import ripemd160 as py_ripemd160

M64 = (1 << 64) - 1
NPAT_LEN = 8192


def make_patterns(n):
    p0 = bytes(i & 0xff for i in range(n))
    p1 = b'\xff' * n
    x = 0x9E3779B97F4A7C15
    b = bytearray(n)
    for i in range(n):
        x = (x * 6364136223846793005 + 1442695040888963407) & M64
        b[i] = x >> 56
    return [p0, p1, bytes(b), bytes(n)]


PAT = make_patterns(NPAT_LEN)


def pat(p, off, n):
    assert off + n <= NPAT_LEN
    return PAT[p][off:off + n]


def unhex(s):
    return b'' if s == '-' else bytes.fromhex(s)


# ---------------------------------------------------------------- references
def ref_hash(algo, data):
    a = algo.split('@')[0].split('!')[0]
    if a == 'sha256': return hashlib.sha256(data).digest()
    if a == 'sha512': return hashlib.sha512(data).digest()
    if a == 'sha1': return hashlib.sha1(data).digest()
    if a == 'sha3_256': return hashlib.sha3_256(data).digest()
    if a == 'ripemd160':
        r = py_ripemd160(data)                      # vendored pure Python
        if HAVE_HASHLIB_RIPEMD and hashlib.new('ripemd160', data).digest() != r:
            raise RuntimeError('references disagree on ripemd160')
        return r
    raise KeyError(algo)


try:
    hashlib.new('ripemd160', b'')
    HAVE_HASHLIB_RIPEMD = True
except Exception:
    HAVE_HASHLIB_RIPEMD = False


def chacha_stream(key, n_lo, n_hi, ctr, n):
    """Keystream from Seek((n_lo, n_hi), ctr): RFC 8439 blocks; on 32-bit counter overflow the first nonce word is
    incremented (documented behaviour of ChaCha20Aligned::Seek)."""
    out = b''
    i = 0
    while len(out) < n:
        c = ctr + i
        lo = (n_lo + (c >> 32)) & 0xffffffff
        out += ref_chacha.chacha20_block(key, lo.to_bytes(4, 'little') + n_hi.to_bytes(8, 'little'), c & 0xffffffff)
        i += 1
    return out[:n]


def sip_round(v0, v1, v2, v3):
    return ref_sip.siphash_round(v0, v1, v2, v3)


def siphash13uj(k0, k1, blocks):
    """Transcription of the SipHasher13UJ class comment in crypto/siphash.h."""
    v0 = 0x736f6d6570736575 ^ k0
    v1 = 0x646f72616e646f6d ^ k1
    v2 = 0x6c7967656e657261 ^ k0
    v3 = 0x7465646279746573 ^ k1
    for kind, val in blocks:
        if kind == 'n':
            d0, d1, d2, d3 = val, 0, 0, 0
        else:
            d0, d1, d2, d3 = (int.from_bytes(val[8 * i:8 * i + 8], 'little') for i in range(4))
        # before the round: (v0,v1,v2,v3) ^= (d1,d2,d3,d0); after: ^= (d0,d1,d2,d3)
        v0 ^= d1; v1 ^= d2; v2 ^= d3; v3 ^= d0
        v0, v1, v2, v3 = sip_round(v0, v1, v2, v3)
        v0 ^= d0; v1 ^= d1; v2 ^= d2; v3 ^= d3
    v2 ^= 0x6465646461706e75
    for _ in range(3):
        v0, v1, v2, v3 = sip_round(v0, v1, v2, v3)
    return v0 ^ v1 ^ v2 ^ v3


FS_LENS = [0, 1, 3, 63, 64, 65, 32, 130, 16, 17, 5, 128, 31, 2, 100]
NONCES = [(0, 0), (1, 0x0807060504030201), (0xFFFFFFFF, 0xFFFFFFFFFFFFFFFF), (0x01020304, 0x8000000000000000)]


def nonce_bytes(lo, hi):
    return lo.to_bytes(4, 'little') + hi.to_bytes(8, 'little')


def verify(line):
    """Returns None if the case matches the reference, else (key, what)."""
    f = line.split('\t')
    k = f[0]
    try:
        if k == 'H':
            algo, p, n, out = f[1], int(f[2]), int(f[3]), unhex(f[4])
            want = ref_hash(algo, pat(p, 0, n))
            if out != want: return (f'{algo}-digest-p{p}-len{n}', f'{algo} pattern {p} len {n}: got {out.hex()} want {want.hex()}')
        elif k == 'D':
            name, p, off, nb, out = f[1], int(f[2]), int(f[3]), int(f[4]), unhex(f[5])
            data = pat(p, off, 64 * nb)
            want = b''.join(hashlib.sha256(hashlib.sha256(data[64 * i:64 * i + 64]).digest()).digest() for i in range(nb))
            if out != want:
                lane = next(i for i in range(nb) if out[32 * i:32 * i + 32] != want[32 * i:32 * i + 32])
                return (f'{name}-blocks{nb}', f'SHA256D64 {name} pattern {p} offset {off} blocks {nb}: lane {lane} differs')
        elif k == 'HM':
            bits, kp, kl, ml, out = f[1], int(f[2]), int(f[3]), int(f[4]), unhex(f[5])
            want = hmac.new(pat(kp, 3, kl), pat(0, 1, ml), hashlib.sha256 if bits == '256' else hashlib.sha512).digest()
            if out != want: return (f'hmac{bits}-kl{kl}-ml{ml}', f'HMAC-SHA{bits} keylen {kl} msglen {ml} keypat {kp}')
        elif k == 'HMS':
            algo, kl, p, n, out = f[1], int(f[2]), int(f[3]), int(f[4]), unhex(f[5])
            want = hmac.new(pat(2, 17, kl), pat(p, 0, n), hashlib.sha256 if algo == 'hmac256' else hashlib.sha512).digest()
            if out != want: return (f'{algo}-kl{kl}-len{n}', f'{algo} keylen {kl} msg pattern {p} len {n}')
        elif k == 'HK':
            ip, il, sl, nl, out = int(f[1]), int(f[2]), int(f[3]), int(f[4]), unhex(f[5])
            want = ref_hkdf.hkdf_sha256(32, pat(ip, 0, il), pat(2, 9, sl), pat(0, 60, nl))
            if out != want: return (f'hkdf-il{il}-sl{sl}-nl{nl}', f'HKDF ikm len {il} salt len {sl} info len {nl}')
        elif k == 'SIP':
            k0, k1 = (int(x, 16) for x in f[2].split(':'))
            p, n, out = int(f[3]), int(f[4]), int(f[5], 16)
            want = ref_sip.siphash(k0, k1, pat(p, 0, n))
            if out != want: return (f'siphash24-len{n}-p{p}', f'SipHash-2-4 k0={k0:x} k1={k1:x} pattern {p} len {n}: got {out:x} want {want:x}')
        elif k == 'SIPU':
            k0, k1, val, out = int(f[1], 16), int(f[2], 16), unhex(f[3]), int(f[5], 16)
            data = val if f[4] == '-' else val + int(f[4]).to_bytes(4, 'little')
            want = ref_sip.siphash(k0, k1, data)
            if out != want: return (f'presalted-siphash-{"extra" if f[4] != "-" else "plain"}', f'PresaltedSipHasher k0={k0:x} k1={k1:x} val={val.hex()} extra={f[4]}')
        elif k == 'SIP13':
            k0, k1, out = int(f[1], 16), int(f[2], 16), int(f[4], 16)
            blocks = []
            if f[3] != '-':
                for tok in f[3].split(','):
                    if not tok: continue
                    blocks.append(('n', int(tok[1:], 16)) if tok[0] == 'n' else ('j', bytes.fromhex(tok[1:])))
            want = siphash13uj(k0, k1, blocks)
            if out != want: return ('siphash13uj-' + ''.join(b[0] for b in blocks), f'SipHasher13UJ k0={k0:x} k1={k1:x} blocks={f[3]}')
        elif k == 'CC':
            kp, lo, hi, ctr, n, out = int(f[1]), int(f[2]), int(f[3]), int(f[4]), int(f[5]), unhex(f[6])
            key = pat(kp, 100 if kp == 2 else 0, 32)
            want = chacha_stream(key, lo, hi, ctr, n)
            if out != want:
                pos = next(i for i in range(n) if out[i] != want[i])
                return (f'chacha20-keystream-k{kp}-ctr{ctr:x}', f'ChaCha20 keystream key pattern {kp} nonce ({lo:#x},{hi:#x}) counter {ctr:#x}: first difference at byte {pos}')
        elif k == 'FSC':
            kp, iv, lens, out = int(f[1]), int(f[2]), [int(x) for x in f[3].split(',')], unhex(f[4])
            c = ref_chacha.FSChaCha20(pat(kp, 7, 32), iv)
            pos = 0
            for i, n in enumerate(lens):
                want = c.crypt(pat(2, pos % 4000, n))
                if out[pos:pos + n] != want: return (f'fschacha20-i{iv}', f'FSChaCha20 rekey interval {iv} key pattern {kp}: chunk {i} (len {n}) differs')
                pos += n
        elif k == 'P':
            key, p, n, out = unhex(f[2]), int(f[3]), int(f[4]), unhex(f[5])
            want = ref_poly.Poly1305(key).tag(pat(p, 0, n))
            if out != want: return (f'poly1305-len{n}-p{p}', f'Poly1305 key {key.hex()} pattern {p} len {n}: got {out.hex()} want {want.hex()}')
        elif k == 'PX':
            key, msg, out = unhex(f[1]), unhex(f[2]), unhex(f[3])
            want = ref_poly.Poly1305(key).tag(msg)
            if out != want: return (f'poly1305-edge-{msg.hex()[:40]}', f'Poly1305 key {key.hex()} msg {msg.hex()}: got {out.hex()} want {want.hex()}')
        elif k == 'AES':
            key, blk, out = unhex(f[1]), unhex(f[2]), unhex(f[3])
            want = ref_aes.aes256_encrypt(key, blk)
            if out != want: return (f'aes256-{key.hex()[:8]}-{blk.hex()[:8]}', f'AES-256 key {key.hex()} block {blk.hex()}: got {out.hex()} want {want.hex()}')
        elif k == 'CBC':
            kp, ip, pad, n, ret, out = int(f[1]), int(f[2]), int(f[3]), int(f[4]), int(f[5]), unhex(f[6])
            want = ref_aes.cbc_encrypt(pat(kp, 3, 32), pat(ip, 50, 16), pat(2, n, n), bool(pad))
            if want is None: want = b''
            if ret != len(want) or out != want: return (f'cbc-enc-pad{pad}-len{n}', f'AES-256-CBC encrypt pad={pad} len {n}: ret {ret}, want {len(want)} bytes')
        elif k == 'CBCD':
            key, iv, ct, ret, out = unhex(f[1]), unhex(f[2]), unhex(f[3]), int(f[4]), unhex(f[5])
            want = ref_aes.cbc_decrypt(key, iv, ct, True)
            if want is None:
                if ret != 0: return ('cbc-dec-accepts-bad-padding', f'iv {iv.hex()} ct {ct.hex()}: returned {ret} for malformed PKCS#7 padding')
            elif ret != len(want) or out != want:
                # a valid padding that strips the whole message yields length 0, indistinguishable from failure: accept
                if not (len(want) == 0 and ret == 0):
                    return ('cbc-dec-padded', f'iv {iv.hex()} ct {ct.hex()}: returned {ret} want {len(want)} bytes {want.hex()}')
        elif k == 'AE':
            kp, lo, hi, al, ml, out = int(f[1]), int(f[2]), int(f[3]), int(f[4]), int(f[5]), unhex(f[6])
            key, aad, msg = pat(kp, 11, 32), pat(0, 200, al), pat(2, 300, ml)
            want = ref_aead.aead_chacha20_poly1305_encrypt(key, nonce_bytes(lo, hi), aad, msg)
            if out != want:
                part = 'tag' if out[:ml] == want[:ml] else 'ciphertext'
                return (f'aead-{part}-al{al}-ml{ml}', f'AEAD key pattern {kp} nonce ({lo:#x},{hi:#x}) aadlen {al} msglen {ml}: {part} differs')
            if ref_aead.aead_chacha20_poly1305_decrypt(key, nonce_bytes(lo, hi), aad, out) != msg:
                return (f'aead-refdecrypt-al{al}-ml{ml}', 'reference cannot decrypt the produced ciphertext')
        elif k == 'FSAE':
            kp, iv, desc, out = int(f[1]), int(f[2]), f[3].split(','), unhex(f[4])
            ref_aead.REKEY_INTERVAL = iv
            enc = ref_aead.FSChaCha20Poly1305(pat(kp, 21, 32))
            pos = cpos = 0
            for i, d in enumerate(desc):
                al, ml = (int(x) for x in d.split(':'))
                want = enc.encrypt(pat(0, i, al), pat(2, pos % 4000, ml))
                if out[cpos:cpos + ml + 16] != want: return (f'fsaead-i{iv}', f'FSChaCha20Poly1305 rekey interval {iv} key pattern {kp}: packet {i} (aad {al}, msg {ml}) differs')
                pos += ml
                cpos += ml + 16
            if cpos != len(out): return (f'fsaead-len-i{iv}', 'output length mismatch')
        else:
            return ('HARNESS', 'unknown case kind ' + k)
    except Exception as e:  # malformed line: harness problem, not a property violation
        return ('HARNESS', f'{type(e).__name__}: {e} in line {line[:120]}')
    return None


def verify_batch(lines):
    return [r for r in (verify(l) for l in lines) if r is not None]


DEADLINE_PRODUCER = 0


def run_part(args):
    harness, tier, part, jobs = args
    env = dict(os.environ, VERIF_JOBS=str(jobs), VERIF_DEADLINE_S=str(DEADLINE_PRODUCER))
    p = subprocess.run([harness, '--tier', tier, '--part', part], stdout=subprocess.PIPE, text=True, env=env)
    return part, p.returncode, p.stdout


def main():
    global DEADLINE_PRODUCER
    run = Run('C49', 'exploration')
    DEADLINE_PRODUCER = 0.6 * run.deadline
    ref_aes.selftest()
    assert ref_poly.Poly1305(bytes.fromhex('85d6be7857556d337f4452fe42d506a80103808afb0db2fd4abff6af4149f51b')).tag(b'Cryptographic Forum Research Group').hex() == 'a8061dc1305136c6c22b8baf0c0127a9'
    ncpu = int(os.environ.get('VERIF_JOBS', '0') or 0) or os.cpu_count() or 4
    parts = ['base'] + [f'sha:{m}' for m in range(8)]
    cases, cpp_viol, stats, harness_err, incomplete = [], [], {}, [], False
    impl_names = {}
    # base is the heavy part: give it all cores, run the 8 backend parts next to it with 2 threads each
    with ThreadPoolExecutor(max_workers=5) as tp:
        futs = [tp.submit(run_part, (run.harness, run.tier, parts[0], ncpu))]
        futs += [tp.submit(run_part, (run.harness, run.tier, p, max(2, ncpu // 4))) for p in parts[1:]]
        results = [f.result() for f in futs]
    for part, rc, out in results:
        n_case, end, begun, ok_marker = 0, None, False, False
        for line in out.splitlines():
            if not line: continue
            tag = line.split('\t', 1)[0]
            if tag == 'V':
                _, key, what = line.split('\t', 2)
                cpp_viol.append((key, f'[{part}] {what}'))
            elif tag == 'S':
                _, name, n = line.split('\t')
                stats[name] = stats.get(name, 0) + int(n)
            elif tag == 'M':
                f = line.split('\t')
                if f[1] == 'AUTODETECT-BEGIN': begun = True
                elif f[1] == 'AUTODETECT-OK': ok_marker = True; impl_names[int(f[2])] = f[3]
                elif f[1] == 'INCOMPLETE': incomplete = True
            elif tag == 'END':
                end = int(line.split('\t')[1])
            else:
                cases.append(line); n_case += 1
        if rc != 0 or end is None:
            if part.startswith('sha:') and begun and not ok_marker and rc < 0:
                cpp_viol.append((f'sha256-autodetect-selftest-mask{part[4:]}', f'SHA256AutoDetect({part[4:]}) died (signal {-rc}): the implementation failed its own self-test'))
            else:
                harness_err.append(f'producer part {part} exited rc={rc} end={end}')
        elif end != n_case:
            harness_err.append(f'producer part {part}: END says {end} cases, received {n_case}')
    if harness_err:
        for h in harness_err: print('HARNESS-ERROR property=C49', h)
        return 2
    for key, what in cpp_viol:
        run.violation(key, what, what)
    # Python oracle over all case lines
    B = 64
    batches = [cases[i:i + B] for i in range(0, len(cases), B)]
    # heavy (pure-Python cipher) cases first so the pool drains evenly
    batches.sort(key=lambda b: -sum(len(x) for x in b))
    done_batches = 0
    with multiprocessing.Pool(ncpu) as pool:
        for res in pool.imap_unordered(verify_batch, batches, chunksize=4):
            done_batches += 1
            if run.deadline_reached():  # never a violation: report what was completed
                incomplete = True
                pool.terminate()
                break
            for key, what in res:
                if key == 'HARNESS':
                    print('HARNESS-ERROR property=C49', what); return 2
                run.violation(key, what, what)
    kinds = {}
    for c in cases:
        f = c.split('\t')
        kk = f[0] + (':' + f[1] if f[0] in ('H', 'D', 'HM', 'HMS') else '')
        kinds[kk] = kinds.get(kk, 0) + 1
        run.distinct.add(c.rsplit('\t', 1)[0])   # case descriptor without the output
    run.evaluations = len(cases) + sum(v for k, v in stats.items() if not k.startswith('backend_'))
    run.extra['reference_batches_completed'] = f'{done_batches}/{len(batches)}'
    run.extra['reference_checked_cases'] = len(cases)
    run.extra['cpp_side_checks'] = {k: v for k, v in sorted(stats.items())}
    run.extra['case_kinds'] = dict(sorted(kinds.items()))
    run.extra['sha256_implementations'] = {str(k): v for k, v in sorted(impl_names.items())}
    # sanity gates: every primitive family must have been exercised, and every backend this CPU offers
    need = ['H:sha256@default', 'H:sha512', 'H:sha1', 'H:ripemd160', 'H:sha3_256', 'HM:256', 'HM:512', 'HK', 'SIP', 'SIPU', 'SIP13', 'CC', 'FSC', 'P', 'PX', 'AES', 'CBC', 'CBCD', 'AE', 'FSAE'] + [f'H:sha256@m{m}' for m in range(8)] + [f'D:d64@m{m}' for m in range(8)]
    missing = [k for k in need if kinds.get(k, 0) == 0]
    for s in ('chunkings', 'aead_tampers', 'aead_splits', 'chacha20_chunkings', 'fsaead_packets', 'chacha20_setkey_reuse', 'hasher_reset_reuse'):
        if stats.get(s, 0) == 0: missing.append('stat:' + s)
    if len(impl_names) != 8: missing.append('autodetect masks')
    if missing and not run.violations and not incomplete:
        print('HARNESS-ERROR property=C49 vacuous: missing', missing)
        return 2
    for c in (cases[0], cases[len(cases) // 3], cases[2 * len(cases) // 3], cases[-1]):
        run.sample(c[:200])
    run.assumptions.append('message contents are four fixed patterns (counter bytes, 0xFF.., a fixed LCG stream, 0x00..): a defect that depends on data values beyond carries/padding/boundaries is outside the alphabet')
    run.assumptions.append('SHA-256 backends: only those this CPU offers are executed (see sha256_implementations); ARM SHA-NI is not reachable on x86')
    rule = ('every length 0..L (quick 300 / thorough 2000 for hashes) x 4 content patterns, one-shot output compared with hashlib/hmac/vendored pure-Python '
            'references and ref_aes.py; every 2-way chunking of every length, every 3-way chunking up to ~130-280 bytes, byte-wise, Reset reuse (C++ side, '
            'counted in cpp_side_checks); SHA-256 via every SHA256AutoDetect mask 0..7 plus direct calls of each SIMD Transform; SHA256D64 for every block count; '
            'ChaCha20 seek at counter/nonce edges incl. 32-bit counter overflow, every Keystream/Crypt piece mix, object reuse (k = 0..130 bytes produced, then SetKey without Seek / SetKey+Seek; hashers: Write k bytes, Reset, rehash); Poly1305 edge keys/messages (accumulator p-8..p+8); '
            'AES-256 all-equal-byte/one-hot blocks and keys; CBC every length and crafted padding; AEAD every plaintext split, every single-bit tamper of '
            'ciphertext/tag/aad/nonce; FS wrappers across 3+ rekeys. evaluations = reference-checked cases + C++-side equivalence checks; distinct = distinct case descriptors')
    return run.finish(rule=rule, exhaustive=not incomplete)


if __name__ == '__main__':
    sys.exit(main())
