#include <kits/poolsim_main.h>
#include <chrono>
#include <sys/resource.h>
static long flt(){ rusage u; getrusage(RUSAGE_SELF,&u); return u.ru_minflt; }
using namespace ps;
static double now() { return std::chrono::duration<double>(std::chrono::steady_clock::now().time_since_epoch()).count(); }
static double cpu() { timespec t; clock_gettime(CLOCK_PROCESS_CPUTIME_ID,&t); return t.tv_sec+t.tv_nsec*1e-9; }
int main(int argc, char** argv) {
    vx::init(argc, argv, "CXX", "model_checking");
    vx::scratch_dir();
    Opts o; o.classes = {"N","M","I"};
    auto no=MakeNodeOpts(o); if(getenv("MINCACHE")) no.min_validation_cache=true; ck::Node node(no);
    Sim sim(node, o); sim.Init();
    { std::ifstream f("/proc/self/status"); std::string l; while(std::getline(f,l)) if(l.rfind("VmRSS",0)==0||l.rfind("VmSize",0)==0||l.rfind("VmPTE",0)==0) printf("%s\n",l.c_str()); }
    sim.fs.sh = new vx::ForkShared(); sim.fs.log_fd = 1;
    { double a=now(); for(int i=0;i<100;i++) sim.Take(); double b=now(); for(int i=0;i<20;i++) sim.Events(); double c=now();
      Snap s0=sim.Take(); for(int i=0;i<100;i++) sim.FreeCoins(s0); double d=now(); for(int i=0;i<100;i++) sim.Build("N:2:m", s0); double e=now();
      for(int i=0;i<1000;i++) node.GetCoin(sim.coins[i%20].op); double f=now();
      for(int i=0;i<1000;i++) sim.pool().isSpent(sim.coins[i%20].op); double g=now();
      for(int i=0;i<100;i++) sim.pool().infoAll(); double h=now();
      for(int i=0;i<100;i++) sim.pool().GetPrioritisedTransactions(); double i2=now();
      for(int i=0;i<100;i++) sim.pool().DynamicMemoryUsage(); double j=now();
      for(int i=0;i<100;i++) node.tip(); double k=now();
      printf("parent: Take %.3fms Events %.3fms FreeCoins %.3f Build %.3f GetCoin %.4f isSpent %.4f infoAll %.4f prio %.4f usage %.4f tip %.4f\n",(b-a)*10,(c-b)*50,(d-c)*10,(e-d)*10,(f-e),(g-f),(h-g)*10,(i2-h)*10,(j-i2)*10,(k-j)*10); }
    for (int rep = 0; rep < 3; rep++) {
    double t0 = now();
    pid_t p = fork();
    if (p == 0) {
        double a = now(); double c0=cpu(); long f0=flt();
        Snap s = sim.Take(); double b = now(); long f1=flt();
        auto ev = sim.Events(); double c = now(); long f2=flt();
        sim.Apply("N:2:m"); double d = now(); long f3=flt(); printf("faults: take %ld events %ld applyN %ld\n", f1-f0,f2-f1,f3-f2);
        uint64_t k = sim.Key(); double e = now();
        sim.Apply("M:a"); double f = now();
        sim.Apply("I"); double g = now();
        printf("child: fork->start %.1fms take %.1f events %.1f applyN %.1f key %.1f applyM %.1f applyI %.1f\n", (a-t0)*1e3, (b-a)*1e3, (c-b)*1e3, (d-c)*1e3, (e-d)*1e3, (f-e)*1e3, (g-f)*1e3);
        printf("child cpu total %.1fms faults %ld\n",(cpu()-c0)*1e3, flt()-f0); fflush(stdout); _exit(0);
    }
    int st; waitpid(p, &st, 0);
    printf("parent: total %.1fms\n", (now()-t0)*1e3);
    }
    return 0;
}
