#include <kits/poolsim_main.h>
#include <chrono>
#include <sys/resource.h>
using namespace ps;
static double now() { return std::chrono::duration<double>(std::chrono::steady_clock::now().time_since_epoch()).count(); }
static double tv(timeval t){ return t.tv_sec + t.tv_usec*1e-6; }
struct R { double su, ss, cu, cs; long sf, cf; };
static R ru(){ rusage a,b; getrusage(RUSAGE_SELF,&a); getrusage(RUSAGE_CHILDREN,&b); return {tv(a.ru_utime),tv(a.ru_stime),tv(b.ru_utime),tv(b.ru_stime),a.ru_minflt,b.ru_minflt}; }
int main(int argc, char** argv) {
    vx::init(argc, argv, "CXX", "model_checking");
    vx::scratch_dir();
    Opts o; o.classes = {"N","M","I","C","R","P"};
    ck::Node node(MakeNodeOpts(o));
    Sim sim(node, o); sim.Init();
    sim.fs.sh = new vx::ForkShared(); sim.fs.log_fd = 1;
    sim.Apply("N:2:h"); sim.Apply("C:0:0:2:h");
    int mode = argc > 1 ? atoi(argv[1]) : 0;
    const int N = 40;
    R r0 = ru(); double t0 = now();
    for (int i = 0; i < N; i++) {
        pid_t p = fork();
        if (p == 0) {
            if (mode >= 1) sim.Apply("N:2:h");
            if (mode >= 2) sim.Key();
            if (mode >= 3) sim.Events();
            _exit(0);
        }
        int st; waitpid(p, &st, 0);
    }
    R r1 = ru(); double t1 = now();
    printf("mode %d: per fork wall %.1fms | parent user %.1f sys %.1f faults %.0f | child user %.1f sys %.1f faults %.0f\n", mode, (t1-t0)/N*1e3,
        (r1.su-r0.su)/N*1e3, (r1.ss-r0.ss)/N*1e3, (double)(r1.sf-r0.sf)/N, (r1.cu-r0.cu)/N*1e3, (r1.cs-r0.cs)/N*1e3, (double)(r1.cf-r0.cf)/N);
    return 0;
}
