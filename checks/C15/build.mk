LINK := full
