// C15 — Layered coin caches behave like a single map and never lose or resurrect coins.
//
// Engine VX-STATE: explicit-state search by history replay, run to a FIXPOINT of canonical states
// (this file is the framework's reference example for the pattern; the generic BFS driver and the crash guard
// live in kits/histbfs.h).
//
//   real objects   CCoinsViewDB (in-memory LevelDB)  <-  CCoinsViewCache L0  <-  L1  (<- L2)
//   reference      one std::map<outpoint, coin> PER LEVEL ("the coins a simple map model holds for that
//                  layer") + one best-block id per level.  No flags, no caching policy, no FRESH logic.
//   state          = operation history; replay(history) builds a fresh stack + fresh model and re-executes it.
//   canonical key  = for every layer and outpoint: absent / coin id / spent, DIRTY, FRESH; the order of the
//                    flagged-entry list; the layer's own best-block id; the database contents; the model.
//                    The key space is finite, so the BFS stops when a level yields no new key: the result
//                    holds for histories of ANY length over the scope's alphabet, not just up to a depth.
//   oracle         after every transition (section 6): every query on every level equals the model,
//                    flag combinations are valid, all accounting equals recomputation, SanityCheck() passes.
//
// Which calls are explored.  The caches document caller contracts; calls outside them are either checked to be
// rejected or excluded (and counted), never executed as transitions:
//   * AddCoin(possible_overwrite=false) on an outpoint that is unspent in that layer's view is illegal.  If the
//     unspent coin sits in this layer's own map the call must throw std::logic_error and change nothing
//     (explored, checked).  If it is only visible through the parent the contract breach is undetectable by
//     AddCoin (it would misapply FRESH) -> excluded.
//   * A layer's view of an outpoint may be changed directly (AddCoin/SpendCoin/Emplace/Reset) only while no
//     layer ABOVE it holds an entry for that outpoint: a cache is not told about writes underneath it, so
//     anything else is a stale-read scenario the design does not support (production code only ever writes to
//     the top of a stack).  A layer without an entry is transparent, so this still covers stacks of every
//     height <= the scope's.  Flush/Sync/Uncache/lookups never change the view of the layer they are called on
//     and are explored on every layer in every state.
//   * Flush/Sync need a non-null best block in the flushed layer (CCoinsViewDB::BatchWrite asserts it; a null
//     hash pushed into a parent cache would un-set the parent's block).  SetBestBlock below a layer that
//     already memoised the old value is the same stale-read situation as above.
//   * EmplaceCoinInternalDANGER only under its snapshot-loading contract: outpoint unknown to the layer and
//     to everything beneath it.
#include <vx/vx.h>
#include <kits/histbfs.h>

#include <coins.h>
#include <logging.h>
#include <memusage.h>
#include <script/script.h>
#include <txdb.h>
#include <uint256.h>

#include <malloc.h>
#include <map>
#include <memory>
#include <optional>

namespace {

// ------------------------------------------------------------------------------------------------ 1. alphabet
constexpr int MAX_OUTPOINTS = 3;
constexpr int MAX_COINS = 3;
constexpr int MAX_BLOCKS = 2;

COutPoint OutPoint(int p) { return COutPoint{Txid::FromUint256(uint256{uint8_t(0xa0 + p)}), uint32_t(p)}; }
char OutPointName(int p) { return char('a' + p); }

// X: 60-byte script (heap storage: exercises cachedCoinsUsage), not coinbase. Coin 0, so every scope has it.
// Y: small script (prevector inline storage, dynamic usage 0), other value/height, coinbase.
// Z: same txout as Y but different height / coinbase flag (a layer that keeps the txout but loses the metadata
//    would hand out Y for Z).
Coin MakeCoin(int c)
{
    const CScript small{CScript{} << OP_DUP << OP_HASH160 << std::vector<uint8_t>(20, 0x11) << OP_EQUALVERIFY << OP_CHECKSIG};
    switch (c) {
    case 0: return Coin{CTxOut{2000, CScript{} << std::vector<uint8_t>(58, 0x22)}, 200000, false};
    case 1: return Coin{CTxOut{1000, small}, 1, true};
    default: return Coin{CTxOut{1000, small}, 2, false};
    }
}
const char COIN_NAME[MAX_COINS + 1] = "XYZ";
Coin MakeUnspendableCoin() { return Coin{CTxOut{5, CScript{} << OP_RETURN << std::vector<uint8_t>(4, 0x33)}, 7, false}; }

bool SameCoin(const Coin& a, const Coin& b) { return a.out == b.out && a.nHeight == b.nHeight && a.fCoinBase == b.fCoinBase; }
// -1 = spent/empty, 0..2 = alphabet coin, -2 = something that was never put in
int CoinId(const Coin& coin)
{
    if (coin.IsSpent()) return -1;
    for (int c = 0; c < MAX_COINS; c++) if (SameCoin(coin, MakeCoin(c))) return c;
    return -2;
}
char CoinChar(int id) { return id == -1 ? 's' : id == -2 ? '?' : COIN_NAME[id]; }

uint256 BlockHash(int b) { return b == 0 ? uint256{} : uint256{uint8_t(0xb0 + b)}; }
int BlockId(const uint256& h)
{
    for (int b = 0; b <= MAX_BLOCKS; b++) if (h == BlockHash(b)) return b;
    return -2;
}

char BlockChar(int id) { return id < 0 ? '?' : char('0' + id); } // 0 = no block set

// ------------------------------------------------------------------------------------------------ 2. scope + operations
struct Scope {
    const char* name;
    int layers, outpoints, coins, blocks;
    bool quick; // part of the quick tier (the thorough tier runs all scopes)
    size_t db_batch_bytes{0}; // non-zero: CCoinsViewDB::BatchWrite splits a flush into several LevelDB batches of about this size
};

enum class Kind : uint8_t { ADD, ADD_UNSPENDABLE, SPEND, GET, HAVE, ACCESS, UNCACHE, EMPLACE, FLUSH, SYNC, RESET, SETBEST, GETBEST, N };
const char* const KIND_NAME[] = {"ADD", "ADD_UNSPENDABLE", "SPEND", "GET", "HAVE", "ACCESS", "UNCACHE", "EMPLACE", "FLUSH", "SYNC", "RESET", "SETBEST", "GETBEST"};

struct Op {
    Kind kind;
    int layer; // cache layer the call is made on (0 = directly above the database)
    int p;     // outpoint index
    int c;     // coin id (ADD, EMPLACE) or block id (SETBEST)
    int flag;  // ADD: possible_overwrite, SPEND: pass moveto, FLUSH: reallocate_cache
    std::string name;
};

std::vector<Op> MakeOps(const Scope& S)
{
    std::vector<Op> ops;
    auto add = [&](Kind k, int l, int p, int c, int f, const std::string& args) {
        ops.push_back(Op{k, l, p, c, f, std::string(KIND_NAME[(int)k]) + "(L" + std::to_string(l) + args + ")"});
    };
    for (int l = 0; l < S.layers; l++) {
        for (int p = 0; p < S.outpoints; p++) {
            const std::string P = std::string(",") + OutPointName(p);
            for (int c = 0; c < S.coins; c++)
                for (int ow = 0; ow < 2; ow++) add(Kind::ADD, l, p, c, ow, P + "," + COIN_NAME[c] + ",overwrite=" + std::to_string(ow));
            add(Kind::ADD_UNSPENDABLE, l, p, 0, 0, P);
            for (int mv = 0; mv < 2; mv++) add(Kind::SPEND, l, p, 0, mv, P + ",moveto=" + std::to_string(mv));
            add(Kind::GET, l, p, 0, 0, P);
            add(Kind::HAVE, l, p, 0, 0, P);
            add(Kind::ACCESS, l, p, 0, 0, P);
            add(Kind::UNCACHE, l, p, 0, 0, P);
            for (int c = 0; c < S.coins; c++) add(Kind::EMPLACE, l, p, c, 0, P + "," + COIN_NAME[c]);
        }
        for (int re = 0; re < 2; re++) add(Kind::FLUSH, l, 0, 0, re, ",realloc=" + std::to_string(re));
        add(Kind::SYNC, l, 0, 0, 0, "");
        add(Kind::RESET, l, 0, 0, 0, "");
        for (int b = 1; b <= S.blocks; b++) add(Kind::SETBEST, l, 0, b, 0, ",B" + std::to_string(b));
        add(Kind::GETBEST, l, 0, 0, 0, "");
    }
    if (ops.size() > 255) { printf("HARNESS-ERROR op table too large\n"); exit(2); }
    return ops;
}

// ------------------------------------------------------------------------------------------------ 3. the real objects
struct Stack {
    static CoinsViewOptions DbOptions(size_t batch_bytes)
    {
        CoinsViewOptions o;
        if (batch_bytes) o.batch_write_bytes = batch_bytes;
        return o;
    }
    CCoinsViewDB db;
    std::vector<std::unique_ptr<CCoinsViewCache>> cache; // cache[i] is backed by cache[i-1], cache[0] by db
    explicit Stack(int layers, size_t db_batch_bytes = 0) : db{DBParams{.path = "c15", .cache_bytes = 1 << 20, .memory_only = true, .obfuscate = true}, DbOptions(db_batch_bytes)}
    {
        for (int i = 0; i < layers; i++)
            cache.push_back(std::make_unique<CCoinsViewCache>(i ? static_cast<CCoinsView*>(cache[i - 1].get()) : &db, /*deterministic=*/true));
    }
    ~Stack() { while (!cache.empty()) cache.pop_back(); } // top-down
};

// ------------------------------------------------------------------------------------------------ 4. the reference model
// Level 0 is the database, level i+1 is cache layer i.
struct Model {
    std::vector<std::map<int, int>> view; // outpoint index -> coin id; absent = no unspent coin at that level
    std::vector<int> own_best;            // best-block id stored AT that level (0 = none: falls through to the level below)
    explicit Model(int layers) : view(layers + 1), own_best(layers + 1, 0) {}
    std::optional<int> coin(int level, int p) const
    {
        auto it = view[level].find(p);
        return it == view[level].end() ? std::nullopt : std::optional<int>{it->second};
    }
    int best(int level) const
    {
        for (int l = level; l >= 0; l--) if (own_best[l]) return own_best[l];
        return 0;
    }
    // GetBestBlock() remembers the answer of the level below at every level it passes through.
    int best_memoising(int level)
    {
        if (level > 0 && !own_best[level]) own_best[level] = best_memoising(level - 1);
        return own_best[level];
    }
};

// ------------------------------------------------------------------------------------------------ run context / reporting
struct Gates { // things that must have happened for the run not to be vacuous
    std::atomic<uint64_t> executed[(int)Kind::N]{};
    std::atomic<uint64_t> rejected_by_throw{0}, excluded_illegal{0}, not_enabled{0};
    std::atomic<uint64_t> flag_combo[4]{}; // unspent clean, unspent DIRTY, unspent DIRTY|FRESH, spent DIRTY
    std::atomic<uint64_t> spend_true{0}, spend_false{0}, fetch_hit{0}, fetch_miss{0};
};
Gates g_gates;

struct Run {
    const Scope& S;
    const std::vector<Op>& ops;
    const std::string& hist; // the history being replayed (one byte per op)
    bool verbose = false;
    mutable bool failed = false; // a violation was reported during this replay

    std::string text(const std::string& h) const
    {
        std::string s = std::string("scope ") + S.name + "\n";
        for (unsigned char o : h) s += ops[o].name + "\n";
        return s;
    }
    void fail(const std::string& cls, const std::string& what) const
    {
        const std::string last = hist.empty() ? "(initial state)" : ops[(unsigned char)hist.back()].name;
        failed = true;
        vx::violation(cls + ":" + S.name + ":" + last, what + " [after " + std::to_string(hist.size()) + " operations, last " + last + "]", text(hist));
    }
};

// ------------------------------------------------------------------------------------------------ 5. one operation on both sides
enum class Outcome { NOT_ENABLED, EXECUTED };

// True if no layer above `layer` holds an entry for outpoint p (those layers are transparent for p).
bool TransparentAbove(const Stack& st, int layer, int p)
{
    for (size_t j = layer + 1; j < st.cache.size(); j++) if (st.cache[j]->cacheCoins.count(OutPoint(p))) return false;
    return true;
}

// Applies `op` to the real stack and to the model; compares what the call itself returns.
// `*expect_unchanged` is set when the call must leave the complete canonical state untouched.
Outcome Step(const Run& R, Stack& st, Model& m, const Op& op, bool* expect_unchanged)
{
    CCoinsViewCache& cache = *st.cache[op.layer];
    const int level = op.layer + 1;
    const int top = (int)st.cache.size();
    const COutPoint outpoint = OutPoint(op.p);
    const std::optional<int> before = m.coin(level, op.p);
    auto set_view = [&](std::optional<int> c) { // the write is visible on this level and through every (transparent) level above
        for (int l = level; l <= top; l++) { if (c) m.view[l][op.p] = *c; else m.view[l].erase(op.p); }
    };
    auto check_lookup = [&](const char* api, int got_id) {
        const int want = before ? *before : -1;
        if (got_id != want) R.fail(std::string("lookup-") + api, std::string(api) + " returned " + CoinChar(got_id) + ", model holds " + CoinChar(want));
        (before ? g_gates.fetch_hit : g_gates.fetch_miss)++;
    };
    *expect_unchanged = false;
    try {
        switch (op.kind) {
        case Kind::ADD: {
            if (!TransparentAbove(st, op.layer, op.p)) return Outcome::NOT_ENABLED;
            if (!op.flag && before) {
                // Illegal call. Detectable only if the unspent coin is in this layer's own map.
                if (!cache.HaveCoinInCache(outpoint)) { g_gates.excluded_illegal++; return Outcome::NOT_ENABLED; }
                bool threw = false;
                try { cache.AddCoin(outpoint, MakeCoin(op.c), false); } catch (const std::logic_error&) { threw = true; }
                if (!threw) R.fail("addcoin-no-throw", "AddCoin(possible_overwrite=false) over an unspent cached coin did not throw std::logic_error");
                g_gates.rejected_by_throw++;
                *expect_unchanged = true;
                break;
            }
            cache.AddCoin(outpoint, MakeCoin(op.c), op.flag);
            set_view(op.c);
            break;
        }
        case Kind::ADD_UNSPENDABLE: // provably unspendable outputs never enter the UTXO set
            cache.AddCoin(outpoint, MakeUnspendableCoin(), false);
            *expect_unchanged = true;
            break;
        case Kind::SPEND: {
            if (!TransparentAbove(st, op.layer, op.p)) return Outcome::NOT_ENABLED;
            Coin moved{CTxOut{777, CScript{} << OP_TRUE}, 9, false}; // sentinel outside the alphabet: must be overwritten when a coin is spent
            const bool ret = cache.SpendCoin(outpoint, op.flag ? &moved : nullptr);
            if (before) {
                if (!ret) R.fail("spend-ret", "SpendCoin returned false although the model holds an unspent coin");
                if (op.flag && CoinId(moved) != *before) R.fail("spend-moveto", std::string("SpendCoin moved out ") + CoinChar(CoinId(moved)) + ", model held " + CoinChar(*before));
                g_gates.spend_true++;
            } else {
                // "If no unspent output exists for the passed outpoint, this call has no effect": the return value is
                // not specified for that case (a cached spent entry yields true), so only the absence of an effect
                // is checked (by the oracle) and that no coin is conjured up.
                if (op.flag && ret && !moved.IsSpent()) R.fail("spend-moveto", "SpendCoin moved out a coin although the model holds none");
                g_gates.spend_false++;
            }
            set_view(std::nullopt);
            break;
        }
        case Kind::GET: {
            const std::optional<Coin> got = cache.GetCoin(outpoint);
            check_lookup("GetCoin", got ? CoinId(*got) : -1);
            if (got && got->IsSpent()) R.fail("lookup-GetCoin", "GetCoin returned a spent coin");
            break;
        }
        case Kind::HAVE:
            check_lookup("HaveCoin", cache.HaveCoin(outpoint) ? (before ? *before : -2) : -1);
            break;
        case Kind::ACCESS:
            check_lookup("AccessCoin", CoinId(cache.AccessCoin(outpoint)));
            break;
        case Kind::UNCACHE:
            cache.Uncache(outpoint);
            break;
        case Kind::EMPLACE:
            if (!TransparentAbove(st, op.layer, op.p) || before || cache.cacheCoins.count(outpoint)) return Outcome::NOT_ENABLED;
            cache.EmplaceCoinInternalDANGER(outpoint, MakeCoin(op.c));
            set_view(op.c);
            break;
        case Kind::FLUSH:
        case Kind::SYNC:
            if (!m.own_best[level]) return Outcome::NOT_ENABLED;
            if (op.kind == Kind::FLUSH) cache.Flush(/*reallocate_cache=*/op.flag); else cache.Sync();
            // The parent now shows what the child showed; the child (and everything above) shows what it did before.
            m.view[level - 1] = m.view[level];
            m.own_best[level - 1] = m.own_best[level];
            if (cache.GetDirtyCount() != 0) R.fail("flush-left-dirty", "dirty entries remain after Flush/Sync");
            if (op.kind == Kind::FLUSH && cache.GetCacheSize() != 0) R.fail("flush-left-entries", "cache not empty after Flush");
            if (op.kind == Kind::SYNC)
                for (const auto& [_, e] : cache.cacheCoins)
                    if (e.coin.IsSpent() || e.m_flags) R.fail("sync-left-flagged", "spent or flagged entry remains after Sync");
            break;
        case Kind::RESET: {
            for (int j = op.layer + 1; j < top; j++) if (st.cache[j]->GetCacheSize() || m.own_best[j + 1]) return Outcome::NOT_ENABLED;
            { auto guard{cache.CreateResetGuard()}; }
            for (int l = level; l <= top; l++) m.view[l] = m.view[level - 1]; // all local modifications are forgotten
            m.own_best[level] = 0;
            if (cache.GetCacheSize() || cache.GetDirtyCount()) R.fail("reset-left-entries", "cache not empty after Reset");
            break;
        }
        case Kind::SETBEST:
            for (int l = level + 1; l <= top; l++) if (m.own_best[l]) return Outcome::NOT_ENABLED;
            cache.SetBestBlock(BlockHash(op.c));
            m.own_best[level] = op.c;
            break;
        case Kind::GETBEST: {
            const int got = BlockId(cache.GetBestBlock());
            const int want = m.best_memoising(level);
            if (got != want) R.fail("getbestblock", "GetBestBlock returned block id " + std::to_string(got) + ", model " + std::to_string(want));
            break;
        }
        case Kind::N: break;
        }
    } catch (const std::exception& e) {
        R.fail("unexpected-exception", std::string("legal call threw: ") + e.what());
    }
    g_gates.executed[(int)op.kind]++;
    return Outcome::EXECUTED;
}

// ------------------------------------------------------------------------------------------------ 6. oracle: the whole stack against the model
void CheckAll(const Run& R, Stack& st, const Model& m)
{
    const Scope& S = R.S;
    // database
    for (int p = 0; p < S.outpoints; p++) {
        const std::optional<Coin> got = st.db.GetCoin(OutPoint(p));
        const int got_id = got ? CoinId(*got) : -1, want = m.coin(0, p).value_or(-1);
        if (got_id != want) R.fail("db-view", std::string("database holds ") + CoinChar(got_id) + " for " + OutPointName(p) + ", model " + CoinChar(want));
        if (st.db.HaveCoin(OutPoint(p)) != (want >= 0)) R.fail("db-view", std::string("database HaveCoin wrong for ") + OutPointName(p));
    }
    if (BlockId(st.db.GetBestBlock()) != m.own_best[0]) R.fail("db-bestblock", "database best block differs from the model");
    if (!st.db.GetHeadBlocks().empty()) R.fail("db-headblocks", "database left in a partially-written state (head blocks set)");

    for (int i = 0; i < S.layers; i++) {
        const CCoinsViewCache& c = *st.cache[i];
        const std::string L = "L" + std::to_string(i);
        // (a) the layer shows exactly the model's map (PeekCoin and HaveCoinInCache do not touch any cache)
        for (int p = 0; p < S.outpoints; p++) {
            const std::optional<Coin> got = c.PeekCoin(OutPoint(p));
            const int got_id = got ? CoinId(*got) : -1, want = m.coin(i + 1, p).value_or(-1);
            if (got_id != want) R.fail("view", L + " shows " + CoinChar(got_id) + " for " + OutPointName(p) + ", model holds " + CoinChar(want) + (want < 0 ? " (coin resurrected)" : got_id == -1 ? " (coin lost)" : ""));
            if (c.HaveCoinInCache(OutPoint(p)) && want < 0) R.fail("view", L + " HaveCoinInCache true for an outpoint the model holds no coin for");
        }
        // (b) flags and accounting equal recomputation over the entries
        size_t n = 0, dirty = 0, flagged = 0, usage = 0;
        for (const auto& [k, e] : c.cacheCoins) {
            n++;
            dirty += e.IsDirty();
            flagged += e.m_flags != 0;
            usage += e.coin.DynamicMemoryUsage();
            const bool ok = e.coin.IsSpent() ? (e.IsDirty() && !e.IsFresh()) : (e.IsDirty() || !e.IsFresh());
            if (!ok) R.fail("flags", L + " holds an entry in an invalid state (" + (e.coin.IsSpent() ? "spent" : "unspent") + ", flags " + std::to_string(e.m_flags) + ")");
            if (ok) g_gates.flag_combo[e.coin.IsSpent() ? 3 : e.IsFresh() ? 2 : e.IsDirty() ? 1 : 0]++;
        }
        if (c.GetCacheSize() != n) R.fail("acct-size", L + " GetCacheSize differs from the number of entries");
        if (c.GetDirtyCount() != dirty) R.fail("acct-dirty", L + " GetDirtyCount " + std::to_string(c.GetDirtyCount()) + " != recount " + std::to_string(dirty));
        if (c.cachedCoinsUsage != usage) R.fail("acct-usage", L + " cachedCoinsUsage " + std::to_string(c.cachedCoinsUsage) + " != recomputed " + std::to_string(usage));
        if (c.DynamicMemoryUsage() != memusage::DynamicUsage(c.cacheCoins) + usage) R.fail("acct-usage", L + " DynamicMemoryUsage is not map usage + coin usage");
        // (c) the flagged list links exactly the flagged entries, consistently in both directions
        size_t linked = 0;
        bool broken = false;
        for (const CoinsCachePair* it = c.m_sentinel.second.m_next; it != &c.m_sentinel; it = it->second.m_next) {
            if (++linked > n || !it->second.m_flags || it->second.m_next->second.m_prev != it || it->second.m_prev->second.m_next != it) { broken = true; break; }
        }
        if (broken || linked != flagged) R.fail("flagged-list", L + " flagged-entry list is inconsistent with the entries' flags");
        // (d) best block as seen from this layer
        int best = 0;
        for (int j = i; j >= 0 && !best; j--) best = BlockId(st.cache[j]->m_block_hash);
        if (!best) best = BlockId(st.db.GetBestBlock());
        if (best != m.best(i + 1)) R.fail("bestblock-view", L + " best block differs from the model");
    }
    // (e) the implementation's own invariant check. It assert()s: a failure kills this process and hb::guarded
    //     reports the history. Skipped if the checks above already reported this state, so the search goes on.
    if (!R.failed) for (int i = 0; i < S.layers; i++) st.cache[i]->SanityCheck();
}

// ------------------------------------------------------------------------------------------------ 7. canonical key
std::string Canon(const Scope& S, const Stack& st, const Model& m)
{
    std::string k;
    auto outpoint_char = [&](const COutPoint& o) { for (int p = 0; p < S.outpoints; p++) if (o == OutPoint(p)) return OutPointName(p); return '?'; };
    for (int i = 0; i < S.layers; i++) {
        const CCoinsViewCache& c = *st.cache[i];
        k += BlockChar(BlockId(c.m_block_hash));
        for (int p = 0; p < S.outpoints; p++) {
            auto it = c.cacheCoins.find(OutPoint(p));
            if (it == c.cacheCoins.end()) { k += "--"; continue; }
            k += CoinChar(CoinId(it->second.coin));
            k += char('0' + it->second.m_flags);
        }
        if (c.cacheCoins.size() > (size_t)S.outpoints) k += '!'; // entries for outpoints nobody asked for
        k += '/';
        size_t steps = 0;
        for (const CoinsCachePair* it = c.m_sentinel.second.m_next; it != &c.m_sentinel && steps++ <= c.cacheCoins.size(); it = it->second.m_next) k += outpoint_char(it->first);
        k += '|';
    }
    for (int p = 0; p < S.outpoints; p++) {
        const std::optional<Coin> coin = st.db.GetCoin(OutPoint(p));
        k += coin ? CoinChar(CoinId(*coin)) : '-';
    }
    k += BlockChar(BlockId(st.db.GetBestBlock()));
    k += "#";
    for (size_t l = 0; l < m.view.size(); l++) {
        for (int p = 0; p < S.outpoints; p++) k += m.coin(l, p) ? COIN_NAME[*m.coin(l, p)] : '-';
        k += char('0' + m.own_best[l]);
    }
    return k;
}

// ------------------------------------------------------------------------------------------------ 8. replay + main
// Replays `hist` on a fresh stack and a fresh model. Every proper prefix of a BFS history is itself a
// representative that was fully checked when it was first reached, so the oracle runs after the last operation only.
bool Replay(const Scope& S, const std::vector<Op>& ops, const std::string& hist, std::string& key, bool verbose = false)
{
    Run R{S, ops, hist, verbose};
    Stack st(S.layers, S.db_batch_bytes);
    Model m(S.layers);
    bool unchanged = false;
    std::string key_before;
    for (size_t i = 0; i < hist.size(); i++) {
        const bool last = i + 1 == hist.size();
        if (last || verbose) key_before = Canon(S, st, m);
        const Outcome o = Step(R, st, m, ops[(unsigned char)hist[i]], &unchanged);
        if (verbose) {
            if (o == Outcome::EXECUTED) CheckAll(R, st, m);
            printf("  %-34s %s  %s\n", ops[(unsigned char)hist[i]].name.c_str(), o == Outcome::EXECUTED ? "executed   " : "NOT ENABLED", Canon(S, st, m).c_str());
        }
        if (o == Outcome::NOT_ENABLED) {
            if (!last && !verbose) { printf("HARNESS-ERROR a representative history contains a disabled operation\n"); exit(2); }
            g_gates.not_enabled++;
            return false;
        }
    }
    CheckAll(R, st, m);
    key = Canon(S, st, m);
    if (unchanged && key != key_before) R.fail("noop-changed-state", "a call that must have no effect changed the state from " + key_before + " to " + key);
    return true;
}

// Each scope is searched to its own fixpoint. The state space is a product over outpoints and layers, so the
// larger shapes use a smaller coin / block alphabet.
const Scope SCOPES[] = {
    {"2L-2P-1C-1B", 2, 2, 1, 1, true},
    {"3L-1P-2C-2B", 3, 1, 2, 2, true},
    // the same small shape with a database that splits every flush into one LevelDB batch per entry (the multi-batch
    // path of CCoinsViewDB::BatchWrite, otherwise only reached by flushes above -dbbatchsize)
    {"2L-2P-1C-1B-dbbatch1", 2, 2, 1, 1, true, 1},
    {"2L-2P-2C-1B-dbbatch100", 2, 2, 2, 1, false, 100},
    {"2L-2P-2C-1B", 2, 2, 2, 1, false},
    {"3L-1P-3C-2B", 3, 1, 3, 2, false},
    {"3L-2P-1C-1B", 3, 2, 1, 1, false},
    {"2L-2P-3C-1B", 2, 2, 3, 1, false},
    {"2L-3P-1C-1B", 2, 3, 1, 1, false}, // the largest (about half of the thorough tier's work): last, so a deadline cuts only this one
};

int ReplayFile()
{
    std::ifstream f(vx::ctx().replay);
    std::string line, scope_name;
    std::vector<std::string> names;
    while (std::getline(f, line)) {
        if (line.empty() || line[0] == '#' || line.rfind("signal", 0) == 0) continue;
        if (line.rfind("scope ", 0) == 0) scope_name = line.substr(6); else names.push_back(line);
    }
    for (const Scope& S : SCOPES) {
        if (scope_name != S.name) continue;
        const std::vector<Op> ops = MakeOps(S);
        std::string hist, key;
        for (auto& n : names) {
            size_t o = 0;
            while (o < ops.size() && ops[o].name != n) o++;
            if (o == ops.size()) { printf("HARNESS-ERROR unknown operation in replay: %s\n", n.c_str()); return 2; }
            hist.push_back((char)o);
        }
        printf("replaying %zu operations in scope %s\n  (per layer: own block id, per outpoint coin+flags [1=DIRTY 2=FRESH], / flagged-list order | ... database # model)\n", hist.size(), S.name);
        Replay(S, ops, hist, key, /*verbose=*/true);
        return vx::finish();
    }
    printf("HARNESS-ERROR replay file names no known scope\n");
    return 2;
}

int Explore()
{
    auto& E = vx::ev();
    if (MakeCoin(0).DynamicMemoryUsage() == 0 || MakeCoin(1).DynamicMemoryUsage() != 0) { printf("HARNESS-ERROR coin alphabet does not cover both script storage modes\n"); return 2; }
    std::string scope_json = "[", rule_scopes;
    bool all_fixpoint = true;
    uint64_t states = 0, transitions = 0;
    int max_depth = 0;
    int s = 0;
    for (const Scope& S : SCOPES) {
        if (!S.quick && !vx::thorough()) continue;
        const std::vector<Op> ops = MakeOps(S);
        const double t0 = vx::elapsed();
        hb::describer() = [&](const std::string& h) { return Run{S, ops, h}.text(h); };
        hb::Bfs bfs;
        bfs.nops = (int)ops.size();
        bfs.max_depth = 1000; // effectively unbounded: the search ends at the fixpoint
        bfs.replay = [&](const std::string& h, std::string& key) { return Replay(S, ops, h, key); };
        std::string deepest;
        bfs.on_new_state = [&](const std::string& h, int) { if (h.size() > deepest.size()) deepest = h; };
        bfs.run();
        states += bfs.states;
        transitions += bfs.transitions;
        max_depth = std::max(max_depth, bfs.depth_done);
        if (!bfs.fixpoint) all_fixpoint = false;
        printf("[C15] scope %-12s ops=%zu states=%" PRIu64 " transitions=%" PRIu64 " levels=%d fixpoint=%s %.1fs\n", S.name, ops.size(), bfs.states, bfs.transitions, bfs.depth_done, bfs.fixpoint ? "yes" : "NO", vx::elapsed() - t0);
        scope_json += std::string(s ? "," : "") + "{\"scope\":" + vx::q(S.name) + ",\"layers\":" + std::to_string(S.layers) + ",\"outpoints\":" + std::to_string(S.outpoints) + ",\"coins\":" + std::to_string(S.coins) + ",\"block_ids\":" + std::to_string(S.blocks) + ",\"operations\":" + std::to_string(ops.size()) + ",\"states\":" + std::to_string(bfs.states) + ",\"transitions\":" + std::to_string(bfs.transitions) + ",\"bfs_levels\":" + std::to_string(bfs.depth_done) + ",\"fixpoint\":" + (bfs.fixpoint ? "true" : "false") + "}";
        rule_scopes += std::string(s ? ", " : "") + S.name;
        std::string one_line;
        for (unsigned char o : deepest) one_line += ops[o].name + " ";
        E.sample(std::string(S.name) + " deepest new state, " + std::to_string(deepest.size()) + " ops: " + one_line);
        if (hb::Shared* sh = hb::shared()) { sh->states = states; sh->transitions = transitions; }
        s++;
        if (!bfs.complete) break;
    }
    E.states = states;
    E.transitions = transitions;
    E.traces_validated = transitions;
    E.exhaustive = all_fixpoint;
    E.set("scopes", scope_json + "]");
    E.set("max_depth", (uint64_t)max_depth);
    E.set("add_rejected_by_logic_error", g_gates.rejected_by_throw.load());
    E.set("add_excluded_undetectable_contract_breach", g_gates.excluded_illegal.load());
    E.set("replays_with_disabled_last_operation", g_gates.not_enabled.load());
    E.rule = "per scope (layers L, outpoints P, coins C, block ids B: " + rule_scopes + ") breadth-first search over ALL histories of cache operations on any layer until no new canonical state appears (fixpoint, unbounded depth); state = per layer and outpoint absent/coin/spent + DIRTY + FRESH, flagged-list order, best-block ids, database contents; transition = one real method call executed on a freshly replayed stack and compared with a map-per-level model, followed by the full oracle";
    E.assume("calls are restricted to the documented caller contracts listed in the header of checks/C15/main.cpp (no AddCoin(overwrite=false) over a coin visible only through the parent, no direct writes beneath a layer that caches the outpoint, Flush/Sync only with a best block set, Emplace only for unknown outpoints)");
    E.assume("the value of SpendCoin's return is unspecified when no unspent coin exists (only 'no effect' is checked)");
    // Sanity gates: a run that never exercised one of these is vacuous.
    std::string missing;
    for (int k = 0; k < (int)Kind::N; k++) if (!g_gates.executed[k]) missing += std::string(" never-executed:") + KIND_NAME[k];
    const char* combo[] = {"unspent-clean", "unspent-DIRTY", "unspent-DIRTY|FRESH", "spent-DIRTY"};
    for (int k = 0; k < 4; k++) if (!g_gates.flag_combo[k]) missing += std::string(" never-seen:") + combo[k];
    if (!g_gates.rejected_by_throw) missing += " never-seen:AddCoin-logic_error";
    if (!g_gates.excluded_illegal) missing += " never-seen:excluded-illegal-AddCoin";
    if (!g_gates.spend_true || !g_gates.spend_false || !g_gates.fetch_hit || !g_gates.fetch_miss) missing += " never-seen:spend/lookup-hit-and-miss";
    if (!missing.empty() && all_fixpoint) { printf("HARNESS-ERROR property=C15 vacuous run:%s\n", missing.c_str()); vx::finish(); return 2; }
    return vx::finish();
}

} // namespace

int main(int argc, char** argv)
{
    vx::init(argc, argv, "C15", "model_checking");
    LogInstance().DisableLogging(); // the database logs on every open; nothing here reads the log
    // Every CCoinsViewCache allocates a 256 KiB pool chunk on first use. Keep those on the heap instead of
    // mmap()/munmap()ing them for each of the millions of replayed stacks (pure speed-up, ~100x).
    mallopt(M_MMAP_THRESHOLD, 1 << 30);
    mallopt(M_TRIM_THRESHOLD, 1 << 30);
    if (!vx::ctx().replay.empty()) return ReplayFile();
    // Everything runs in a fork()ed child: an assert() inside coins.cpp / txdb.cpp (SanityCheck, BatchWrite, ...)
    // is part of the oracle and is reported as a VIOLATION with the history that triggered it.
    return hb::guarded(Explore);
}
