// C03 — Context-free transaction checks accept exactly the spec-valid transactions.
// VX-ENUM: full cross product of a boundary alphabet of transaction shapes, real CheckTransaction vs
// ref/refmodel_txcheck.h (verdict by an order-free predicate, reason by first-violated-rule order).
#include <vx/vx.h>
#include <ref/refmodel_txcheck.h>

#include <consensus/amount.h>
#include <consensus/tx_check.h>
#include <consensus/validation.h>
#include <crypto/sha256.h>
#include <primitives/transaction.h>
#include <script/script.h>
#include <uint256.h>

#include <climits>
#include <malloc.h>

namespace {

// ---- alphabets -------------------------------------------------------------------------------------------------
// prevouts: P0 null; P1 null hash, n=0; P2 lowest hash bit, n=NULL_INDEX; P3 highest hash bit, n=NULL_INDEX;
//           P4 lowest hash bit, n=0.  (P2/P4 differ only in n, P2/P3 and P1/P4 only in the hash)
struct Prev { unsigned char first, last; uint32_t n; };
const Prev PREV[5] = {{0, 0, 0xffffffffu}, {0, 0, 0}, {1, 0, 0xffffffffu}, {0, 0x80, 0xffffffffu}, {1, 0, 0}};
const int64_t MAXM = 2100000000000000LL;
const int64_t VAL[8] = {-1, 0, 1, MAXM - 1, MAXM, MAXM + 1, INT64_MAX, INT64_MIN};
const uint64_t SLEN[8] = {0, 1, 2, 3, 99, 100, 101, 102};
// padded non-witness sizes (x4 = 3,999,996 / 4,000,000 / 4,000,004), 0 = no padding
const uint64_t PADSIZE[4] = {0, 999999, 1000000, 1000001};

struct Case {
    std::vector<int> vin;    // indices into PREV
    std::vector<int> vout;   // indices into VAL
    int sl = 0;              // index into SLEN: scriptSig length of vin[0] (other inputs: 1 byte)
    int wit = 0;             // 0 none; 1: witness (one 64-byte item) on the last input; 2: one 1,000,000-byte item
    int pad = 0;             // index into PADSIZE: scriptPubKey of vout[0] padded so the non-witness size hits it
    std::string str() const
    {
        std::string s = "vin=[";
        for (size_t i = 0; i < vin.size(); i++) s += (i ? "," : "") + std::string("P") + std::to_string(vin[i]);
        s += "] vout=[";
        for (size_t i = 0; i < vout.size(); i++) s += (i ? "," : "") + std::to_string(VAL[vout[i]]);
        s += "] scriptSig0_len=" + std::to_string(SLEN[sl]) + " witness=" + std::to_string(wit) + " nonwitness_size=" + (pad ? std::to_string(PADSIZE[pad]) : std::string("natural"));
        return s;
    }
};

std::vector<std::vector<int>> tuples(int alphabet, int minlen, int maxlen)
{
    std::vector<std::vector<int>> out;
    for (int len = minlen; len <= maxlen; len++) {
        uint64_t n = 1;
        for (int i = 0; i < len; i++) n *= alphabet;
        for (uint64_t k = 0; k < n; k++) {
            std::vector<int> t(len);
            uint64_t x = k;
            for (int i = 0; i < len; i++) { t[i] = x % alphabet; x /= alphabet; }
            out.push_back(std::move(t));
        }
    }
    return out;
}

void build(const Case& c, reftx::Tx& r, CMutableTransaction& m)
{
    r = reftx::Tx{};
    m = CMutableTransaction{};
    m.version = 2;
    m.nLockTime = 0;
    for (size_t i = 0; i < c.vin.size(); i++) {
        const Prev& p = PREV[c.vin[i]];
        reftx::In in;
        in.hash[0] = p.first;
        in.hash[31] = p.last;
        in.n = p.n;
        in.script_sig_len = i == 0 ? SLEN[c.sl] : 1;
        uint256 h;
        h.data()[0] = p.first;
        h.data()[31] = p.last;
        CTxIn txin;
        txin.prevout = COutPoint(Txid::FromUint256(h), p.n);
        const std::vector<unsigned char> sig(in.script_sig_len, 0x51);
        txin.scriptSig = CScript(sig.begin(), sig.end());
        txin.nSequence = 0xffffffff;
        if (c.wit && i + 1 == c.vin.size()) {
            uint64_t wl = c.wit == 1 ? 64 : 1000000;
            in.witness_item_lens.push_back(wl);
            txin.scriptWitness.stack.emplace_back(wl, (unsigned char)0x42);
        }
        r.vin.push_back(in);
        m.vin.push_back(std::move(txin));
    }
    for (size_t i = 0; i < c.vout.size(); i++) {
        reftx::Out o;
        o.value = VAL[c.vout[i]];
        o.script_len = 1;
        r.vout.push_back(o);
    }
    if (c.pad && !r.vout.empty()) {
        // choose script_len of vout[0] (>= 65536, so its length prefix is 5 bytes) such that the reference size
        // formula gives exactly PADSIZE
        r.vout[0].script_len = 0x10000;
        uint64_t base = reftx::nonwitness_size(r);
        r.vout[0].script_len += PADSIZE[c.pad] - base;
    }
    for (const reftx::Out& o : r.vout) {
        CTxOut txo;
        txo.nValue = o.value;
        std::vector<unsigned char> spk(o.script_len, 0x6a);
        txo.scriptPubKey = CScript(spk.begin(), spk.end());
        m.vout.push_back(std::move(txo));
    }
}

std::atomic<uint64_t> n_bad{0};
std::mutex g_mu;
std::map<std::string, uint64_t> g_reasons;
std::vector<uint64_t> g_keys; // canonical keys of all non-trivial cases (sorted + uniqued at the end)

void run_case(const Case& c, std::map<std::string, uint64_t>& reasons, std::vector<uint64_t>& keys)
{
    reftx::Tx r;
    CMutableTransaction m;
    build(c, r, m);
    const reftx::Verdict want = reftx::check(r);
    const bool want_ok = reftx::spec_valid(r);
    const CTransaction tx(std::move(m));
    TxValidationState state;
    const bool got = CheckTransaction(tx, state);
    const std::string reason = got ? std::string() : state.GetRejectReason();
    std::string err;
    if (want.ok != want_ok) err = "HARNESS: the two reference formulations disagree";
    else if (got != want_ok) err = std::string("verdict: CheckTransaction ") + (got ? "accepted" : "rejected (" + reason + ")") + ", spec says " + (want_ok ? "valid" : "invalid: " + want.reason);
    else if (!got && reason != want.reason) err = "reason: got " + reason + ", first violated rule is R" + std::to_string(want.rule) + " " + want.reason;
    else if (got != state.IsValid() || got == state.IsInvalid()) err = "return value and TxValidationState disagree";
    if (c.pad && reftx::nonwitness_size(r) != PADSIZE[c.pad]) err = "HARNESS: padding did not hit the target size";
    if (!err.empty()) {
        if (n_bad.fetch_add(1) < 8) vx::violation("txcheck " + c.str(), err, c.str());
    }
    reasons[got ? (tx.IsCoinBase() ? "accept-coinbase" : "accept") : reason]++;
    if (!c.vin.empty() && !c.vout.empty()) {
        // canonical key of the case = the descriptor itself
        unsigned char d[16] = {(unsigned char)c.vin.size(), (unsigned char)c.vout.size(), (unsigned char)c.sl, (unsigned char)c.wit, (unsigned char)c.pad};
        for (size_t i = 0; i < c.vin.size(); i++) d[5 + i] = (unsigned char)c.vin[i];
        for (size_t i = 0; i < c.vout.size(); i++) d[10 + i] = (unsigned char)c.vout[i];
        keys.push_back(vx::fnv1a(d, sizeof d));
    }
}

// Enumerate vinset x voutset x sl-set x wit-set x pad-set in parallel.
uint64_t sweep(const std::vector<std::vector<int>>& vins, const std::vector<std::vector<int>>& vouts, const std::vector<int>& sls,
               const std::vector<int>& wits, const std::vector<int>& pads, uint64_t chunk)
{
    const uint64_t inner = sls.size() * wits.size() * pads.size();
    const uint64_t N = vins.size() * vouts.size();
    std::atomic<uint64_t> evals{0};
    std::atomic<bool> stop{false};
    vx::par_for(N, chunk, [&](uint64_t lo, uint64_t hi, unsigned) {
        if (stop) return;
        if (vx::deadline_reached()) { stop = true; return; }
        std::map<std::string, uint64_t> reasons;
        std::vector<uint64_t> keys;
        uint64_t n = 0;
        for (uint64_t k = lo; k < hi; k++) {
            Case c;
            c.vin = vins[k / vouts.size()];
            c.vout = vouts[k % vouts.size()];
            for (uint64_t j = 0; j < inner; j++) {
                uint64_t x = j;
                c.sl = sls[x % sls.size()]; x /= sls.size();
                c.wit = wits[x % wits.size()]; x /= wits.size();
                c.pad = pads[x];
                // without inputs scriptSig/witness do not exist, without outputs there is nothing to pad:
                // keep one representative so that every enumerated case is a different transaction
                if (c.vin.empty() && (c.sl != sls[0] || c.wit != wits[0])) continue;
                if (c.vout.empty() && c.pad != pads[0]) continue;
                run_case(c, reasons, keys);
                n++;
            }
        }
        evals += n;
        std::lock_guard<std::mutex> l(g_mu);
        g_keys.insert(g_keys.end(), keys.begin(), keys.end());
        for (auto& [k, v] : reasons) g_reasons[k] += v;
    });
    if (stop) vx::ev().exhaustive = false;
    return evals;
}

} // namespace

int main(int argc, char** argv)
{
    vx::init(argc, argv, "C03", "exploration");
    auto& E = vx::ev();
    SHA256AutoDetect();
    mallopt(M_MMAP_THRESHOLD, 64 << 20); // the 1 MB paddings come from the heap instead of mmap/munmap pairs
    mallopt(M_TRIM_THRESHOLD, 256 << 20);
    const bool big = vx::thorough();

    if (!vx::ctx().replay.empty()) {
        printf("replay: re-run the tier; the case text in the replay file names the transaction shape\n");
    }

    // (A) natural-size transactions: full cross product
    const int max_in = big ? 4 : 3;
    auto vinsA = tuples(5, 0, max_in);
    auto voutsA = tuples(8, 0, 3);
    uint64_t a = sweep(vinsA, voutsA, {0, 1, 2, 3, 4, 5, 6, 7}, {0, 1}, {0}, 256);
    // thorough: 4 outputs with up to 3 inputs (4 inputs x 4 outputs is not enumerated)
    if (big) a += sweep(tuples(5, 0, 3), tuples(8, 4, 4), {0, 1, 2, 3, 4, 5, 6, 7}, {0, 1}, {0}, 256);
    printf("natural-size sweep done: %.1fs\n", vx::elapsed());
    E.evaluations += a;
    E.set("natural_size_cases", a);

    // (B) size boundary: non-witness size 999,999 / 1,000,000 / 1,000,001 bytes, crossed with everything that
    // is checked after the size rule (values, duplicates, coinbase length, null prevouts) and with witness data
    // (64 bytes, and 1,000,000 bytes which would be oversize if witness bytes counted)
    auto vinsB = tuples(5, 1, big ? 3 : 2);
    std::vector<std::vector<int>> voutsB;
    for (auto& t : tuples(8, 1, 2)) {
        bool keep = big;
        if (!keep) { keep = true; for (int v : t) if (v != 0 && v != 1 && v != 4 && v != 5) keep = false; }
        if (keep) voutsB.push_back(t);
    }
    std::vector<int> slsB{1, 2, 5, 6}; // scriptSig[0] lengths 1, 2, 100, 101
    uint64_t b = sweep(vinsB, voutsB, slsB, {0, 1, 2}, {1, 2, 3}, 4);
    E.evaluations += b;
    E.set("size_boundary_cases", b);

    std::sort(g_keys.begin(), g_keys.end());
    E.distinct_nontrivial = std::unique(g_keys.begin(), g_keys.end()) - g_keys.begin();
    std::string seen;
    for (auto& [k, v] : g_reasons) seen += k + "=" + std::to_string(v) + " ";
    E.set_str("outcomes", seen);
    E.sample("outcome histogram: " + seen);
    {
        Case c; c.vin = {0}; c.vout = {4}; c.sl = 5; c.wit = 2; c.pad = 2;
        E.sample("e.g. accepted coinbase: " + c.str());
        Case d; d.vin = {2, 0, 2}; d.vout = {4, 4, 0}; d.sl = 0;
        E.sample("e.g. " + d.str() + " -> bad-txns-txouttotal-toolarge (R4 before R5/R6)");
    }
    E.rule = "cross product: inputs 0.." + std::to_string(max_in) + " over 5 prevouts {null, 3 near-null, plain} (all null positions, all duplicate pairs) x outputs 0..3" +
             std::string(big ? " (and 4 outputs x inputs 0..3)" : "") + " over values {-1,0,1,MAX-1,MAX,MAX+1,INT64_MAX,INT64_MIN} x scriptSig[0] length {0,1,2,3,99,100,101,102} x witness {none,64B}; plus non-witness size {999999,1000000,1000001} x inputs 1.." +
             std::to_string(big ? 3 : 2) + " x outputs 1..2 (" + std::string(big ? "all 8 values" : "values {0,1,MAX,MAX+1}") + ") x scriptSig[0] lengths {1,2,100,101} x witness {none,64B,1MB}. Oracle: verdict == order-free spec predicate and reject reason == first violated rule. "
             "distinct_nontrivial = distinct transactions with >=1 input and >=1 output (decided by rules R3..R6)";
    E.assume("CheckTransaction depends only on the transaction; rule R4's three reasons are resolved by a left-to-right scan of the outputs (negative, too large, running total)");

    // sanity gate: every outcome class must have occurred
    static const char* must[] = {"accept", "accept-coinbase", "bad-txns-vin-empty", "bad-txns-vout-empty", "bad-txns-oversize", "bad-txns-vout-negative",
                                 "bad-txns-vout-toolarge", "bad-txns-txouttotal-toolarge", "bad-txns-inputs-duplicate", "bad-cb-length", "bad-txns-prevout-null"};
    if (vx::rep().violations == 0 && E.exhaustive) {
        for (const char* k : must)
            if (!g_reasons.count(k)) {
                printf("HARNESS-ERROR property=C03 outcome class never occurred: %s\n", k);
                vx::finish();
                return 2;
            }
    }
    return vx::finish();
}
