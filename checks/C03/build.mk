LINK := small
