// C27 — Mempool resource and topology limits always hold.
// poolsim exploration under small limits, two node configurations:
//   "_full": max_size_bytes 16000 with the pool pre-filled to 2 kB below the limit, cluster limits 4 txs / 400 vB
//            (size-limit eviction, rolling minimum fee, cluster size limit); packages both with a parent that needs its
//            child (CPFP, multi-transaction path) and with members that are each acceptable on their own;
//   "_topo": cluster limits 3 txs and 1200 vB, TRUC parents / children / siblings incl. children
//            padded to exactly 1000 / 1001 vB, ephemeral-dust packages, dust txs with prioritisation, cluster joins.
// Oracle after every transaction / package acceptance (independent recomputation from infoAll()):
//   (1) DynamicMemoryUsage() <= max_size_bytes; every connected component of the pool within the configured count and
//       size (sum of weights / 4) limits;
//   (2) after an eviction for space GetMinFee() is above the feerate of every evicted chunk (chunks of the brute-force
//       optimal chunking of the pool just before trimming that intersect the evicted set);
//   (3) no disconnection in the history: every v3 tx has <= 1 pool parent and <= 1 pool child, all v3, no grandparents,
//       vsize <= 10000 and <= 1000 if it has a parent; no non-v3 tx has a v3 parent;
//   (4) a newly accepted tx with a dust output has exactly one, base fee 0 and modified fee 0; a newly accepted tx whose
//       unconfirmed parent has a dust output spends it.
#include <kits/poolsim_main.h>

namespace {
using namespace ps;

// dust threshold of a P2WSH output at 3000 sat/kvB, transcribed: (8+1+34 output bytes + 32+4+1+107/4+4 input bytes) * 3
constexpr CAmount DUST_P2WSH = (43 + 67) * 3;
std::vector<uint32_t> DustOuts(const CTransaction& tx)
{
    std::vector<uint32_t> v;
    for (uint32_t k = 0; k < tx.vout.size(); k++) {
        const CScript& spk = tx.vout[k].scriptPubKey;
        if (!spk.empty() && spk[0] == OP_RETURN) continue;
        if (tx.vout[k].nValue < DUST_P2WSH) v.push_back(k); // all spendable outputs of the menu are P2WSH
    }
    return v;
}

struct C27 : Monitor {
    std::string what() const override
    {
        return "oracle after every acceptance: usage <= max_size_bytes, every connected component within the cluster count / size limits, GetMinFee() above every evicted chunk's feerate after a size eviction, TRUC topology and size caps (histories without disconnection), dust => single dust output, zero base and modified fee, children of dusty parents spend the dust";
    }
    void Limits(Sim& sim, const Step& st, const std::string& cls)
    {
        const Snap& s = st.post;
        if ((int64_t)s.usage > sim.o.max_size_bytes) sim.fs.report("C27-usage-above-max:" + cls, "after '" + st.label + "' DynamicMemoryUsage " + std::to_string(s.usage) + " > max_size_bytes " + std::to_string(sim.o.max_size_bytes));
        std::vector<char> done(s.txs.size(), 0);
        for (size_t r = 0; r < s.txs.size(); r++) {
            if (done[r]) continue;
            auto cl = s.Cluster(r);
            int64_t w = 0;
            for (size_t k : cl) { done[k] = 1; w += RefWeight(*s.txs[k].tx); }
            if (cl.size() > sim.o.cluster_count) sim.fs.report("C27-cluster-count:" + cls, "after '" + st.label + "' a cluster has " + std::to_string(cl.size()) + " txs > limit " + std::to_string(sim.o.cluster_count));
            if ((w + 3) / 4 > sim.o.cluster_size_vbytes) sim.fs.report("C27-cluster-size:" + cls, "after '" + st.label + "' a cluster has " + std::to_string((w + 3) / 4) + " vB > limit " + std::to_string(sim.o.cluster_size_vbytes));
            if (cl.size() == sim.o.cluster_count) sim.Bump(10);
            if ((w + 3) / 4 + 96 > sim.o.cluster_size_vbytes) sim.Bump(11);
        }
    }
    // chunks (fee, weight, members) of the optimal chunking of a tx set with dependencies, brute force per cluster
    struct Chunk { __int128 fee; int64_t weight; std::set<Txid> members; };
    static std::vector<Chunk> Chunks(const Snap& s)
    {
        std::vector<Chunk> out;
        std::vector<char> done(s.txs.size(), 0);
        for (size_t r = 0; r < s.txs.size(); r++) {
            if (done[r]) continue;
            auto cl = s.Cluster(r);
            std::vector<size_t> m(cl.begin(), cl.end());
            for (size_t x : m) done[x] = 1;
            size_t n = m.size();
            uint32_t remaining = (1u << n) - 1;
            std::vector<uint32_t> par(n, 0);
            for (size_t a = 0; a < n; a++) for (size_t b = 0; b < n; b++) if (s.parents[m[a]].count(m[b])) par[a] |= 1u << b;
            while (remaining) {
                bool have = false; __int128 bf = 0; int64_t bs = 1; uint32_t bset = 0;
                for (uint32_t sub = remaining; sub; sub = (sub - 1) & remaining) {
                    bool closed = true; __int128 f = 0; int64_t z = 0;
                    for (size_t a = 0; a < n && closed; a++) if (sub >> a & 1) { if ((par[a] & remaining) & ~sub) closed = false; f += s.txs[m[a]].mod(); z += RefWeight(*s.txs[m[a]].tx); }
                    if (!closed) continue;
                    __int128 l = f * bs, rr = bf * z;
                    if (!have || l > rr || (l == rr && z < bs)) { have = true; bf = f; bs = z; bset = sub; } // smallest set on ties: finest chunking
                }
                Chunk c{bf, bs, {}};
                for (size_t a = 0; a < n; a++) if (bset >> a & 1) c.members.insert(s.txs[m[a]].tx->GetHash());
                out.push_back(c);
                remaining &= ~bset;
            }
        }
        return out;
    }
    void Eviction(Sim& sim, const Step& st, const std::string& cls, const std::set<Txid>& replaced, const std::vector<PoolTx>& added)
    {
        // pool just before trimming = (pre - replaced + new) - expired, where expiry takes every descendant along
        // (also a just-accepted child of an expired tx)
        int64_t cutoff = st.post.now - (int64_t)sim.pool().m_opts.expiry.count();
        Snap all;
        for (auto& t : st.pre.txs) if (!replaced.count(t.tx->GetHash())) all.txs.push_back(t);
        for (auto& t : added) { PoolTx n2 = t; if (n2.time == 0) n2.time = st.post.now; all.txs.push_back(n2); }
        all.Link();
        std::set<Txid> expired;
        for (size_t i = 0; i < all.txs.size(); i++) if (all.txs[i].time < cutoff) for (size_t d : all.Desc(i)) expired.insert(all.txs[d].tx->GetHash());
        Snap mid;
        for (auto& t : all.txs) if (!expired.count(t.tx->GetHash())) mid.txs.push_back(t);
        mid.Link();
        std::set<Txid> evicted;
        for (auto& t : mid.txs) if (!st.post.has(t.tx->GetHash())) evicted.insert(t.tx->GetHash());
        if (evicted.empty()) return;
        sim.Bump(12);
        CAmount minfee = sim.pool().GetMinFee().GetFeePerK();
        for (auto& c : Chunks(mid)) {
            bool hit = false;
            for (auto& m : c.members) if (evicted.count(m)) hit = true;
            if (!hit) continue;
            int64_t vs = (c.weight + 3) / 4;
            // evicted chunk feerate in sat/kvB, rounded down like the implementation's own unit
            __int128 rate = c.fee * 1000 / vs;
            if (c.fee < 0 && (c.fee * 1000) % vs) rate -= 1;
            if ((__int128)minfee <= rate) sim.fs.report("C27-minfee-not-above-evicted:" + cls, "after '" + st.label + "' evicted a chunk with feerate " + std::to_string((long long)rate) + " sat/kvB (fee " + std::to_string((long long)c.fee) + ", " + std::to_string(vs) + " vB) but GetMinFee() is " + std::to_string(minfee));
        }
    }
    void Truc(Sim& sim, const Step& st, const std::string& cls)
    {
        const Snap& s = st.post;
        for (size_t i = 0; i < s.txs.size(); i++) {
            const CTransaction& tx = *s.txs[i].tx;
            std::string id = tx.GetHash().ToString().substr(0, 12);
            if (tx.version == 3) {
                sim.Bump(13);
                if (s.parents[i].size() > 1) sim.fs.report("C27-truc-parents:" + cls, "after '" + st.label + "' v3 tx " + id + " has " + std::to_string(s.parents[i].size()) + " unconfirmed parents");
                if (s.children[i].size() > 1) sim.fs.report("C27-truc-children:" + cls, "after '" + st.label + "' v3 tx " + id + " has " + std::to_string(s.children[i].size()) + " unconfirmed children");
                if (s.Anc(i).size() > 2) sim.fs.report("C27-truc-ancestors:" + cls, "after '" + st.label + "' v3 tx " + id + " has more than one unconfirmed ancestor");
                if (s.Desc(i).size() > 2) sim.fs.report("C27-truc-descendants:" + cls, "after '" + st.label + "' v3 tx " + id + " has more than one unconfirmed descendant");
                for (size_t p : s.parents[i]) if (s.txs[p].tx->version != 3) sim.fs.report("C27-truc-nontruc-parent:" + cls, "after '" + st.label + "' v3 tx " + id + " has a non-v3 unconfirmed parent");
                for (size_t c : s.children[i]) if (s.txs[c].tx->version != 3) sim.fs.report("C27-truc-nontruc-child:" + cls, "after '" + st.label + "' v3 tx " + id + " has a non-v3 unconfirmed child");
                int64_t vs = RefVsize(tx);
                if (vs > 10000) sim.fs.report("C27-truc-size:" + cls, "v3 tx above 10000 vB in the pool");
                if (!s.parents[i].empty() && vs > 1000) sim.fs.report("C27-truc-child-size:" + cls, "after '" + st.label + "' v3 tx " + id + " with an unconfirmed parent has " + std::to_string(vs) + " vB > 1000");
                if (!s.parents[i].empty() && vs >= 1000) sim.Bump(14);
            } else {
                for (size_t p : s.parents[i]) if (s.txs[p].tx->version == 3) sim.fs.report("C27-nontruc-truc-parent:" + cls, "after '" + st.label + "' non-v3 tx " + id + " has a v3 unconfirmed parent");
            }
        }
    }
    void Dust(Sim& sim, const Step& st, const std::string& cls, const std::vector<PoolTx>& added)
    {
        for (auto& t : added) {
            const CTransaction& tx = *t.tx;
            std::string id = tx.GetHash().ToString().substr(0, 12);
            auto d = DustOuts(tx);
            if (!d.empty()) {
                sim.Bump(15);
                if (d.size() > 1) sim.fs.report("C27-dust-multiple:" + cls, "'" + st.label + "' accepted tx " + id + " with " + std::to_string(d.size()) + " dust outputs");
                if (t.fee != 0 || t.mod() != 0) sim.fs.report("C27-dust-nonzero-fee:" + cls, "'" + st.label + "' accepted tx " + id + " with a dust output and base fee " + std::to_string(t.fee) + " / modified fee " + std::to_string(t.mod()));
            }
            // unconfirmed parents (in the resulting pool or in the same submission) with dust must have it spent by this tx
            std::set<Txid> seen;
            for (auto& in : tx.vin) {
                if (!seen.insert(in.prevout.hash).second) continue;
                CTransactionRef par;
                for (auto& a2 : added) if (a2.tx->GetHash() == in.prevout.hash) par = a2.tx;
                if (!par) { auto it = st.pre.idx.find(in.prevout.hash); if (it != st.pre.idx.end()) par = st.pre.txs[it->second].tx; }
                if (!par) continue;
                for (uint32_t k : DustOuts(*par)) {
                    bool spends = false;
                    for (auto& in2 : tx.vin) if (in2.prevout == COutPoint(par->GetHash(), k)) spends = true;
                    if (!spends) sim.fs.report("C27-dust-not-spent:" + cls, "'" + st.label + "' accepted tx " + id + " which spends from unconfirmed parent " + par->GetHash().ToString().substr(0, 12) + " without spending its dust output");
                }
            }
        }
    }
    void after(Sim& sim, const Step& st) override
    {
        std::string cls = Sim::SplitLabel(st.label)[0];
        // cluster limits hold in every state (also after reorg trimming); usage + the rest after acceptances
        if (st.act.kind != Act::SUBMIT && st.act.kind != Act::PACKAGE) {
            const Snap& s = st.post;
            std::vector<char> done(s.txs.size(), 0);
            for (size_t r = 0; r < s.txs.size(); r++) {
                if (done[r]) continue;
                auto cl = s.Cluster(r);
                int64_t w = 0;
                for (size_t k : cl) { done[k] = 1; w += RefWeight(*s.txs[k].tx); }
                if (cl.size() > sim.o.cluster_count || (w + 3) / 4 > sim.o.cluster_size_vbytes) sim.fs.report("C27-cluster-limit-after:" + cls, "after '" + st.label + "' a cluster has " + std::to_string(cl.size()) + " txs / " + std::to_string((w + 3) / 4) + " vB");
            }
            if (sim.o.require_standard && sim.n_inval == 0) Truc(sim, st, cls);
            return;
        }
        std::vector<PoolTx> added; // submitted txs that were accepted by the call (they may already be evicted again)
        std::set<Txid> replaced;
        if (st.act.kind == Act::SUBMIT) {
            if (st.accepted() || (st.res->m_state.GetRejectReason() == "mempool full")) {
                PoolTx t; t.tx = st.act.txs[0];
                auto it = st.post.idx.find(t.tx->GetHash());
                if (it != st.post.idx.end()) t = st.post.txs[it->second];
                else { // evicted right away: fee from the pre-state values
                    CAmount in = 0, out = 0;
                    for (auto& i : t.tx->vin) in += sim.ValueOf(st.pre, i.prevout).value_or(0);
                    for (auto& o2 : t.tx->vout) out += o2.nValue;
                    t.fee = in - out; t.vsize = RefVsize(*t.tx);
                    auto d = st.pre.deltas.find(t.tx->GetHash());
                    t.delta = d == st.pre.deltas.end() ? 0 : d->second;
                }
                added.push_back(t);
            }
            if (st.res) for (auto& r : st.res->m_replaced_transactions) replaced.insert(r->GetHash());
        } else {
            for (auto& tx : st.act.txs) {
                auto it = st.post.idx.find(tx->GetHash());
                if (it != st.post.idx.end() && !st.pre.has(tx->GetHash())) added.push_back(st.post.txs[it->second]);
            }
            for (auto& [w, r] : st.pres->m_tx_results) for (auto& rt : r.m_replaced_transactions) replaced.insert(rt->GetHash());
        }
        bool accepted_any = false;
        for (auto& t : added) if (st.post.has(t.tx->GetHash())) accepted_any = true;
        if (added.empty()) return;
        Limits(sim, st, cls);
        // evictions can only be attributed exactly when every submitted tx of a package is accounted for
        bool pkg_partial = st.act.kind == Act::PACKAGE && added.size() != st.act.txs.size();
        if (!pkg_partial) Eviction(sim, st, cls, replaced, added);
        if (sim.o.require_standard && sim.n_inval == 0) Truc(sim, st, cls);
        if (sim.o.require_standard && accepted_any) {
            std::vector<PoolTx> in_pool;
            for (auto& t : added) if (st.post.has(t.tx->GetHash())) in_pool.push_back(t);
            Dust(sim, st, cls, in_pool);
        }
    }
    bool topo{false};
    int gate(Sim& sim) override
    {
        auto* sh = sim.fs.sh;
        auto need = [&](int i, const char* w) { if (!sh->outcome_classes[i].load()) { printf("HARNESS-ERROR property=C27 [%s] never happened: %s\n", sim.o.prefill ? "_full" : "_topo", w); return true; } return false; };
        bool bad = false;
        if (sim.o.prefill) {
            bad |= need(12, "eviction for space");
            bad |= need(11, "cluster within one small tx of the size limit");
        } else {
            bad |= need(10, "cluster at the count limit");
            bad |= need(13, "v3 tx in the pool");
            bad |= need(15, "accepted tx with a dust output");
            if (vx::thorough()) bad |= need(14, "v3 child of exactly 1000 vB accepted");
        }
        bad |= need(O_REJECT, "rejected submission");
        return bad ? 2 : 0;
    }
};
} // namespace

int main(int argc, char** argv)
{
    C27 mon;
    return ps::Main(argc, argv, "C27", [&] {
        bool big = vx::thorough();
        ps::Opts f; // size limit + cluster size limit
        f.prefill = 12;
        f.base_blocks = 126;
        f.classes = {"N", "C", "PK", "M", "P"};
        f.guarded = false;
        f.fees = "mh";
        f.child_fees = "h";
        // two package shapes: parent below minrelay (goes through the multi-transaction path) and parent paying 10x
        // minrelay (every member is accepted on its own through the single-in-package path, which never trims itself)
        f.pk_parent = "lh"; f.pk_child = "k";
        f.max_idx = 2;
        f.prio_minus = false; f.prio_next = false;
        f.depth_quick = 2; f.depth_thorough = 3;
        if (big) { f.classes.insert("J"); f.classes.insert("T"); f.classes.insert("R"); f.thr = "e"; }
        ps::Opts t; // topology: TRUC, dust, cluster count
        t.max_size_bytes = 60000;
        t.cluster_size_vbytes = 1200;
        t.cluster_count = 3;
        t.classes = {"N3", "C", "CV", "PK", "PK3", "PE", "D", "P"};
        t.guarded = true;
        t.pe_all = big;
        t.fees = "h";
        t.child_fees = "h";
        t.pk_parent = "l"; t.pk_child = "k";
        t.max_idx = 2;
        t.prio_minus = false; t.prio_next = false;
        t.depth_quick = 3; t.depth_thorough = 3;
        if (big) { t.classes.insert("N"); t.classes.insert("CP"); t.pad_sizes = {1000, 1001}; t.classes.insert("SB"); t.thr = "e"; t.classes.insert("J"); t.classes.insert("M"); }
        else { t.classes.insert("CP"); t.pad_sizes = {1001}; }
        return ps::Configs{{"_full", f}, {"_topo", t}};
    }, mon);
}
