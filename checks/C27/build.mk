LINK := full
KITS := chainkit
