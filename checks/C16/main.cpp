// C16 — The node recovers a consistent chainstate after a crash at any point.
// VX-CRASH: (1) a recorder child runs a regtest workload on a disk-backed node (on-disk coins + block-tree
// LevelDBs, tiny coins-DB write batches so one flush is many LevelDB batches, fast-prune sized block files) with
// every libc-level write/sync/rename logged; (2) every crash state of the log — each prefix under process-kill
// semantics (with torn last writes) and each (cut, crash point) under lost-unsynced-suffix semantics — is
// materialised; (3) a fresh child process runs the real start-up on it and the result is judged against the
// reference ledger.
#include <vx/crash.h>
#include <kits/chainkit.h>
#include <streams.h>
#include <sys/wait.h>
#include <filesystem>

using namespace ck;
namespace sfs = std::filesystem;

static std::string g_scratch;
static bool g_prune = false; // thorough tier: prune mode (manual pruning is part of the workload)

static NodeOpts DiskOpts(const std::string& datadir)
{
    NodeOpts o;
    o.datadir = datadir;
    o.coins_db_in_memory = false;
    o.block_tree_db_in_memory = false;
    o.extra_args = {"-fastprune", "-checkblocks=0", "-checklevel=3"};
    if (g_prune) o.extra_args.push_back("-prune=1");
    o.chainman_tweak = [](ChainstateManager::Options& c) { c.coins_view.batch_write_bytes = 120; };
    o.load_chainstate = false;
    return o;
}

// ------------------------------------------------------------------------------------------- workload (recorder child)
struct Workload {
    Node* np;
#define n (*np)
    RefLedger L;
    std::vector<CBlock> blocks;
    explicit Workload(Node& node) : np(&node) { L.AddGenesis(Params().GenesisBlock()); }
    std::vector<std::pair<COutPoint, RefCoin>> Coins(const uint256& parent)
    {
        std::vector<std::pair<COutPoint, RefCoin>> v;
        auto u = L.UtxoAt(parent);
        int h = L.Height(parent) + 1;
        for (auto& [op, c] : *u) {
            if (c.spk != OpTrueSpk()) continue;
            if (c.coinbase && h - c.height < 100) continue;
            v.push_back({op, c});
        }
        std::sort(v.begin(), v.end(), [](auto& a, auto& b) { return a.second.height != b.second.height ? a.second.height < b.second.height : a.first < b.first; });
        return v;
    }
    // skip: leave the `skip` oldest spendable coins alone (the side branch spends coins the main branch does not,
    // so a reorg RESTORES coins and a roll-back over partially written batches meets coins that already exist)
    uint256 Deliver(const uint256& parent, int ntx, int nonce, int pad = 0, int skip = 0)
    {
        const CBlockIndex* pi = n.index_of(parent);
        auto coins = Coins(parent);
        std::vector<CTransactionRef> txs;
        for (int i = skip; i < ntx + skip && i < (int)coins.size(); i++) {
            CAmount v = coins[i].second.value;
            txs.push_back(SpendTx({coins[i].first}, {v / 3, v / 3, v - 2 * (v / 3) - 1000}));
        }
        BlockOpts o;
        o.extra_nonce = nonce;
        o.fees = 1000 * (CAmount)txs.size();
        if (pad) o.extra_coinbase_outputs.push_back({0, CScript() << OP_RETURN << std::vector<unsigned char>(pad, 0x42)}); // bigger blocks: block files roll over
        CBlock b = MakeBlock(n, pi, txs, o);
        L.Add(b);
        blocks.push_back(b);
        vxc_mark(("DELIVER " + b.GetHash().ToString()).c_str());
        BlockResult r = n.ProcessBlock(b);
        (void)r;
        vxc_mark(("DELIVERED " + b.GetHash().ToString() + " tip " + n.tip()->GetBlockHash().ToString()).c_str());
        return b.GetHash();
    }
    void Flush()
    {
        n.Flush();
        vxc_mark(("FLUSHED " + n.tip()->GetBlockHash().ToString()).c_str());
    }
#undef n
};

static int RunRecorder(const std::string& datadir, const std::string& logfile, const std::string& blocksfile, bool big)
{
    vxc_start(datadir.c_str());
    {
        auto node = std::make_unique<Node>(DiskOpts(datadir));
        std::string err = node->Load(true);
        if (!err.empty()) { fprintf(stderr, "recorder: %s\n", err.c_str()); return 2; }
        SetMockTime(Params().GenesisBlock().nTime + 600 * 100000);
        Workload w(*node);
        // set-up phase: base chain, flushed. Thorough: 330 padded blocks (~20 per 64 KiB block file) so that a
        // manual prune has whole files to delete.
        uint256 tip = node->tip()->GetBlockHash();
        const int base = big ? 330 : 104;
        for (int i = 0; i < base; i++) tip = w.Deliver(tip, 0, 0, big ? 3000 : 0);
        w.Flush();
        vxc_mark("SETUP-DONE");
        // crash-enumerated phase
        tip = w.Deliver(tip, 2, 0);                 // spends the two oldest coinbases
        uint256 fork = tip;
        tip = w.Deliver(tip, 2, 0);
        w.Flush();                                  // multi-batch coins flush
        tip = w.Deliver(tip, 1, 0);
        uint256 side = w.Deliver(fork, 1, 7, 0, 4); // side branch (no reorg yet); spends other coins than the main branch
        side = w.Deliver(side, 2, 7, 0, 4);         // equal work
        side = w.Deliver(side, 0, 7);               // -> reorg of depth 2
        w.Flush();
        if (big) {
            tip = side;
            tip = w.Deliver(tip, 3, 0);
            tip = w.Deliver(tip, 2, 0);
            node->Invalidate(tip);                  // disconnect one block
            vxc_mark(("DELIVERED invalidate tip " + node->tip()->GetBlockHash().ToString()).c_str());
            w.Flush();
            node->Reconsider(tip);
            vxc_mark(("DELIVERED reconsider tip " + node->tip()->GetBlockHash().ToString()).c_str());
            tip = w.Deliver(tip, 2, 0);
            // restart in the middle (clean stop without a final flush of the last block), so that crash states of a
            // node that itself started from a recovered directory are covered
            vxc_mark("RESTART-BEGIN");
            node.reset();
            node = std::make_unique<Node>(DiskOpts(datadir));
            err = node->Load(true);
            if (!err.empty()) { fprintf(stderr, "recorder restart: %s\n", err.c_str()); return 2; }
            SetMockTime(Params().GenesisBlock().nTime + 600 * 100000);
            w.np = node.get();
            vxc_mark("RESTART-END");
            tip = node->tip()->GetBlockHash();
            tip = w.Deliver(tip, 1, 0);
            // manual prune: deletes the first block/undo files (heights well below tip - 288)
            {
                LOCK(cs_main);
            }
            PruneBlockFilesManual(node->cs(), 40);
            vxc_mark(("FLUSHED " + node->tip()->GetBlockHash().ToString()).c_str()); // the prune pass ends with a full flush
            tip = w.Deliver(tip, 2, 0);
            w.Flush();
        }
        vxc_mark("WORKLOAD-DONE");
        // dump the blocks for the reference ledger of the judge
        DataStream ss;
        ss << TX_WITH_WITNESS(w.blocks);
        FILE* f = fopen(blocksfile.c_str(), "wb");
        fwrite(ss.data(), 1, ss.size(), f);
        fclose(f);
    }
    vxc_stop();
    return vxc_dump(logfile.c_str()) == 0 ? 0 : 2;
}

// ------------------------------------------------------------------------------------------- recovery (fresh child per state)
struct Recovered {
    bool ok{false};
    std::string err;
    uint256 tip_loaded, tip_activated;
    int h_loaded{-1}, h_activated{-1};
    std::string utxo_diff;   // "" if equal to the reference at tip_loaded
    bool tip_known{false};
};

static void RunRecovery(const std::string& dir, RefLedger& L, int out_fd)
{
    // child: real start-up on the crash state. All children are forks of the same process image, so the "random"
    // temp-dir name BasicTestingSetup draws is the same in each of them: give every child its own TMPDIR, and never
    // run the fixture's destructor (it removes that directory) - the child _exit()s, the parent cleans up.
    setenv("TMPDIR", (dir + ".tmp").c_str(), 1);
    sfs::create_directories(dir + ".tmp");
    std::string res;
    try {
        Node* node = new Node(DiskOpts(dir)); // intentionally leaked
        std::string err = node->Load(false);
        if (!err.empty()) res = "ERR\t" + err;
        else {
            uint256 t1 = node->tip() ? node->tip()->GetBlockHash() : uint256{};
            int h1 = node->tip() ? node->height() : -1;
            std::string diff;
            bool known = L.Known(t1);
            if (known) {
                auto ref = L.UtxoAt(t1);
                diff = ref ? CompareUtxoCursor(*node, *ref) : "reference says the recovered tip's chain is invalid";
            }
            std::string err2 = node->Activate();
            if (!err2.empty()) res = "ERR\t" + err2;
            else {
                uint256 t2 = node->tip()->GetBlockHash();
                res = "OK\t" + t1.ToString() + "\t" + std::to_string(h1) + "\t" + t2.ToString() + "\t" + std::to_string(node->height()) + "\t" + (known ? "1" : "0") + "\t" + diff;
            }
        }
    } catch (const std::exception& e) {
        res = std::string("ERR\texception: ") + e.what();
    }
    res += "\n";
    (void)!write(out_fd, res.data(), res.size());
}

int main(int argc, char** argv)
{
    vx::init(argc, argv, "C16", "fault_enumeration", 170, 1500);
    auto& E = vx::ev();
    bool big = vx::thorough();
    g_prune = big;
    g_scratch = vx::scratch_dir() + "/C16_" + std::to_string(getpid());
    sfs::remove_all(g_scratch);
    sfs::create_directories(g_scratch);
    std::string datadir = g_scratch + "/rec", logfile = g_scratch + "/oplog.bin", blocksfile = g_scratch + "/blocks.bin";
    // (1) record
    fflush(stdout);
    pid_t p = fork();
    if (p == 0) _exit(RunRecorder(datadir, logfile, blocksfile, big));
    int st = 0;
    waitpid(p, &st, 0);
    if (!WIFEXITED(st) || WEXITSTATUS(st) != 0) { printf("HARNESS-ERROR property=C16 recorder failed (status %d)\n", st); sfs::remove_all(g_scratch); return 2; }
    vxc::Log log;
    if (!log.load(logfile, datadir)) { printf("HARNESS-ERROR property=C16 cannot load op log\n"); return 2; }
    // recorder self-check: the tree materialised from the complete log must equal the real directory
    {
        vxc::State all; all.j = log.ops.size(); all.k = log.ops.size();
        vxc::Tree t = vxc::Materialise(log, all);
        size_t mism = 0, nfiles = 0;
        for (auto& e : sfs::recursive_directory_iterator(datadir)) {
            if (!e.is_regular_file()) continue;
            std::string rel = e.path().string().substr(datadir.size() + 1);
            if (rel.find("LOCK") != std::string::npos || rel.find(".lock") != std::string::npos) continue;
            nfiles++;
            std::ifstream f(e.path(), std::ios::binary);
            std::string content((std::istreambuf_iterator<char>(f)), std::istreambuf_iterator<char>());
            auto it = t.files.find(rel);
            if (it == t.files.end() || it->second != content) { mism++; if (mism < 4) printf("recorder mismatch: %s (log has %zu bytes, disk %zu)\n", rel.c_str(), it == t.files.end() ? 0 : it->second.size(), content.size()); }
        }
        if (mism) { printf("HARNESS-ERROR property=C16 recorder incomplete: %zu of %zu files differ between the op log and the real directory\n", mism, nfiles); sfs::remove_all(g_scratch); return 2; }
        E.set("recorder_files_verified", (uint64_t)nfiles);
    }
    // reference ledger from the dumped blocks (the judge process never ran a node)
    SelectParams(ChainType::REGTEST);
    RefLedger L;
    L.AddGenesis(Params().GenesisBlock());
    {
        std::ifstream f(blocksfile, std::ios::binary);
        std::string content((std::istreambuf_iterator<char>(f)), std::istreambuf_iterator<char>());
        DataStream ss{MakeByteSpan(content)};
        std::vector<CBlock> blocks;
        ss >> TX_WITH_WITNESS(blocks);
        for (auto& b : blocks) L.Add(b);
    }
    size_t from = 0;
    for (size_t i = 0; i < log.ops.size(); i++) if (log.ops[i].kind == vxc::MARK && log.ops[i].path == "SETUP-DONE") from = i + 1;
    // (2) enumerate
    std::vector<vxc::State> states = vxc::Enumerate(log, from, /*kill=*/true, /*powerloss=*/true, /*torn=*/true);
    E.set("ops_logged", (uint64_t)log.ops.size());
    E.set("ops_after_setup", (uint64_t)(log.ops.size() - from));
    E.set("writes", (uint64_t)log.count(vxc::WRITE));
    E.set("syncs", (uint64_t)log.count(vxc::FSYNC));
    E.set("renames", (uint64_t)log.count(vxc::RENAME));
    E.set("unlinks", (uint64_t)log.count(vxc::UNLINK));
    {
        size_t blk_unlinks = 0;
        for (auto& o : log.ops) if (o.kind == vxc::UNLINK && o.path.find("/blk") != std::string::npos) blk_unlinks++;
        E.set("block_files_pruned", (uint64_t)blk_unlinks);
        if (big && blk_unlinks == 0) { printf("HARNESS-ERROR property=C16 the thorough workload was meant to prune block files but none was unlinked\n"); sfs::remove_all(g_scratch); return 2; }
    }
    E.set("crash_states_enumerated", (uint64_t)states.size());
    // dedupe by content
    std::map<uint64_t, size_t> by_content;
    std::vector<vxc::Tree> trees;
    std::vector<size_t> chosen;
    for (size_t i = 0; i < states.size(); i++) {
        vxc::Tree t = vxc::Materialise(log, states[i]);
        uint64_t h = t.hash();
        auto it = by_content.find(h);
        if (it == by_content.end()) { by_content[h] = chosen.size(); chosen.push_back(i); trees.push_back(std::move(t)); }
        else if (states[chosen[it->second]].k < states[i].k) chosen[it->second] = i; // same bytes on disk, later crash point: stronger oracle
    }
    E.set("distinct_disk_states", (uint64_t)chosen.size());
    // (3) recover + judge, 16 at a time
    struct Job { pid_t pid; int fd; size_t idx; std::string dir; };
    std::vector<Job> running;
    size_t next = 0, done = 0;
    vx::Distinct outcomes;
    uint64_t n_kill = 0, n_power = 0;
    auto judge = [&](const Job& j, const std::string& line, bool died, int status) {
        const vxc::State& s = states[chosen[j.idx]];
        std::string where = s.describe();
        (s.mode == "kill" ? n_kill : n_power)++;
        if (died) { vx::violation("C16-recovery-process-died:" + s.mode, "start-up on crash state {" + where + "} died (status " + std::to_string(status) + "): abort/assert during recovery", where); return; }
        std::vector<std::string> f;
        size_t pos = 0;
        while (true) { size_t t = line.find('\t', pos); f.push_back(line.substr(pos, t == std::string::npos ? std::string::npos : t - pos)); if (t == std::string::npos) break; pos = t + 1; }
        if (f[0] != "OK") { vx::violation("C16-start-failed:" + s.mode, "start-up on crash state {" + where + "} failed: " + (f.size() > 1 ? f[1] : ""), where); return; }
        uint256 t1 = *uint256::FromHex(f[1]), t2 = *uint256::FromHex(f[3]);
        int h2 = atoi(f[4].c_str());
        bool known = f[5] == "1";
        std::string diff = f.size() > 6 ? f[6] : "";
        outcomes.add(f[1] + f[3]);
        // marks acknowledged before the crash point
        std::set<uint256> started;
        started.insert(Params().GenesisBlock().GetHash());
        int last_flushed_h = -1;
        for (auto& m : log.marks_before(s.k)) {
            if (m.rfind("DELIVER ", 0) == 0) started.insert(*uint256::FromHex(m.substr(8)));
            if (m.rfind("FLUSHED ", 0) == 0) { uint256 h = *uint256::FromHex(m.substr(8)); if (L.Known(h)) last_flushed_h = L.Height(h); }
        }
        if (!known) { vx::violation("C16-recovered-tip-unknown:" + s.mode, "recovered tip " + f[1].substr(0, 12) + " is not a block of the workload {" + where + "}", where); return; }
        if (!started.count(t1)) vx::violation("C16-recovered-tip-not-yet-connected:" + s.mode, "recovered tip " + f[1].substr(0, 12) + " (height " + f[2] + ") had not been delivered before the crash point {" + where + "}", where);
        if (!diff.empty()) vx::violation("C16-recovered-utxo-mismatch:" + s.mode, "UTXO set after recovery differs from the reference at the recovered tip (height " + f[2] + "): " + diff + " {" + where + "}", where);
        if (h2 < last_flushed_h) vx::violation("C16-lost-flushed-work:" + s.mode, "after resuming, tip height " + std::to_string(h2) + " < height " + std::to_string(last_flushed_h) + " of the last completed full flush {" + where + "}", where);
        (void)t2;
    };
    bool stopped_early = false;
    while (next < chosen.size() || !running.empty()) {
        while (next < chosen.size() && running.size() < vx::ncpu()) {
            if (vx::deadline_reached()) { stopped_early = true; next = chosen.size(); break; }
            std::string dir = g_scratch + "/s" + std::to_string(next);
            trees[next].write_to(dir);
            trees[next] = vxc::Tree(); // free memory
            int fds[2];
            if (pipe(fds)) return 2;
            fflush(stdout);
            pid_t c = fork();
            if (c == 0) {
                close(fds[0]);
                RunRecovery(dir, L, fds[1]);
                _exit(0);
            }
            close(fds[1]);
            running.push_back({c, fds[0], next, dir});
            next++;
        }
        if (running.empty()) break;
        int status = 0;
        pid_t w = wait(&status);
        for (size_t i = 0; i < running.size(); i++) {
            if (running[i].pid != w) continue;
            std::string line;
            char buf[4096];
            ssize_t r;
            while ((r = read(running[i].fd, buf, sizeof buf)) > 0) line.append(buf, r);
            close(running[i].fd);
            while (!line.empty() && (line.back() == '\n')) line.pop_back();
            bool died = !WIFEXITED(status) || WEXITSTATUS(status) != 0 || line.empty();
            judge(running[i], line, died, status);
            if (done < 4) E.sample("crash state {" + states[chosen[running[i].idx]].describe() + "} -> " + line.substr(0, 160));
            sfs::remove_all(running[i].dir);
            sfs::remove_all(running[i].dir + ".tmp");
            running.erase(running.begin() + i);
            done++;
            break;
        }
    }
    E.evaluations += done;
    E.distinct_nontrivial += outcomes.size();
    E.set("recoveries_kill", n_kill);
    E.set("recoveries_powerloss", n_power);
    E.exhaustive = !stopped_early;
    E.rule = "crash states = every prefix of the op log after set-up (process kill; + torn variants of a trailing write: 1, n/2, n-1 bytes) and every (cut j, crash point k) state where ops[0..j) plus the ops of [j,k) made durable by a sync before k survive (power loss, ordered suffix loss); deduplicated by the bytes of the materialised tree; each recovered by the real LoadChainstate + VerifyLoadedChainstate + ActivateBestChain in a fresh process. distinct_nontrivial = distinct (recovered tip, resumed tip) outcomes";
    E.assume("durability model: a write is durable once its file was fsync'ed afterwards; create/rename once the file or its directory was synced; no reordering inside the ordered op log beyond suffix loss");
    E.assume("workload: 104-block base + blocks with transactions, forced flushes with 120-byte coins-DB batches, a depth-2 reorg" + std::string(big ? ", invalidate/reconsider, a restart in the middle, a manual prune deleting block files, further blocks (330-block padded base, prune mode)" : ""));
    sfs::remove_all(g_scratch);
    if (outcomes.size() < 2 && done > 10) { printf("HARNESS-ERROR property=C16 vacuous: all recoveries produced the same outcome\n"); }
    return vx::finish();
}
