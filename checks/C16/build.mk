LINK := full
KITS := chainkit
CRASH := 1
