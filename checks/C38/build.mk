LINK := full
