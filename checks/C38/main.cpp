// C38 — Compact block reconstruction yields the announced block or fails.
// VX-ENUM on CBlockHeaderAndShortTxIDs (built from BIP152 wire bytes we encode ourselves) + PartiallyDownloadedBlock
// with a real CTxMemPool.  Oracle: FillBlock == READ_STATUS_OK  =>  the reconstructed transaction list (wtxids, in
// order), header and merkle root are exactly those of the announced block; honest inputs => OK.
#include <vx/vx.h>

#include <blockencodings.h>
#include <consensus/merkle.h>
#include <crypto/sha256.h>
#include <primitives/block.h>
#include <primitives/transaction.h>
#include <streams.h>
#include <test/util/setup_common.h>
#include <test/util/txmempool.h>
#include <txmempool.h>
#include <util/chaintype.h>
#include <validation.h>

using Bytes = std::vector<unsigned char>;
static std::string S(uint64_t v) { return std::to_string(v); }

// ------------------------------------------------------------------------------------------------ references
static inline uint64_t rotl64(uint64_t x, int b) { return (x << b) | (x >> (64 - b)); }
static uint64_t ref_siphash(uint64_t k0, uint64_t k1, const unsigned char* m, size_t n)
{
    uint64_t v0 = 0x736f6d6570736575ULL ^ k0, v1 = 0x646f72616e646f6dULL ^ k1, v2 = 0x6c7967656e657261ULL ^ k0, v3 = 0x7465646279746573ULL ^ k1;
    auto round = [&] {
        v0 += v1; v1 = rotl64(v1, 13); v1 ^= v0; v0 = rotl64(v0, 32);
        v2 += v3; v3 = rotl64(v3, 16); v3 ^= v2;
        v0 += v3; v3 = rotl64(v3, 21); v3 ^= v0;
        v2 += v1; v1 = rotl64(v1, 17); v1 ^= v2; v2 = rotl64(v2, 32);
    };
    size_t i = 0;
    for (; i + 8 <= n; i += 8) {
        uint64_t w = 0;
        for (int j = 0; j < 8; j++) w |= (uint64_t)m[i + j] << (8 * j);
        v3 ^= w; round(); round(); v0 ^= w;
    }
    uint64_t b = (uint64_t)(n & 0xff) << 56;
    for (int j = 0; i + j < n; j++) b |= (uint64_t)m[i + j] << (8 * j);
    v3 ^= b; round(); round(); v0 ^= b;
    v2 ^= 0xff; round(); round(); round(); round();
    return v0 ^ v1 ^ v2 ^ v3;
}
static uint256 sha256d(const unsigned char* p, size_t n)
{
    uint256 a, b;
    CSHA256().Write(p, n).Finalize(a.begin());
    CSHA256().Write(a.begin(), 32).Finalize(b.begin());
    return b;
}
static uint256 ref_merkle(std::vector<uint256> v)
{
    if (v.empty()) return uint256();
    while (v.size() > 1) {
        if (v.size() & 1) v.push_back(v.back());
        std::vector<uint256> n;
        for (size_t i = 0; i < v.size(); i += 2) {
            unsigned char buf[64];
            memcpy(buf, v[i].begin(), 32);
            memcpy(buf + 32, v[i + 1].begin(), 32);
            n.push_back(sha256d(buf, 64));
        }
        v.swap(n);
    }
    return v[0];
}
static void put_cs(Bytes& o, uint64_t v)
{
    if (v < 253) o.push_back((unsigned char)v);
    else if (v <= 0xffff) { o.push_back(253); o.push_back(v & 255); o.push_back(v >> 8); }
    else { o.push_back(254); for (int i = 0; i < 4; i++) o.push_back(v >> (8 * i) & 255); }
}
template <typename T>
static Bytes ser_w(const T& t) { DataStream s; s << TX_WITH_WITNESS(t); return Bytes(UCharCast(s.data()), UCharCast(s.data()) + s.size()); }
template <typename T>
static Bytes ser_plain(const T& t) { DataStream s; s << t; return Bytes(UCharCast(s.data()), UCharCast(s.data()) + s.size()); }

// BIP152 short id
struct SidKey { uint64_t k0, k1; };
static SidKey sid_key(const CBlockHeader& h, uint64_t nonce)
{
    Bytes b = ser_plain(h);
    for (int i = 0; i < 8; i++) b.push_back(nonce >> (8 * i) & 255);
    unsigned char d[32];
    CSHA256().Write(b.data(), b.size()).Finalize(d);
    SidKey k{0, 0};
    for (int i = 0; i < 8; i++) { k.k0 |= (uint64_t)d[i] << (8 * i); k.k1 |= (uint64_t)d[8 + i] << (8 * i); }
    return k;
}
static uint64_t ref_sid(const SidKey& k, const uint256& wtxid) { return ref_siphash(k.k0, k.k1, wtxid.begin(), 32) & 0xffffffffffffULL; }

// BIP152 cmpctblock wire encoding. slots: for every block position either prefilled (tx) or a short id.
struct Slot { bool prefilled; CTransactionRef tx; uint64_t sid; };
static Bytes encode_cmpct(const CBlockHeader& h, uint64_t nonce, const std::vector<Slot>& slots)
{
    Bytes o = ser_plain(h);
    for (int i = 0; i < 8; i++) o.push_back(nonce >> (8 * i) & 255);
    size_t nshort = 0, npre = 0;
    for (auto& s : slots) (s.prefilled ? npre : nshort)++;
    put_cs(o, nshort);
    for (auto& s : slots) if (!s.prefilled) for (int i = 0; i < 6; i++) o.push_back(s.sid >> (8 * i) & 255);
    put_cs(o, npre);
    int64_t last = -1;
    for (size_t i = 0; i < slots.size(); i++) if (slots[i].prefilled) {
        put_cs(o, (uint64_t)((int64_t)i - last - 1));
        last = (int64_t)i;
        Bytes t = ser_w(*slots[i].tx);
        o.insert(o.end(), t.begin(), t.end());
    }
    return o;
}

// ------------------------------------------------------------------------------------------------ transactions / blocks
static CTransactionRef make_tx(int id, bool segwit, int witness_variant /*0 = original, 1 = twin (other witness), 2 = stripped*/)
{
    CMutableTransaction tx;
    tx.version = 2;
    tx.vin.resize(1);
    tx.vin[0].prevout = COutPoint(Txid::FromUint256(uint256{(uint8_t)(id + 1)}), 0);
    tx.vin[0].scriptSig = segwit ? CScript() : (CScript() << std::vector<unsigned char>(10, (unsigned char)id));
    tx.vout.resize(1);
    tx.vout[0].nValue = 1000 + id;
    tx.vout[0].scriptPubKey = CScript() << OP_TRUE;
    tx.nLockTime = id;
    if (segwit && witness_variant != 2) {
        tx.vin[0].scriptWitness.stack.push_back(std::vector<unsigned char>(8, (unsigned char)(0x50 + id)));
        tx.vin[0].scriptWitness.stack.push_back(witness_variant == 1 ? std::vector<unsigned char>{0x01, 0x02} : std::vector<unsigned char>{0x01});
    }
    return MakeTransactionRef(tx);
}

struct Case {
    std::vector<CTransactionRef> vtx;      // announced block
    std::vector<bool> segwit;              // per tx (index 0 = coinbase)
    CBlock block;
    bool has_segwit = false;
};
static Case make_block(int n, unsigned typemask, uint32_t salt)
{
    Case c;
    c.segwit.assign(n, false);
    std::vector<CTransactionRef> rest;
    for (int i = 1; i < n; i++) {
        bool sw = typemask >> (i - 1) & 1;
        c.segwit[i] = sw;
        if (sw) c.has_segwit = true;
        rest.push_back(make_tx(i, sw, 0));
    }
    CMutableTransaction cb;
    cb.version = 1;
    cb.vin.resize(1);
    cb.vin[0].prevout.SetNull();
    cb.vin[0].scriptSig = CScript() << (int64_t)(100 + n) << OP_0;
    cb.vout.resize(1);
    cb.vout[0].nValue = 50 * COIN;
    cb.vout[0].scriptPubKey = CScript() << OP_TRUE;
    if (c.has_segwit) {
        // BIP141 commitment: sha256d(witness merkle root || reserved value), coinbase wtxid counted as 0
        std::vector<uint256> w{uint256()};
        for (auto& t : rest) w.push_back(t->GetWitnessHash().ToUint256());
        uint256 root = ref_merkle(w);
        unsigned char buf[64];
        memcpy(buf, root.begin(), 32);
        memset(buf + 32, 0, 32);
        uint256 commit = sha256d(buf, 64);
        Bytes spk{0x6a, 0x24, 0xaa, 0x21, 0xa9, 0xed};
        spk.insert(spk.end(), commit.begin(), commit.end());
        cb.vout.emplace_back(0, CScript(spk.begin(), spk.end()));
        cb.vin[0].scriptWitness.stack.push_back(std::vector<unsigned char>(32, 0));
        c.segwit[0] = true;
    }
    c.vtx.push_back(MakeTransactionRef(cb));
    for (auto& t : rest) c.vtx.push_back(t);
    c.block.nVersion = 0x20000000;
    c.block.hashPrevBlock = uint256{(uint8_t)(n * 16 + typemask)};
    c.block.nTime = 1700000000 + salt;
    c.block.nBits = 0x207fffff;
    c.block.nNonce = salt;
    c.block.vtx = c.vtx;
    std::vector<uint256> ids;
    for (auto& t : c.vtx) ids.push_back(t->GetHash().ToUint256());
    c.block.hashMerkleRoot = ref_merkle(ids);
    return c;
}

// ------------------------------------------------------------------------------------------------ harness state
static CTxMemPool* g_pool = nullptr;
static std::vector<CTransactionRef> g_in_pool;
static void pool_set(const std::vector<CTransactionRef>& want)
{
    {
        LOCK2(cs_main, g_pool->cs);
        for (auto& t : g_in_pool) g_pool->removeRecursive(*t, MemPoolRemovalReason::REPLACED);
    }
    g_in_pool.clear();
    TestMemPoolEntryHelper entry;
    for (auto& t : want) {
        TryAddToMempool(*g_pool, entry.Fee(10000).FromTx(t));
        g_in_pool.push_back(t);
    }
    LOCK(g_pool->cs);
    if (g_pool->size() != want.size()) { printf("HARNESS-ERROR mempool holds %zu transactions, wanted %zu\n", g_pool->size(), want.size()); exit(2); }
}

static vx::Distinct g_distinct;
static uint64_t g_eval = 0, g_ok = 0, g_failed = 0, g_invalid = 0, g_honest_ok = 0, g_init_failed = 0, g_init_invalid = 0, g_twin_rejected = 0, g_perm_rejected = 0, g_from_pool = 0, g_from_extra = 0, g_dup_tail_rejected = 0;

static std::string describe(const Case& c, const std::string& what)
{
    std::string s = what + "\nblock txs=" + S(c.vtx.size()) + " segwit=";
    for (bool b : c.segwit) s += b ? "1" : "0";
    return s;
}

// Runs FillBlock on a copy of `pdb` with `answer`; checks the safety oracle. Returns status.
static ReadStatus fill_and_check(const Case& c, const PartiallyDownloadedBlock& pdb, const std::vector<CTransactionRef>& answer, bool segwit_active, bool honest, const std::string& ctx)
{
    PartiallyDownloadedBlock tmp = pdb;
    CBlock out;
    ReadStatus st = tmp.FillBlock(out, answer, segwit_active);
    g_eval++;
    (st == READ_STATUS_OK ? g_ok : st == READ_STATUS_FAILED ? g_failed : g_invalid)++;
    if (st == READ_STATUS_OK) {
        bool same = out.vtx.size() == c.vtx.size() && out.GetHash() == c.block.GetHash() && out.hashMerkleRoot == c.block.hashMerkleRoot;
        for (size_t i = 0; same && i < c.vtx.size(); i++)
            if (!out.vtx[i] || out.vtx[i]->GetWitnessHash() != c.vtx[i]->GetWitnessHash() || out.vtx[i]->GetHash() != c.vtx[i]->GetHash()) same = false;
        if (!same) {
            std::string got;
            for (auto& t : out.vtx) got += (t ? t->GetWitnessHash().ToString().substr(0, 8) : std::string("null")) + " ";
            vx::violation("cmpct-accepted-different-block", "FillBlock returned READ_STATUS_OK but the reconstructed transaction list differs from the announced block: " + ctx + " got wtxids " + got, describe(c, ctx));
        } else {
            // the accepted block must also pass the node's own mutation check (as net_processing relies on)
            if (IsBlockMutated(out, /*check_witness_root=*/true) && c.has_segwit)
                vx::violation("cmpct-accepted-mutated", "FillBlock returned OK for a block IsBlockMutated() flags: " + ctx, describe(c, ctx));
        }
    } else if (honest) {
        vx::violation("cmpct-honest-rejected", "honest reconstruction (correct compact block, correct missing transactions) failed with status " + S(st) + ": " + ctx, describe(c, ctx));
    }
    if (honest && st == READ_STATUS_OK) g_honest_ok++;
    return st;
}

static void run_block(const Case& c, bool big)
{
    const int n = (int)c.vtx.size();
    const uint64_t nonce = 0x1122334455667788ULL ^ (uint64_t)n;
    const SidKey key = sid_key(c.block, nonce);
    // BIP152 conformance of the real constructor (coinbase prefilled, rest short ids)
    {
        CBlockHeaderAndShortTxIDs real{c.block, nonce};
        std::vector<Slot> slots;
        for (int i = 0; i < n; i++) slots.push_back({i == 0, c.vtx[i], ref_sid(key, c.vtx[i]->GetWitnessHash().ToUint256())});
        Bytes want = encode_cmpct(c.block, nonce, slots);
        DataStream s;
        s << real;
        Bytes got(UCharCast(s.data()), UCharCast(s.data()) + s.size());
        g_eval++;
        if (got != want) vx::violation("cmpct-encoding", "CBlockHeaderAndShortTxIDs(block, nonce) serialisation differs from the BIP152 reference encoding (short ids / prefilled index)", describe(c, "constructor encoding"));
    }
    CTransactionRef decoy = make_tx(40, false, 0);
    CTransactionRef decoy2 = make_tx(41, true, 0);
    std::vector<CTransactionRef> twin(n), stripped(n);
    for (int i = 1; i < n; i++) if (c.segwit[i]) { twin[i] = make_tx(i, true, 1); stripped[i] = make_tx(i, true, 2); }

    for (unsigned pre = 0; pre < (1u << n); pre++) {
        // honest encodings: every prefilled subset (with and without the coinbase prefilled)
        std::vector<Slot> slots;
        for (int i = 0; i < n; i++) slots.push_back({(bool)(pre >> i & 1), c.vtx[i], ref_sid(key, c.vtx[i]->GetWitnessHash().ToUint256())});
        Bytes wire = encode_cmpct(c.block, nonce, slots);
        CBlockHeaderAndShortTxIDs cmpct;
        try {
            DataStream s{wire};
            s >> cmpct;
            if (!s.empty()) throw std::ios_base::failure("trailing bytes");
        } catch (const std::exception& e) {
            vx::violation("cmpct-decode", std::string("well-formed BIP152 cmpctblock does not deserialise: ") + e.what() + " prefilled=" + S(pre), describe(c, "decode prefilled=" + S(pre)));
            continue;
        }
        // mempool variants: per non-coinbase tx: 0 absent, 1 present, 2 twin present (segwit only); decoy present or not
        std::vector<int> st(n, 0);
        while (true) {
            for (int with_decoy = 0; with_decoy < 2; with_decoy++) {
                std::vector<CTransactionRef> pool;
                for (int i = 1; i < n; i++) { if (st[i] == 1) pool.push_back(c.vtx[i]); else if (st[i] == 2) pool.push_back(twin[i]); }
                if (with_decoy) { pool.push_back(decoy); pool.push_back(decoy2); }
                pool_set(pool);
                for (int ev = 0; ev < 4; ev++) {
                    // extra pool: 0 empty, 1 the block txs not in the mempool, 2 twins + stripped + decoy, 3 both (twins first)
                    std::vector<std::pair<Wtxid, CTransactionRef>> extra;
                    auto add = [&](const CTransactionRef& t) { extra.emplace_back(t->GetWitnessHash(), t); };
                    if (ev == 2 || ev == 3) { for (int i = 1; i < n; i++) if (twin[i]) { add(twin[i]); add(stripped[i]); } add(decoy); }
                    if (ev == 1 || ev == 3) for (int i = 1; i < n; i++) if (st[i] != 1) add(c.vtx[i]);
                    std::string ctx = "prefilled=" + S(pre) + " pool=";
                    for (int i = 1; i < n; i++) ctx += S(st[i]);
                    ctx += std::string(with_decoy ? "+decoys" : "") + " extra=" + S(ev);
                    PartiallyDownloadedBlock pdb(g_pool);
                    ReadStatus is = pdb.InitData(cmpct, extra);
                    g_eval++;
                    if (is != READ_STATUS_OK) {
                        (is == READ_STATUS_FAILED ? g_init_failed : g_init_invalid)++;
                        vx::violation("cmpct-honest-init", "InitData rejects a well-formed compact block (status " + S(is) + "): " + ctx, describe(c, ctx));
                        continue;
                    }
                    std::vector<int> missing;
                    for (int i = 0; i < n; i++) {
                        bool av = pdb.IsTxAvailable(i);
                        if (!av) missing.push_back(i);
                        else if (!(pre >> i & 1)) { if (st[i] == 1) g_from_pool++; else g_from_extra++; }
                        // a prefilled transaction is always available
                        if ((pre >> i & 1) && !av) vx::violation("cmpct-prefilled-unavailable", "prefilled transaction reported unavailable: " + ctx, describe(c, ctx));
                    }
                    g_distinct.add("c" + S(n) + "/" + S(c.block.nNonce) + "/" + ctx);
                    std::vector<CTransactionRef> good;
                    for (int i : missing) good.push_back(c.vtx[i]);
                    for (int sw = 1; sw >= 0; sw--) {
                        const bool segwit_active = sw;
                        const bool can_succeed = segwit_active || !c.has_segwit;
                        std::string cx = ctx + " segwit_active=" + S(sw);
                        fill_and_check(c, pdb, good, segwit_active, /*honest=*/can_succeed, cx + " answer=exact");
                        if (!good.empty()) {
                            auto a = good; a.pop_back();
                            fill_and_check(c, pdb, a, segwit_active, false, cx + " answer=one-too-few");
                        }
                        { auto a = good; a.push_back(decoy); fill_and_check(c, pdb, a, segwit_active, false, cx + " answer=one-too-many"); }
                        if (good.size() >= 2) {
                            std::vector<int> p(good.size());
                            for (size_t i = 0; i < p.size(); i++) p[i] = (int)i;
                            while (std::next_permutation(p.begin(), p.end())) {
                                std::vector<CTransactionRef> a;
                                for (int i : p) a.push_back(good[i]);
                                if (fill_and_check(c, pdb, a, segwit_active, false, cx + " answer=permuted") != READ_STATUS_OK) g_perm_rejected++;
                            }
                        }
                        for (size_t k = 0; k < good.size(); k++) {
                            int bi = missing[k];
                            std::vector<CTransactionRef> subs = {decoy, decoy2, c.vtx[(bi + 1) % n]};
                            if (twin[bi]) { subs.push_back(twin[bi]); subs.push_back(stripped[bi]); }
                            for (size_t si = 0; si < subs.size(); si++) {
                                if (subs[si]->GetWitnessHash() == good[k]->GetWitnessHash()) continue;
                                auto a = good;
                                a[k] = subs[si];
                                ReadStatus r = fill_and_check(c, pdb, a, segwit_active, false, cx + " answer=substituted pos " + S(k) + " kind " + S(si));
                                if (si >= 3 && r != READ_STATUS_OK) g_twin_rejected++;
                            }
                        }
                        if (!big && sw == 1 && !c.has_segwit) break; // quick: legacy-only blocks are checked with segwit active only
                    }
                }
            }
            // next mempool state vector
            int i = 1;
            for (; i < n; i++) { st[i]++; if (st[i] <= (c.segwit[i] ? 2 : 1)) break; st[i] = 0; }
            if (i >= n) break;
        }
    }
    // ---- malicious encodings for the same header
    pool_set({});
    auto try_wire = [&](const std::vector<Slot>& slots, const std::vector<std::vector<CTransactionRef>>& answers, const std::string& what, bool expect_dup) {
        Bytes wire = encode_cmpct(c.block, nonce, slots);
        CBlockHeaderAndShortTxIDs cmpct;
        try { DataStream s{wire}; s >> cmpct; } catch (const std::exception&) { g_eval++; return; }
        PartiallyDownloadedBlock pdb(g_pool);
        ReadStatus is = pdb.InitData(cmpct, {});
        g_eval++;
        if (is != READ_STATUS_OK) { (is == READ_STATUS_FAILED ? g_init_failed : g_init_invalid)++; if (expect_dup) g_dup_tail_rejected++; return; }
        for (auto& a : answers) {
            size_t need = 0;
            for (size_t i = 0; i < slots.size(); i++) if (!pdb.IsTxAvailable(i)) need++;
            if (a.size() != need) continue;
            ReadStatus r = fill_and_check(c, pdb, a, true, false, "malicious encoding: " + what);
            if (expect_dup && r != READ_STATUS_OK) g_dup_tail_rejected++;
        }
    };
    // (a) duplicated tail (CVE-2012-2459): a longer list with the same merkle root
    {
        std::vector<CTransactionRef> cur = c.vtx;
        std::vector<std::vector<CTransactionRef>> groups;
        for (auto& t : cur) groups.push_back({t});
        while (groups.size() > 1) {
            if (groups.size() & 1) groups.push_back(groups.back());
            std::vector<std::vector<CTransactionRef>> nx;
            for (size_t i = 0; i < groups.size(); i += 2) { auto g = groups[i]; g.insert(g.end(), groups[i + 1].begin(), groups[i + 1].end()); nx.push_back(g); }
            groups.swap(nx);
        }
        const auto& full = groups[0];
        for (size_t n2 = n + 1; n2 <= full.size(); n2++) {
            std::vector<uint256> ids;
            for (size_t i = 0; i < n2; i++) ids.push_back(full[i]->GetHash().ToUint256());
            if (ref_merkle(ids) != c.block.hashMerkleRoot) continue;
            // all prefilled; prefilled originals + short ids for the duplicates; all short ids
            for (int mode = 0; mode < 3; mode++) {
                std::vector<Slot> slots;
                std::vector<CTransactionRef> tail;
                for (size_t i = 0; i < n2; i++) {
                    bool pf = mode == 0 || (mode == 1 && (int)i < n) || (mode == 2 && i == 0);
                    slots.push_back({pf, full[i], ref_sid(key, full[i]->GetWitnessHash().ToUint256())});
                    if (!pf) tail.push_back(full[i]);
                }
                try_wire(slots, {tail, {}}, "duplicated tail, " + S(n2) + " slots, mode " + S(mode), true);
            }
        }
    }
    // (b) prefilled index games: same transactions announced at shifted positions / coinbase not first / one tx dropped
    if (n >= 2) {
        std::vector<Slot> rev;
        for (int i = n - 1; i >= 0; i--) rev.push_back({true, c.vtx[i], 0});
        try_wire(rev, {{}}, "all prefilled, reversed order", false);
        std::vector<Slot> drop;
        for (int i = 0; i + 1 < n; i++) drop.push_back({true, c.vtx[i], 0});
        try_wire(drop, {{}}, "all prefilled, last tx dropped", false);
        std::vector<Slot> sw;
        for (int i = 0; i < n; i++) sw.push_back({i != 1, c.vtx[i], ref_sid(key, c.vtx[i]->GetWitnessHash().ToUint256())});
        if (twin[1]) { sw[1] = {true, twin[1], 0}; try_wire(sw, {{}}, "witness twin prefilled at position 1", false); sw[1] = {true, stripped[1], 0}; try_wire(sw, {{}}, "stripped twin prefilled at position 1", false); }
        sw[1] = {true, decoy, 0};
        try_wire(sw, {{}}, "decoy prefilled at position 1", false);
        // (b2) a fully witness-stripped copy of a segwit block (coinbase sent without its witness reserved value,
        // every witness transaction without its witness): same txids, merkle root and header, different wtxids,
        // commitment no longer matches — must never be reconstructed as OK. All prefilled; and coinbase prefilled
        // with the others announced by the short id of the stripped form and answered stripped in blocktxn.
        if (c.has_segwit) {
            std::vector<CTransactionRef> bare(n);
            for (int i = 0; i < n; i++) {
                CMutableTransaction m(*c.vtx[i]);
                for (auto& in : m.vin) in.scriptWitness.SetNull();
                bare[i] = MakeTransactionRef(m);
            }
            std::vector<Slot> allpf;
            for (int i = 0; i < n; i++) allpf.push_back({true, bare[i], 0});
            try_wire(allpf, {{}}, "witness-stripped copy, all prefilled", false);
            std::vector<Slot> sid;
            std::vector<CTransactionRef> ans;
            for (int i = 0; i < n; i++) { sid.push_back({i == 0, bare[i], ref_sid(key, bare[i]->GetWitnessHash().ToUint256())}); if (i) ans.push_back(bare[i]); }
            try_wire(sid, {ans}, "witness-stripped copy, coinbase prefilled bare, rest by stripped short id + stripped blocktxn", false);
            // genuine witness transactions in the mempool do not match the stripped short ids: same outcome required
            std::vector<CTransactionRef> real(c.vtx.begin() + 1, c.vtx.end());
            pool_set(real);
            try_wire(sid, {ans}, "witness-stripped copy with the genuine transactions in the mempool", false);
            pool_set({});
        }
        // short id of a decoy listed; decoy in the mempool
        pool_set({decoy});
        std::vector<Slot> ds;
        for (int i = 0; i < n; i++) ds.push_back({i == 0, c.vtx[i], ref_sid(key, (i == 1 ? decoy : c.vtx[i])->GetWitnessHash().ToUint256())});
        std::vector<CTransactionRef> rest(c.vtx.begin() + 2, c.vtx.end());
        try_wire(ds, {rest}, "short id of a mempool decoy at position 1", false);
        pool_set({});
    }
    // (c) structurally invalid announcements must be rejected by InitData (never reach FillBlock)
    {
        auto raw = [&](const CBlockHeader& h, const std::vector<uint64_t>& sids, const std::vector<std::pair<uint64_t, CTransactionRef>>& pre) {
            Bytes o = ser_plain(h);
            for (int i = 0; i < 8; i++) o.push_back(nonce >> (8 * i) & 255);
            put_cs(o, sids.size());
            for (uint64_t sd : sids) for (int i = 0; i < 6; i++) o.push_back(sd >> (8 * i) & 255);
            put_cs(o, pre.size());
            for (auto& [d, t] : pre) { put_cs(o, d); Bytes b = ser_w(*t); o.insert(o.end(), b.begin(), b.end()); }
            return o;
        };
        auto expect_invalid = [&](const Bytes& wire, const std::string& what) {
            CBlockHeaderAndShortTxIDs cmpct;
            g_eval++;
            try { DataStream s{wire}; s >> cmpct; } catch (const std::exception&) { g_init_invalid++; return; } // rejected at decode
            PartiallyDownloadedBlock pdb(g_pool);
            ReadStatus is = pdb.InitData(cmpct, {});
            if (is == READ_STATUS_OK) {
                // accepted structurally: whatever FillBlock does, it must not produce a different block
                size_t need = 0;
                for (size_t i = 0; i < cmpct.BlockTxCount(); i++) if (!pdb.IsTxAvailable(i)) need++;
                std::vector<CTransactionRef> a(need, decoy);
                fill_and_check(c, pdb, a, true, false, "malformed announcement accepted by InitData: " + what);
                vx::violation("cmpct-malformed-accepted", "InitData accepts a structurally invalid compact block: " + what, describe(c, what));
            } else (is == READ_STATUS_INVALID ? g_init_invalid : g_init_failed)++;
        };
        std::vector<uint64_t> sids;
        for (int i = 1; i < n; i++) sids.push_back(ref_sid(key, c.vtx[i]->GetWitnessHash().ToUint256()));
        // prefilled index one past the end (n txs: valid positions 0..n-1 => differential n is out of range)
        expect_invalid(raw(c.block, sids, {{(uint64_t)n, c.vtx[0]}}), "prefilled index one past the last slot");
        expect_invalid(raw(c.block, sids, {{0, c.vtx[0]}, {(uint64_t)n, decoy}}), "second prefilled index one past the last slot");
        expect_invalid(raw(c.block, sids, {{65535, c.vtx[0]}, {0, decoy}}), "prefilled indexes overflowing 16 bits");
        expect_invalid(raw(CBlockHeader{}, sids, {{0, c.vtx[0]}}), "null header");
        expect_invalid(raw(c.block, {}, {}), "no transactions at all");
        CMutableTransaction nulltx;
        expect_invalid(raw(c.block, sids, {{0, MakeTransactionRef(nulltx)}}), "null prefilled transaction");
        // boundary that IS valid: prefilled index exactly the last slot
        {
            Bytes wire = raw(c.block, sids, {{(uint64_t)n - 1, c.vtx[0]}});
            CBlockHeaderAndShortTxIDs cmpct;
            DataStream s{wire};
            s >> cmpct;
            PartiallyDownloadedBlock pdb(g_pool);
            g_eval++;
            if (pdb.InitData(cmpct, {}) != READ_STATUS_OK) vx::violation("cmpct-last-slot-prefilled", "InitData rejects a prefilled transaction at the last position", describe(c, "prefilled at last slot"));
        }
    }
}

// getblocktxn index list: differential encoding (BIP152) for every subset of 0..7 and a few wide gaps
static void part_indexes()
{
    for (unsigned sub = 0; sub < 256; sub++) {
        BlockTransactionsRequest req;
        req.blockhash = uint256{7};
        for (int i = 0; i < 8; i++) if (sub >> i & 1) req.indexes.push_back(i == 7 ? 300 : i == 6 ? 65535 - (sub & 1) : i);
        std::sort(req.indexes.begin(), req.indexes.end());
        Bytes want(req.blockhash.begin(), req.blockhash.end());
        put_cs(want, req.indexes.size());
        int64_t last = -1;
        for (uint16_t v : req.indexes) { put_cs(want, (uint64_t)(v - last - 1)); last = v; }
        Bytes got = ser_plain(req);
        BlockTransactionsRequest back;
        bool ok = true;
        try { DataStream s{got}; s >> back; ok = s.empty(); } catch (const std::exception&) { ok = false; }
        g_eval++;
        if (got != want || !ok || back.indexes != req.indexes || back.blockhash != req.blockhash)
            vx::violation("getblocktxn-indexes", "BlockTransactionsRequest differential index encoding wrong / does not round trip for index set " + S(sub), "part indexes\nsubset " + S(sub));
    }
    // overflowing differential indexes must be rejected, not wrapped
    Bytes bad(32, 0);
    put_cs(bad, 2);
    put_cs(bad, 65535);
    put_cs(bad, 0);
    bool thrown = false;
    try { DataStream s{bad}; BlockTransactionsRequest r; s >> r; } catch (const std::ios_base::failure&) { thrown = true; }
    g_eval++;
    if (!thrown) vx::violation("getblocktxn-overflow", "differentially encoded index overflowing 16 bits accepted", "part indexes\noverflow");
}

int main(int argc, char** argv)
{
    vx::init(argc, argv, "C38", "exploration");
    auto& E = vx::ev();
    const bool big = vx::thorough();
    if (!vx::ctx().replay.empty()) {
        std::ifstream f(vx::ctx().replay);
        std::string l;
        printf("replay case (re-run the tier to re-check):\n");
        while (std::getline(f, l)) printf("  %s\n", l.c_str());
    }
    TestingSetup setup{ChainType::REGTEST};
    g_pool = setup.m_node.mempool.get();
    // reference self-test: short id of the real code == BIP152 transcription (otherwise every "honest" case would be noise)
    {
        Case c = make_block(2, 1, 0);
        CBlockHeaderAndShortTxIDs real{c.block, 99};
        SidKey k = sid_key(c.block, 99);
        if (real.GetShortID(c.vtx[1]->GetWitnessHash()) != ref_sid(k, c.vtx[1]->GetWitnessHash().ToUint256()))
            vx::violation("cmpct-shortid", "GetShortID differs from the BIP152 definition (SipHash-2-4 keyed by SHA256(header||nonce), 6 bytes)", "shortid");
        if (IsBlockMutated(c.block, true)) { printf("HARNESS-ERROR generated segwit block is flagged mutated\n"); return 2; }
    }
    const int maxn = big ? 5 : 4;
    int blocks = 0;
    for (int n = 1; n <= maxn; n++)
        for (unsigned tm = 0; tm < (1u << (n - 1)); tm++) {
            Case c = make_block(n, tm, (uint32_t)(n * 100 + tm));
            run_block(c, big);
            blocks++;
            if (vx::rep().violations > 20) break;
        }
    part_indexes();
    pool_set({});
    struct G { const char* name; uint64_t v; } gates[] = {{"FillBlock OK", g_ok}, {"FillBlock FAILED", g_failed}, {"FillBlock INVALID", g_invalid}, {"honest OK", g_honest_ok},
        {"witness twin rejected", g_twin_rejected}, {"permutation rejected", g_perm_rejected}, {"slot filled from mempool", g_from_pool}, {"slot filled from extra pool", g_from_extra},
        {"duplicated-tail encoding rejected", g_dup_tail_rejected}, {"malicious InitData INVALID", g_init_invalid}};
    for (auto& g : gates)
        if (!g.v && vx::rep().violations == 0) { printf("HARNESS-ERROR outcome class never occurred: %s\n", g.name); return 2; }
    E.evaluations = g_eval;
    E.distinct_nontrivial = g_distinct.size();
    E.set("blocks", (uint64_t)blocks);
    E.set("fillblock_ok", g_ok);
    E.set("fillblock_failed", g_failed);
    E.set("fillblock_invalid", g_invalid);
    E.set("honest_ok", g_honest_ok);
    E.set("witness_twin_rejected", g_twin_rejected);
    E.set("initdata_rejected_malicious", g_init_failed + g_init_invalid);
    E.sample("blocks of 1.." + S(maxn) + " txs, every legacy/segwit mix: " + S(blocks) + " blocks; InitData cases (distinct)=" + S(g_distinct.size()) + "; FillBlock OK=" + S(g_ok) + " FAILED=" + S(g_failed) + " INVALID=" + S(g_invalid));
    E.sample("answers per InitData: exact, one too few, one too many, every permutation, every position substituted by {decoy legacy, decoy segwit, another block tx, witness twin, stripped twin}; segwit_active in {1,0}");
    E.rule = "blocks n=1..max txs x every legacy/segwit assignment x every prefilled subset (incl. coinbase not prefilled) x mempool state per tx {absent, present, witness-twin present} x decoys {no,yes} x extra pool {empty, missing txs, twins+stripped+decoy, both} "
             "x blocktxn answers {exact, too few, too many, all permutations, every single substitution}; plus malicious encodings (duplicated tail with equal merkle root, reordered / dropped / twin / decoy prefilled, decoy short id). "
             "oracle: FillBlock OK => wtxid list, header hash, merkle root equal the announced block; honest => OK. distinct = distinct (block, encoding, mempool, extra) InitData cases";
    E.exhaustive = true;
    E.assume("true 48-bit short-id collisions are not constructed (2^48 work for a fixed header); collision handling is exercised only through safety of mismatching candidates");
    return vx::finish();
}
